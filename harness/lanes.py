"""Number lanes between Python floats and TLC (which has 32-bit integers only)."""
import math
import struct


def key64(x: float) -> int:
    """order-preserving 64-bit key of a float64 (-0.0 == 0.0; NaN not allowed)"""
    if x != x:
        raise ValueError("NaN in the order lane")
    if x == 0.0:
        x = 0.0
    b = struct.unpack("<Q", struct.pack("<d", x))[0]
    return b ^ 0xFFFFFFFFFFFFFFFF if b >> 63 else b | (1 << 63)


def limbs(x: float):
    k = key64(float(x))
    return [k >> 44, (k >> 22) & 0x3FFFFF, k & 0x3FFFFF]


def ulps(a: float, b: float, cap=1_000_000) -> int:
    if a != a or b != b or math.isinf(a) or math.isinf(b):
        return 0 if (a == b or (a != a and b != b)) else cap
    return min(cap, abs(key64(a) - key64(b)))
