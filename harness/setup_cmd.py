"""./vf setup: syntax-check the specification tree, verify the tooling, warm the TLC cache."""
import subprocess
import sys

from common import SPEC, WORK, PY
import tlc


def main():
    WORK.mkdir(exist_ok=True)
    bad = 0
    for p in sorted(SPEC.glob("*.tla")):
        if not tlc.sany(p.stem):
            print("WARNING: SANY reports problems in", p.name, "(a check using it will fail as machinery failure)")
    r = subprocess.run([PY, "-c", "import pyhf, mpmath, numpy; print('pyhf', pyhf.__version__)"], capture_output=True, text=True)
    print(r.stdout.strip() or r.stderr.strip())
    if r.returncode:
        bad += 1
    print("setup", "FAILED" if bad else "ok")
    return 1 if bad else 0
