"""Binding B: validate recorded traces with TLC against a Trace*.tla module.

write(traces) -> ndjson file (one trace per line); check(module, file) runs TLC (-workers 1, deadlock off),
collects the ids the trace spec printed as accepted (<<"TRACE-OK", id>>), and for a rejected trace finds the
longest accepted prefix by bisection so that the verdict names the first unexplained record.
"""
from __future__ import annotations

import json
import os
import re

import tlc
from common import Machinery, workdir


def write(traces, path):
    with open(path, "w") as f:
        for t in traces:
            f.write(json.dumps(t) + "\n")


_OK = re.compile(r'<<"TRACE-OK", (\d+)>>')


def _run(module, path, invariants, constants=None, spec="TraceSpec"):
    cfg = tlc.make_cfg(constants or {}, invariants=invariants, spec=spec)
    res = tlc.run(module, cfg, workers=1, timeout=1800, use_cache=False, env_extra={"TRACE_FILE": str(path)}, dfs=True)
    ok_ids = {int(m.group(1)) for m in _OK.finditer(res.tail)}
    # tail keeps only the last lines: re-read the whole stdout if the run dir survived
    return res, ok_ids


def check(module, traces, invariants=(), tag="trace", max_rejections=4, constants=None, spec="TraceSpec"):
    """traces: list of dicts with keys id (int), init, events.  Returns (accepted ids, rejections) where a rejection is
    (trace id, index of first unexplained event (0-based), reason)."""
    if not traces:
        return set(), []
    d = workdir(tag)
    accepted, rejections = set(), []
    pending = list(traces)
    # TLC stops at the first trace it cannot finish: loop until all are classified
    guard = 0
    while pending:
        guard += 1
        if guard > 50:
            raise Machinery("trace validation does not converge")
        path = d / f"batch{guard}.ndjson"
        write(pending, path)
        res, _ = _run(module, path, list(invariants), constants, spec)
        got = {int(m.group(1)) for mk in res.marks for m in [_OK.match(mk)] if m}
        ok_ids = [t["id"] for t in pending if t["id"] in got]
        inv_viol = [e for e in res.errors if "is violated" in e]
        if len(ok_ids) == len(pending) and not inv_viol:
            accepted.update(ok_ids)
            break
        # first trace not accepted
        bad = next(t for t in pending if t["id"] not in ok_ids)
        accepted.update(ok_ids)
        # bisect the longest accepted prefix of the bad trace
        lo, hi = 0, len(bad["events"])       # prefix of length lo accepted (lo = 0 trivially), hi rejected
        reason = inv_viol[0] if inv_viol else "no action of the trace specification explains the record"
        while hi - lo > 1:
            mid = (lo + hi) // 2
            p2 = d / "prefix.ndjson"
            write([dict(bad, events=bad["events"][:mid], prefix=True)], p2)
            r2, _ = _run(module, p2, list(invariants), constants, spec)
            # a prefix may end mid-call (pc # idle): accepted iff all its records were consumed -> use the level reached
            consumed = _consumed(r2)
            if consumed >= mid and not [e for e in r2.errors if "is violated" in e]:
                lo = mid
            else:
                hi = mid
        rejections.append((bad["id"], lo, reason))
        if len(rejections) >= max_rejections:      # enough to report; the rest stays unclassified
            break
        pending = [t for t in pending if t["id"] not in ok_ids and t["id"] != bad["id"]]
    for f in d.glob("*.ndjson"):
        f.unlink()
    try:
        d.rmdir()
    except OSError:
        pass
    return accepted, rejections


def _consumed(res):
    """number of trace records consumed = depth of the linear state graph - 1 (initial state)"""
    return max(0, res.depth - 1)
