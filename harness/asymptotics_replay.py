"""Worker side of the C07 replay: TLC's (kind, base, q, qA) cases driven through the REAL
AsymptoticCalculator / AsymptoticTestStatDistribution / hypotest.

The two test-statistic evaluations inside ``AsymptoticCalculator.teststatistic`` (observed data, Asimov
data) are the only thing replaced: ``pyhf.infer.utils.get_test_stat`` -- looked up by ``teststatistic`` as
``utils.get_test_stat`` -- returns a stub yielding TLC's q on the first call and q_A on the second.  The
Asimov fit, the sqrt / two-branch transform, the distributions, p-values and the band are pyhf's own.

Compared against the DEFINITION layer of Asymptotics.tla (exact Phi-arguments, evaluated by leaf.phi):
violations.  Differences to the implementation-shaped layer only (test statistic value, shift, cutoff,
expected_value): model drift.
"""
import json
import math
import random

import leaf
from common import frac

RTOL = 1e-10          # on p-values whose argument is representable
TAIL = 37             # |argument| below which the property makes a claim
CONT = 1e-9           # continuity across the floating-point neighbours of the seam
NS = [2, 1, 0, -1, -2]
mp = leaf.mp


def _rel(got, exp):
    if got != got:
        return float("inf")
    exp = mp.mpf(exp)
    if exp == 0:
        return abs(got)
    return float(abs(mp.mpf(got) - exp) / abs(exp))


class BindingBroken(Exception):
    """the stub was not reached the way teststatistic is specified to reach it (machinery, not a verdict)"""


class _Stub:
    """stands in for pyhf.infer.utils.get_test_stat: first evaluation -> q, second -> qA"""

    def __init__(self, pyhf, q, qA):
        self.pyhf, self.vals, self.calls = pyhf, [q, qA], []

    def get_test_stat(self, name):
        def teststat(poi_test, data, pdf, init_pars, par_bounds, fixed_params, return_fitted_pars=False):
            import numpy as np
            tl = self.pyhf.tensorlib
            i = len(self.calls)
            self.calls.append(name)
            v = tl.astensor(np.asarray(self.vals[min(i, 1)], dtype=np.float64))   # exact: no float32 detour
            pars = tl.astensor(np.asarray(pdf.config.suggested_init(), dtype=np.float64))
            return (v, (pars, pars)) if return_fitted_pars else v
        return teststat


class StaleCalculator(Exception):
    pass


class _Patched:
    def __init__(self, pyhf, stub):
        import pyhf.infer.calculators as C
        import pyhf.infer.utils as U
        self.U, self.C, self.stub = U, C, stub

    def __enter__(self):
        self.old_u = self.U.get_test_stat
        self.U.get_test_stat = self.stub.get_test_stat
        self.old_c = getattr(self.C, "get_test_stat", None)
        if self.old_c is not None:
            self.C.get_test_stat = self.stub.get_test_stat
        return self.stub

    def __exit__(self, *a):
        self.U.get_test_stat = self.old_u
        if self.old_c is not None:
            self.C.get_test_stat = self.old_c
        return False


def _f(tl, x):
    if isinstance(x, (int, float)):
        return float(x)
    v = tl.tolist(x)
    while isinstance(v, list):
        if len(v) != 1:
            raise ValueError(f"expected a scalar, got {v}")
        v = v[0]
    return float(v)


def def_args_float(kind, q, qA):
    """definition (paper) arguments for arbitrary floats, 50 digits"""
    Q, QA = mp.mpf(q), mp.mpf(qA)
    r, rA = mp.sqrt(Q), mp.sqrt(QA)
    if kind == "qtilde" and q > qA:
        return -(Q + QA) / (2 * rA), -(Q - QA) / (2 * rA)
    return -r, rA - r


def replay(pyhf, backend, precision, chunk, seed, hypo_every=1, float_probes=0):
    import numpy as np
    tl = pyhf.tensorlib
    rng = random.Random(seed * 7919 + len(chunk))
    out = {"n": 0, "nontrivial": 0, "findings": [], "drift": [], "calls": 0, "hypotests": 0, "seam_probes": 0,
           "float_probes": 0, "beyond_tail": 0, "compared": 0, "maxrel": 0.0, "stub_calls": 0, "refused_early": 0,
           "by_kind": {}, "branch2": 0, "seam": 0, "capped": 0}
    model = pyhf.simplemodels.uncorrelated_background(signal=[5.0], bkg=[50.0], bkg_uncertainty=[7.0])
    data = tl.astensor(np.asarray([53.0] + list(model.config.auxdata), dtype=np.float64))
    calcs = pyhf.infer.calculators
    btag = f"backend:{backend}"

    def add(key, detail, tags):
        if len(out["findings"]) < 40:
            out["findings"].append(("C07", key, detail, list(tags) + [btag]))
        else:
            out["more"] = out.get("more", 0) + 1

    def drift(detail):
        if len(out["drift"]) < 10:
            out["drift"].append(("Asymptotics", detail))

    def cmp_p(route, name, got, arg, ctx, tags):
        """one p-value against Phi(exact argument); returns False on a reported violation"""
        if abs(arg) >= TAIL:
            out["beyond_tail"] += 1
            return True
        e = leaf.phi(arg)
        rel = _rel(got, e)
        out["compared"] += 1
        if rel <= RTOL:
            out["maxrel"] = max(out["maxrel"], rel)
            return True
        add(f"{route}: {name} differs from the arXiv:1007.1727 value Phi({float(arg):.6g})",
            dict(ctx, quantity=name, got=got, expected=float(e), argument=str(arg), rel=rel), tags + [name])
        return False

    def cmp_triple(route, sb, b, s, asb, ab, ctx, tags):
        """CLsb, CLb, CLs against the definition + the ordering consequences"""
        ok = cmp_p(route, "CLsb", sb, asb, ctx, tags) & cmp_p(route, "CLb", b, ab, ctx, tags)
        if s is not None and -TAIL < asb and -TAIL < ab < TAIL:
            e = leaf.phi(asb) / leaf.phi(ab)
            rel = _rel(s, e)
            out["compared"] += 1
            if rel > RTOL:
                add(f"{route}: CLs is not the ratio CLsb/CLb of the arXiv:1007.1727 values",
                    dict(ctx, quantity="CLs", got=s, expected=float(e), rel=rel), tags + ["CLs"])
                ok = False
            else:
                out["maxrel"] = max(out["maxrel"], rel)
        if ok and -TAIL < asb and -TAIL < ab:
            eps = 1e-12
            if not (0.0 <= sb <= b * (1 + eps) and b <= 1.0 + eps and (s is None or 0.0 <= s <= 1.0 + eps)):
                add(f"{route}: ordering 0 <= CLsb <= CLb <= 1, 0 <= CLs <= 1 broken", dict(ctx, CLsb=sb, CLb=b, CLs=s), tags + ["ordering"])
                ok = False
        return ok

    def run_calc(kind, base, q, qA, want_early=False, prev=None):
        """the calculator protocol on the real class; returns observed values.  prev = (q, qA) of an earlier scan point the
        SAME calculator object served first (Rescan of MC_Asymptotics): the complete protocol runs at mu = 0.5 with those
        statistics, then the reported protocol at mu = 1.0 on the same object"""
        # configuration lane (seeded change C07d): the formulae are functions of (q, q_A, kind) alone -- the caller's parameter bounds,
        # in particular a POI lower bound other than 0, must not select the branch.  Two calls in five get their own bounds.
        lo = rng.choice([None, None, None, -1.0, -5.0])
        if lo is None:
            calc = calcs.AsymptoticCalculator(data, model, test_stat=kind, calc_base_dist=base)
        else:
            bnds = [list(b) for b in model.config.suggested_bounds()]
            bnds[model.config.poi_index] = [lo, 10.0 + rng.choice([0.0, 5.0])]
            calc = calcs.AsymptoticCalculator(data, model, par_bounds=bnds, test_stat=kind, calc_base_dist=base)
            out["own_bounds"] = out.get("own_bounds", 0) + 1
        if prev is not None:
            stub0 = _Stub(pyhf, prev[0], prev[1])
            with _Patched(pyhf, stub0):
                t0 = calc.teststatistic(0.5)
                sb0, b0 = calc.distributions(0.5)
                calc.pvalues(t0, sb0, b0)
                calc.expected_pvalues(sb0, b0)
            out["rescans"] = out.get("rescans", 0) + 1
        stub = _Stub(pyhf, q, qA)
        with _Patched(pyhf, stub):
            early = None
            if want_early:
                try:
                    calc.distributions(1.0)
                    early = "accepted"
                except RuntimeError:
                    early = "RuntimeError"
                except Exception as e:  # noqa: BLE001
                    early = type(e).__name__
            t = calc.teststatistic(1.0)
            if len(stub.calls) != 2 and prev is not None and len(stub0.calls) == 2:
                # the binding worked for the first scan point of this very object: the second point was not evaluated in full
                raise StaleCalculator(f"teststatistic evaluated the test statistic {len(stub.calls)} time(s) for the second scan point of a reused "
                                      "calculator (observed and Asimov statistic are both required for every tested value)")
            if len(stub.calls) != 2:
                raise BindingBroken(f"binding broken: the get_test_stat stub was called {len(stub.calls)} times by teststatistic (expected 2); "
                                   "teststatistic no longer looks the function up as pyhf.infer.utils.get_test_stat")
            out["stub_calls"] += 2
            sbd, bd = calc.distributions(1.0)
            pv = calc.pvalues(t, sbd, bd)
            ev = calc.expected_pvalues(sbd, bd)
            direct = (sbd.pvalue(t), bd.pvalue(t), [bd.expected_value(n) for n in NS])
        out["calls"] += 1
        res = dict(t=_f(tl, t), cached=_f(tl, calc.sqrtqmuA_v), shift_sb=_f(tl, sbd.shift), shift_b=_f(tl, bd.shift),
                   cutoff=_f(tl, sbd.cutoff), cutoff_b=_f(tl, bd.cutoff),
                   CLsb=_f(tl, pv[0]), CLb=_f(tl, pv[1]), CLs=_f(tl, pv[2]),
                   band=[[_f(tl, x) for x in col] for col in ev],
                   d_sb=_f(tl, direct[0]), d_b=_f(tl, direct[1]), d_e=[_f(tl, x) for x in direct[2]], early=early)
        if len(res["band"]) != 3 or any(len(c) != 5 for c in res["band"]):
            raise ValueError("expected_pvalues did not return three lists of five")
        return res

    def run_hypotest(kind, base, q, qA):
        stub = _Stub(pyhf, q, qA)
        with _Patched(pyhf, stub):
            r = pyhf.infer.hypotest(1.0, data, model, test_stat=kind, calc_base_dist=base,
                                    return_tail_probs=True, return_expected_set=True)
            if len(stub.calls) != 2:
                raise BindingBroken(f"binding broken: stub called {len(stub.calls)} times inside hypotest")
        out["stub_calls"] += 2
        out["hypotests"] += 1
        return _f(tl, r[0]), [_f(tl, x) for x in r[1]], [_f(tl, x) for x in r[2]]

    for idx, line in enumerate(chunk):
        case = json.loads(line)
        kind, base = case["kind"], case["base"]
        q, qA = float(frac(case["q"])), float(frac(case["qA"]))
        asb, ab = frac(case["def"]["sb"]), frac(case["def"]["b"])
        region = "seam" if case["cmp"] == 0 else ("q>qA" if case["cmp"] > 0 else "q<qA")
        tags = [f"kind:{kind}", f"base:{base}", f"region:{region}"] + (["branch:2"] if case["branch2"] else ["branch:1"])
        ctx = {"case": {k: case[k] for k in ("kind", "base", "r", "rA", "q", "qA", "branch2")}, "backend": backend}
        out["n"] += 1
        out["by_kind"][kind] = out["by_kind"].get(kind, 0) + 1
        out["branch2"] += bool(case["branch2"])
        out["seam"] += case["cmp"] == 0
        out["capped"] += sum(bool(d["capped"]) for d in case["def"]["band"])
        if case["branch2"] or case["cmp"] == 0 or base == "clipped_normal":
            out["nontrivial"] += 1
        try:
            prev = (float(frac(case["prev"][0]["q"])), float(frac(case["prev"][0]["qA"]))) if case.get("prev") else None
            res = run_calc(kind, base, q, qA, want_early=(idx % 8 == 0 and prev is None), prev=prev)
            if prev is not None:
                tags = tags + ["rescan"]
        except BindingBroken:
            raise
        except Exception as e:  # noqa: BLE001
            add(f"calculator protocol failed: {type(e).__name__}: {e}", ctx, tags + ["evalfail"])
            continue
        if res["early"] is not None:
            out["refused_early"] += res["early"] == "RuntimeError"
            if res["early"] != "RuntimeError":
                drift(f"distributions() before teststatistic(): {res['early']} (specification: RuntimeError)")
        ctx = dict(ctx, observed=res)
        # --- observed p-values: calculator.pvalues and the distributions' own pvalue()
        ok = cmp_triple("calculator", res["CLsb"], res["CLb"], res["CLs"], asb, ab, ctx, tags + ["route:calculator.pvalues"])
        if ok and (res["d_sb"] != res["CLsb"] or res["d_b"] != res["CLb"]):
            ok = cmp_triple("distribution", res["d_sb"], res["d_b"], None, asb, ab, ctx, tags + ["route:distribution.pvalue"])
        # --- band
        dband = case["def"]["band"]
        okb = True
        for i in range(5):
            bsb, bb = frac(dband[i]["sb"]), frac(dband[i]["b"])
            btags = tags + ["route:expected_pvalues", f"N:{dband[i]['n']}"] + (["capped"] if dband[i]["capped"] else [])
            okb &= cmp_triple("band", res["band"][0][i], res["band"][1][i], res["band"][2][i], bsb, bb,
                              dict(ctx, band_index=i, N=dband[i]["n"]), btags)
            if not okb:
                break
        if okb:
            cls = res["band"][2]
            inr = [-TAIL < frac(d["sb"]) and -TAIL < frac(d["b"]) for d in dband]
            for i in range(4):
                if inr[i] and inr[i + 1] and not (cls[i] <= cls[i + 1] * (1 + 1e-12)):
                    add("expected band is not non-decreasing from -2 sigma to +2 sigma", dict(ctx, band=cls), tags + ["band_order"])
                    okb = False
                    break
        # --- implementation-shaped quantities: drift only (and only if the property-level values agreed)
        if ok and okb:
            im = case["impl"]
            et = float(frac(im["t"]))
            scale = max(1.0, abs(et), math.sqrt(q), math.sqrt(qA))
            if not abs(res["t"] - et) <= 1e-11 * scale * scale:
                drift(f"teststatistic = {res['t']!r}, specification TS = {et!r} for {ctx['case']}")
            if not abs(res["shift_sb"] - float(frac(im["shift"]))) <= 1e-12 * scale or res["shift_b"] != 0.0:
                drift(f"shifts {res['shift_sb']}, {res['shift_b']} differ from the specification for {ctx['case']}")
            ec = float(frac(im["cutoff"])) if im["cutfin"] else float("-inf")
            if not (res["cutoff"] == ec or abs(res["cutoff"] - ec) <= 1e-12 * scale):
                drift(f"cutoff {res['cutoff']} differs from the specification {ec} for {ctx['case']}")
            for i in range(5):
                if not abs(res["d_e"][i] - float(frac(im["e"][i]))) <= 1e-12 * scale:
                    drift(f"expected_value({NS[i]}) = {res['d_e'][i]}, specification {float(frac(im['e'][i]))} for {ctx['case']}")
                    break
        # --- hypotest route
        if ok and okb and idx % hypo_every == 0:
            try:
                h0, htail, hband = run_hypotest(kind, base, q, qA)
            except BindingBroken:
                raise
            except Exception as e:  # noqa: BLE001
                add(f"hypotest failed: {type(e).__name__}: {e}", ctx, tags + ["evalfail", "route:hypotest"])
                continue
            htags = tags + ["route:hypotest"]
            hctx = dict(ctx, hypotest=[h0, htail, hband])
            if kind == "q0":
                # documented layout for the discovery statistic: p-value CLsb, tail [CLb], band of CLsb
                if len(htail) != 1:
                    drift(f"hypotest(test_stat='q0') tail probabilities have length {len(htail)}")
                else:
                    cmp_triple("hypotest", h0, htail[0], None, asb, ab, hctx, htags)
                if hband != res["band"][0]:
                    drift("hypotest(test_stat='q0') band is not the calculator's CLsb band")
            else:
                if len(htail) != 2:
                    add("hypotest tail probabilities are not [CLsb, CLb]", hctx, htags + ["layout"])
                else:
                    cmp_triple("hypotest", htail[0], htail[1], h0, asb, ab, hctx, htags)
                for i in range(5):
                    bsb, bb = frac(dband[i]["sb"]), frac(dband[i]["b"])
                    if -TAIL < bsb and -TAIL < bb < TAIL:
                        e = leaf.phi(bsb) / leaf.phi(bb)
                        out["compared"] += 1
                        if _rel(hband[i], e) > RTOL:
                            add("hypotest expected set differs from Phi(-N - sqrt qA)/Phi(-N)",
                                dict(hctx, band_index=i, expected=float(e)), htags + ["band", f"N:{dband[i]['n']}"])
                            break
        # --- the seam q = qA and its floating-point neighbours
        if ok and case["cmp"] == 0:
            pts = [math.nextafter(math.nextafter(qA, 0.0), 0.0), math.nextafter(qA, 0.0), qA,
                   math.nextafter(qA, math.inf), math.nextafter(math.nextafter(qA, math.inf), math.inf)]
            vals = []
            for qq in pts:
                try:
                    rr = run_calc(kind, base, qq, qA)
                except BindingBroken:
                    raise
                except Exception as e:  # noqa: BLE001
                    add(f"calculator failed next to the seam: {type(e).__name__}: {e}", dict(ctx, q=qq), tags + ["seam", "evalfail"])
                    vals = None
                    break
                out["seam_probes"] += 1
                a1, a2 = def_args_float(kind, qq, qA)
                if not cmp_triple("seam", rr["CLsb"], rr["CLb"], rr["CLs"], a1, a2, dict(ctx, q=qq, qA=qA, observed=rr),
                                  tags + ["seam", "route:calculator.pvalues"]):
                    vals = None
                    break
                vals.append((rr["CLsb"], rr["CLb"], rr["CLs"]))
            if vals:
                mid = vals[2]
                for v in vals:
                    if any(not abs(v[j] - mid[j]) <= CONT * abs(mid[j]) for j in range(3)):
                        add("p-values jump between q = qA and its floating-point neighbours (branches do not agree at the seam)",
                            dict(ctx, q_points=pts, values=vals), tags + ["seam", "discontinuous"])
                        break
    # --- harness-drawn floats (not on the perfect-square grid): whole (q, qA) plane up to the underflow boundary
    for _ in range(float_probes):
        kind = rng.choice(["q", "qtilde", "q0"])
        base = rng.choice(["normal", "clipped_normal"])
        qA = math.exp(rng.uniform(math.log(1e-6), math.log(1300.0)))
        mode = rng.random()
        if mode < 0.15:
            q = 0.0
        elif mode < 0.3:
            q = qA * (1 + rng.choice([-1, 1]) * 10 ** rng.uniform(-15, -3))
        else:
            q = math.exp(rng.uniform(math.log(1e-9), math.log(1300.0)))
        a1, a2 = def_args_float(kind, q, qA)
        tags = [f"kind:{kind}", f"base:{base}", "float_probe", "region:" + ("q>qA" if q > qA else "q<=qA")]
        ctx = {"case": {"kind": kind, "base": base, "q": q, "qA": qA}, "backend": backend}
        try:
            rr = run_calc(kind, base, q, qA)
        except BindingBroken:
            raise
        except Exception as e:  # noqa: BLE001
            add(f"calculator protocol failed: {type(e).__name__}: {e}", ctx, tags + ["evalfail"])
            continue
        out["float_probes"] += 1
        if cmp_triple("float", rr["CLsb"], rr["CLb"], rr["CLs"], a1, a2, dict(ctx, observed=rr), tags + ["route:calculator.pvalues"]):
            rA = mp.sqrt(mp.mpf(qA))
            for i, n in enumerate(NS):
                e = -rA if (base == "clipped_normal" and n < -rA) else mp.mpf(n)
                if not cmp_triple("band", rr["band"][0][i], rr["band"][1][i], rr["band"][2][i], -(e + rA), -e,
                                  dict(ctx, observed=rr, N=n), tags + ["route:expected_pvalues", f"N:{n}"]):
                    break
    return out
