"""Worker side of C05 (also used by C06/C08): real fits driven from FitClosed.tla / Fit.tla cases; H4 traces collected
for TraceFit.tla; closed-form and competitor-set comparisons."""
import itertools
import json
import math

import leaf
import lanes
from common import frac

def FUN_TOL(f, opt="scipy"):
    """the optimiser's own tolerance on the objective, with margin: SLSQP stops at ftol 1e-6; MIGRAD at an estimated
    distance to minimum of 2e-4 (0.002 * tol=0.1 * errordef=1), which bounds the objective error near a parabolic minimum
    but is exceeded slightly at a boundary optimum (observed 6e-5)  -- calibrated on the unchanged tree, frozen"""
    return (1e-5 + 1e-7 * abs(f)) if opt == "scipy" else 1e-3


def FUN_TOL_B(f, opt, on_bound):
    """MIGRAD approaches an optimum that sits on a bound only asymptotically (internal sin-transformation of bounded
    parameters): observed shortfall up to 1.2e-3 on the unchanged tree; 1e-2 is the frozen allowance there"""
    return 1e-2 if (opt == "minuit" and on_bound) else FUN_TOL(f, opt)


_MODELS = {}     # per worker process: model objects are reused across cases (same yields and bounds, other observations, tested
                 # values, options) so that anything a model remembers from earlier calls shows in later results


def counting_model(pyhf, case):
    sig = [float(frac(x)) for x in case["sig"]]
    bkg = [float(frac(x)) for x in case["bkg"]]
    spec = {"channels": [{"name": "ch", "samples": [
        {"name": "sig", "data": sig, "modifiers": [{"name": "mu", "type": "normfactor", "data": None}]},
        {"name": "bkg", "data": bkg, "modifiers": []}]}],
        "parameters": [{"name": "mu", "bounds": [[float(frac(case["lo"])), float(frac(case["hi"]))]], "inits": [1.0]}]}
    key = (id(pyhf), json.dumps(spec, sort_keys=True))
    if key not in _MODELS:
        if len(_MODELS) > 400:
            _MODELS.clear()
        _MODELS[key] = pyhf.Model(spec, poi_name="mu")
    return _MODELS[key], [float(frac(x)) for x in case["obs"]]


def nuisance_model(pyhf):
    """3 parameters: mu, gamma_1, gamma_2 (shapesys) -- no closed form; used for the protocol / competitor checks"""
    spec = {"channels": [{"name": "ch", "samples": [
        {"name": "sig", "data": [6.0, 9.0], "modifiers": [{"name": "mu", "type": "normfactor", "data": None}]},
        {"name": "bkg", "data": [55.0, 48.0], "modifiers": [{"name": "u", "type": "shapesys", "data": [6.0, 9.0]}]}]}],
        "parameters": []}
    return pyhf.Model(spec, poi_name="mu")


class Tracer:
    """collects H4 records per top-level call and turns them into order-lane traces for TraceFit.tla"""

    def __init__(self, pyhf):
        self.v = getattr(pyhf, "_verif", None)
        self.on = bool(self.v and self.v.ON)
        self.buf = []
        self.traces = []
        if self.on:
            self.v.set_sink(self.buf.append)

    def close(self):
        if self.on:
            self.v.set_sink(None)

    def flush(self, pyhf, model, data, label):
        """called after each top-level library call made with (model, data)"""
        if not self.on:
            return
        evs = []
        for r in self.buf:
            ev = r["ev"]
            if not ev.startswith("fit."):
                continue
            e = {"ev": ev}
            L = lanes.limbs
            if ev == "fit.shim":
                e.update(npars=r["npars"], init=[L(x) for x in r["init"]], bounds=[[L(a), L(b)] for a, b in r["bounds"]],
                         fixed_vals=[[i, L(v)] for i, v in r["fixed_vals"]], do_grad=r["do_grad"], do_stitch=r["do_stitch"],
                         x0=[L(x) for x in r["x0"]], vbounds=[[L(a), L(b)] for a, b in r["vbounds"]],
                         mfixed=[[i, L(v)] for i, v in r["mfixed"]])
            elif ev == "fit.raw":
                e.update(x=[L(x) for x in r["x"]], fun=L(r["fun"]), success=r["success"])
            elif ev == "fit.return":
                tl = pyhf.tensorlib
                try:
                    ref = float(tl.tolist(pyhf.infer.mle.twice_nll(tl.astensor(r["x"]), tl.astensor(data), model))[0])
                    u = lanes.ulps(r["fun"], ref)
                    # an objective of the size 1e2 resolves 1e-14: treat differences below 1e-11 relative as rounding
                    if abs(r["fun"] - ref) <= 1e-11 * max(1.0, abs(ref)):
                        u = min(u, 1)
                except Exception:  # noqa: BLE001
                    u = 999999
                e.update(x=[L(x) for x in r["x"]], fun=L(r["fun"]), fun_ulps=u)
            evs.append(e)
        self.buf.clear()
        if evs:
            self.traces.append({"id": 0, "label": label, "events": evs})


def _configs(pyhf, backend):
    opts = ["scipy", "minuit"]
    grads = [False] + ([True] if backend in ("jax", "pytorch", "tensorflow") else [])
    for o, g, st in itertools.product(opts, grads, [False, True]):
        if o == "minuit" and g and backend == "pytorch":
            pass
        yield o, g, st


def replay_closed(pyhf, backend, precision, chunk, seed):
    out = {"n": 0, "nontrivial": 0, "findings": [], "fits": 0, "skipped": 0, "traces": []}
    tr = Tracer(pyhf)

    def add(key, detail, tags):
        if len(out["findings"]) < 30:
            out["findings"].append(("C05", key, detail, tags))
    for line in chunk:
        case = json.loads(line)
        lo = frac(case["lo"])
        # well-posed: every bin keeps a strictly positive expectation over the whole POI range
        if any(lo * frac(s) + frac(b) <= 0 for s, b in zip(case["sig"], case["bkg"])):
            out["skipped"] += 1
            continue
        out["n"] += 1
        model, obs = counting_model(pyhf, case)
        data = obs + list(model.config.auxdata)
        muhat = float(frac(case["muhat"]))
        fun_hat = float(-2 * sum(leaf.term_logp(t, frac) for t in case["terms_hat"]))
        mu_t = float(max(frac(case["mu"]), lo))
        fun_mu = float(-2 * sum(leaf.term_logp(t, frac) for t in case["terms_mu"]))
        results = {}
        for (o, g, st) in _configs(pyhf, backend):
            pyhf.set_backend(backend, o, precision=precision)
            tags = [f"opt:{o}", f"grad:{g}", f"stitch:{st}", f"fam:{case['fam']}"]
            det = {"case": {k: case[k] for k in ("fam", "s", "b", "n", "mu", "lo", "muhat")}, "config": [o, g, st]}
            try:
                if out["n"] % 3 == 0:
                    # history on the OPTIMISER object: a deliberately coarse fit (per-call tolerance / iteration options) comes first;
                    # the fit that follows uses the optimiser's own settings again and must still attain the optimum
                    try:
                        pyhf.infer.mle.fit(data, model, do_grad=g, do_stitch=st, tolerance=0.3 if o == "scipy" else 10.0)
                    except Exception:  # noqa: BLE001   (a coarse fit may legitimately report failure)
                        pass
                    tr.buf.clear()
                    out["coarse_first"] = out.get("coarse_first", 0) + 1
                pars, fun = pyhf.infer.mle.fit(data, model, return_fitted_val=True, do_grad=g, do_stitch=st)
                tr.flush(pyhf, model, data, "fit")
                out["fits"] += 1
                pars = [float(x) for x in pyhf.tensorlib.tolist(pars)]
                fun = float(pyhf.tensorlib.tolist(fun))
            except Exception as e:  # noqa: BLE001
                tr.flush(pyhf, model, data, "fit")
                add(f"unconditional fit fails on a closed-form model: {type(e).__name__}: {e}", det, tags + ["fitfail"])
                continue
            results[(o, g, st)] = fun
            on_bound = frac(case["muhat"]) in (frac(case["lo"]), frac(case["hi"]))
            if abs(fun - fun_hat) > FUN_TOL_B(fun_hat, o, on_bound):
                add("fit does not attain the closed-form optimum", dict(det, fun=fun, fun_closed=fun_hat, pars=pars, muhat=muhat), tags + ["optimum"])
            elif fun < fun_hat - FUN_TOL(fun_hat, o):
                add("fit reports an objective below the exact optimum (not twice_nll at the returned point)", dict(det, fun=fun, fun_closed=fun_hat), tags + ["honest"])
            # the likelihood is flat-ish near the optimum: compare mu only when well-conditioned
            if abs(pars[0] - muhat) > 2e-3 * max(1.0, abs(muhat)) and abs(fun - fun_hat) <= FUN_TOL(fun_hat) and o == 'scipy' and case["fam"] == 1 and frac(case["n"]) > 0:
                add("fitted POI differs from the closed-form estimate", dict(det, pars=pars, muhat=muhat), tags + ["muhat"])
            try:
                p2, f2 = pyhf.infer.mle.fixed_poi_fit(mu_t, data, model, return_fitted_val=True, do_grad=g, do_stitch=st)
                tr.flush(pyhf, model, data, "fixed_poi_fit")
                out["fits"] += 1
                p2 = [float(x) for x in pyhf.tensorlib.tolist(p2)]
                f2 = float(pyhf.tensorlib.tolist(f2))
            except Exception as e:  # noqa: BLE001
                tr.flush(pyhf, model, data, "fixed_poi_fit")
                # the counting families have the POI as only parameter: a fixed-POI fit leaves nothing free
                add(f"fixed-POI fit fails on a closed-form model: {type(e).__name__}: {e}", det, tags + ["fitfail", "allfixed", f"exc:{type(e).__name__}"])
                continue
            if p2[0] != mu_t:
                add("fixed-POI fit does not hold the POI exactly at the supplied value", dict(det, pars=p2, mu=mu_t), tags + ["fixedheld"])
            if abs(f2 - fun_mu) > FUN_TOL(fun_mu, o):
                add("fixed-POI objective is not twice_nll at the fixed point", dict(det, fun=f2, expected=fun_mu), tags + ["honest"])
        if results and max(results.values()) - min(results.values()) > 2 * FUN_TOL(fun_hat, 'minuit'):
            add("attained objective depends on optimiser / gradient / stitching configuration", {"case": case["muhat"], "results": {str(k): v for k, v in results.items()}}, ["configs"])
        if frac(case["n"]) > 0:
            out["nontrivial"] += 1
    tr.close()
    out["traces"] = tr.traces
    return out


def replay_protocol(pyhf, backend, precision, chunk, seed):
    """cases of Fit.tla mapped onto the 3-parameter nuisance model: refusals, protocol traces, competitor sets"""
    out = {"n": 0, "nontrivial": 0, "findings": [], "fits": 0, "refusals": 0, "traces": [], "competitors": 0}
    tr = Tracer(pyhf)

    def add(key, detail, tags):
        if len(out["findings"]) < 30:
            out["findings"].append(("C05", key, detail, tags))
    model = nuisance_model(pyhf)
    cfgm = model.config
    sb = cfgm.suggested_bounds()
    data = [58.0, 61.0] + list(cfgm.auxdata)
    # abstract grid value -> concrete value inside the suggested bounds of each parameter
    conc = [[0.25, 1.0, 2.5], [0.6, 1.0, 1.4], [0.7, 1.0, 1.3]]
    tl_obj = lambda p: float(pyhf.tensorlib.tolist(pyhf.infer.mle.twice_nll(pyhf.tensorlib.astensor(p), pyhf.tensorlib.astensor(data), model))[0])  # noqa: E731
    for ci, line in enumerate(chunk):
        case = json.loads(line)
        out["n"] += 1
        init = [conc[i][case["init"][i]] for i in range(3)]
        bounds = [(conc[i][case["bounds"][i][0]] if case["bounds"][i][0] > 0 else float(sb[i][0]),
                   conc[i][case["bounds"][i][1]] if case["bounds"][i][1] < 2 else float(sb[i][1])) for i in range(3)]
        fixed = [bool(x) for x in case["fixed"]]
        # the POI of the concrete model is parameter 0: abstract poi index is mapped by rotating the roles
        use_poi = case["use_poi"] and case["poi"] == 1
        o = ["scipy", "minuit"][ci % 2]
        g = (backend != "numpy") and (ci % 3 == 0)
        pyhf.set_backend(backend, o, precision=precision)
        tags = [f"opt:{o}", f"grad:{g}", f"stitch:{case['do_stitch']}", "protocol"]
        det = {"case": case, "init": init, "bounds": bounds, "fixed": fixed, "optimizer": o}
        eff_fixed = list(fixed)
        if use_poi:
            eff_fixed[0] = True
        refused_expected = any(not (bounds[i][0] <= init[i] <= bounds[i][1]) for i in range(3))
        try:
            if use_poi:
                res = pyhf.infer.mle.fixed_poi_fit(init[0], data, model, init_pars=init, par_bounds=bounds, fixed_params=fixed,
                                                   return_fitted_val=True, do_grad=g, do_stitch=case["do_stitch"])
            else:
                if all(fixed):
                    continue   # nothing to fit
                res = pyhf.infer.mle.fit(data, model, init_pars=init, par_bounds=bounds, fixed_params=fixed,
                                         return_fitted_val=True, do_grad=g, do_stitch=case["do_stitch"])
            tr.flush(pyhf, model, data, "protocol")
        except ValueError as e:
            tr.flush(pyhf, model, data, "protocol" + (" allfixed" if all(eff_fixed) else ""))
            if "bounds" not in str(e) and all(eff_fixed):
                add(f"fit raised ValueError: {e}", det, tags + ["exception", "exc:ValueError", "allfixed", "fitfail"])
                continue
            out["refusals"] += 1
            if not refused_expected:
                add(f"fit refused although every initial value lies within its bounds: {e}", det, tags + ["refusal"])
            continue
        except Exception as e:  # noqa: BLE001
            tr.flush(pyhf, model, data, "protocol" + (" allfixed" if all(eff_fixed) else ""))
            if type(e).__name__ == "FailedMinimization":
                continue        # no success, no return: allowed by the property
            add(f"fit raised {type(e).__name__}: {e}", det, tags + ["exception", f"exc:{type(e).__name__}"] + (["allfixed", "fitfail"] if all(eff_fixed) else []))
            continue
        if refused_expected:
            add("initial value outside its bounds was accepted", det, tags + ["refusal"])
            continue
        out["fits"] += 1
        pars = [float(x) for x in pyhf.tensorlib.tolist(res[0])]
        fun = float(pyhf.tensorlib.tolist(res[1]))
        for i in range(3):
            if not (bounds[i][0] <= pars[i] <= bounds[i][1]):
                add("returned parameter outside the supplied bounds", dict(det, pars=pars), tags + ["inbounds"])
            if eff_fixed[i] and pars[i] != init[i]:
                add("fixed parameter not held exactly at its supplied value", dict(det, pars=pars), tags + ["fixedheld"])
        ref = tl_obj(pars)
        if abs(ref - fun) > 1e-9 * max(1.0, abs(ref)):
            add("returned objective is not twice_nll at the returned parameters", dict(det, fun=fun, recomputed=ref, pars=pars), tags + ["honest"])
        # competitor set = the minimiser's choice set of Fit.tla: grid points of the box with fixed coordinates held
        comp = itertools.product(*[[init[i]] if eff_fixed[i] else [v for v in conc[i] + [bounds[i][0], bounds[i][1]] if bounds[i][0] <= v <= bounds[i][1]] for i in range(3)])
        for cpt in comp:
            out["competitors"] += 1
            fc = tl_obj(list(cpt))
            if fc < fun - FUN_TOL(fun, o):
                on_b = any((not eff_fixed[i]) and init[i] in (bounds[i][0], bounds[i][1]) for i in range(3))
                add("a feasible grid point has a lower objective than the reported optimum", dict(det, pars=pars, fun=fun, competitor=list(cpt), competitor_fun=fc),
                    tags + ["optimum", "competitor"] + (["init_on_bound"] if on_b else []))
                break
        if sum(eff_fixed) >= 1:
            out["nontrivial"] += 1
    tr.close()
    out["traces"] = tr.traces
    return out
