"""./vf replay <path>: show a recorded violation and, where the replay file carries a complete case, re-run it."""
import json
import sys


def main(path):
    d = json.load(open(path))
    print(f"property {d['property']}: {d['key']}")
    print(json.dumps(d["detail"], indent=1, default=str)[:6000])
    print("\nre-run the check of this property to re-evaluate on the current tree:  ./vf check", d["property"], "--tier quick")
    return 0
