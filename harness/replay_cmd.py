"""./vf replay <path>: show a recorded violation and, for the HFModel family (C01 C02 C10 C12) and C04, re-run exactly that
case against the current tree."""
import json
import random
import sys


def main(path):
    d = json.load(open(path))
    prop = d["property"]
    print(f"property {prop}: {d['key']}")
    det = d["detail"]
    case = det.get("case") if isinstance(det, dict) else None
    if prop in ("C01", "C02", "C10", "C12") and isinstance(case, dict) and "chan_rates" in case:
        from common import use_pyhf_src
        use_pyhf_src()
        import pyhf
        import hfreplay
        props = {"C01": ["C01", "C10"], "C02": ["C02"], "C10": ["C10"], "C12": ["C12", "C01"]}[prop]
        F, drift, _ = hfreplay.check_case(pyhf, json.loads(json.dumps(case)), "numpy", "64b", props, random.Random(0), {})
        mine = [f for f in F if f.prop in ({"C01", "C10"} if prop == "C01" else {prop})]
        for f in mine:
            print("STILL FAILS:", f.key)
        if not mine:
            print("the recorded case passes on the current tree")
        return 1 if mine else 0
    if prop == "C04" and isinstance(det, dict) and "obligation" in det and "backend" in det:
        from common import use_pyhf_src
        use_pyhf_src()
        import pyhf
        import prob_replay
        if det.get("first"):      # the obligation was discharged after a first segment on another precision in the same process
            pyhf.set_backend(det["first"][0], precision=det["first"][1])
            prob_replay.warm_up(pyhf)
        pyhf.set_backend(det["backend"], precision=det["prec"])
        line = json.dumps({"backend": det["backend"], "prec": det["prec"], "obligation": det["obligation"]})
        out = prob_replay.replay(pyhf, det["backend"], det["prec"], [line])
        for key, _, _ in out["findings"]:
            print("STILL FAILS:", key)
        if not out["findings"]:
            print("the recorded obligation is discharged on the current tree")
        return 1 if out["findings"] else 0
    print(json.dumps(det, indent=1, default=str)[:6000])
    print("\n(no single-case re-execution for this property: re-run  ./vf check", prop, "--tier quick )")
    return 0
