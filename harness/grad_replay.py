"""Worker side of C13: value-and-gradient functions built by optimize.common.shim on AD backends against the exact
gradient pieces of HFGrad.tla."""
import json
import random

import hfreplay
import leaf
import names
from common import frac

mp = leaf.mp


def ll_value(x):
    return leaf.mpf(frac(x["r"])) + sum(leaf.mpf(frac(t["coef"])) * mp.log(leaf.mpf(frac(t["base"]))) for t in x["logs"])


def exact_gradient(case):
    """returns {abstract name: [mp values per component]} of d(2NLL)/d theta"""
    main = [frac(v) for v in case["main_data"]]
    rates, data = [], []
    g = 0
    for cr in case["chan_rates"]:
        rates.append([frac(r) for r in cr["rates"]])
        data.append(main[g:g + len(cr["rates"])])
        g += len(cr["rates"])
    theta = {e["name"]: [frac(v) for v in e["vals"]] for e in case["theta"]}
    aux = {a["name"]: [frac(v) for v in a["vals"]] for a in case["aux_data"]}
    par = {p["name"]: p for p in case["params"]}
    out = {}
    for ent in case["dlambda"]:
        n = ent["name"]
        comps = []
        for i, dl in enumerate(ent["comps"]):
            tot = mp.mpf(0)
            for ci, chan in enumerate(dl):
                for b, piece in enumerate(chan):
                    lam, nn = rates[ci][b], data[ci][b]
                    tot += 2 * (1 - leaf.mpf(nn) / leaf.mpf(lam)) * ll_value(piece)
            p = par[n]
            th = leaf.mpf(theta[n][i])
            if p["var"]:            # Gaussian constraint
                tot += 2 * (th - leaf.mpf(aux[n][i])) / leaf.mpf(frac(p["var"][i]))
            elif p["tau"]:          # Poisson constraint  -2 [a ln(theta tau) - theta tau]'
                tau = leaf.mpf(frac(p["tau"][i]))
                tot += 2 * (tau - leaf.mpf(aux[n][i]) / th)
            comps.append(tot)
        out[n] = comps
    return out


def atom_value(a, ncode, ainv):
    """value (d false) or derivative with respect to alpha (d true) of one normsys factor; None at the kink of code 1"""
    al = frac(a["alpha"])
    lo, hi = leaf.mpf(frac(a["lo"])), leaf.mpf(frac(a["hi"]))
    x = leaf.mpf(al)
    if ncode == 1 and al == 0 and a["d"]:
        return None
    if ncode == 1 or abs(al) >= 1:
        if al >= 0:
            v = mp.power(hi, x)
            return mp.log(hi) * v if a["d"] else v
        v = mp.power(lo, -x)
        return -mp.log(lo) * v if a["d"] else v
    lu, ld = mp.log(hi), mp.log(lo)
    b = [hi - 1, lo - 1, lu * hi, -ld * lo, lu * lu * hi, ld * ld * lo]
    ai = ainv["1"]
    coef = [sum(leaf.mpf(frac(ai[i][j])) * b[j] for j in range(6)) for i in range(6)]
    if a["d"]:
        return sum((i + 1) * coef[i] * x ** i for i in range(6))
    return 1 + sum(coef[i] * x ** (i + 1) for i in range(6))


def sym_sum(terms, ncode, ainv):
    tot = mp.mpf(0)
    for t in terms:
        v = leaf.mpf(frac(t["coef"]))
        for a in t["atoms"]:
            av = atom_value(a, ncode, ainv)
            if av is None:
                return None
            v *= av
        tot += v
    return tot


def exact_gradient_sym(case, ainv):
    """symbolic lane: d(2NLL)/d theta at the point with non-integer normsys alphas; None where a rate is not positive"""
    ds = case["dsym"][0]
    ncode = case["setting"]["ncode"]
    main = [frac(v) for v in case["main_data"]]
    rates, data, g = [], [], 0
    for chan in ds["rates"]:
        rr = []
        for b in chan:
            lam = sym_sum([dict(t, atoms=[dict(a, d=False) for a in t["atoms"]]) for t in b], ncode, ainv)
            if lam is None or lam <= 0:
                return None
            rr.append(lam)
        rates.append(rr)
        data.append(main[g:g + len(chan)])
        g += len(chan)
    theta = {e["name"]: [frac(v) for v in e["vals"]] for e in ds["theta"]}
    aux = {a["name"]: [frac(v) for v in a["vals"]] for a in case["aux_data"]}
    par = {p["name"]: p for p in case["params"]}
    out = {}
    for ent in ds["dlambda"]:
        n = ent["name"]
        comps = []
        for i, dl in enumerate(ent["comps"]):
            tot = mp.mpf(0)
            for ci, chan in enumerate(dl):
                for b, terms in enumerate(chan):
                    d = sym_sum(terms, ncode, ainv)
                    if d is None:
                        return None
                    tot += 2 * (1 - leaf.mpf(data[ci][b]) / rates[ci][b]) * d
            p = par[n]
            th = leaf.mpf(theta[n][i])
            if p["var"]:
                tot += 2 * (th - leaf.mpf(aux[n][i])) / leaf.mpf(frac(p["var"][i]))
            elif p["tau"]:
                tot += 2 * (leaf.mpf(frac(p["tau"][i])) - leaf.mpf(aux[n][i]) / th)
            comps.append(tot)
        out[n] = comps
    return out


def replay(pyhf, backend, precision, chunk, seed, ainv=None):
    out = {"n": 0, "nontrivial": 0, "findings": [], "grads": 0}
    rng = random.Random(seed)
    tl = pyhf.tensorlib
    from pyhf.optimize.common import shim  # noqa: the tree under test is first on sys.path
    cache = {}

    def add(key, detail, tags):
        if len(out["findings"]) < 25:
            out["findings"].append(("C13", key, detail, tags))
    for line in chunk:
        case = json.loads(line)
        case["_chan_nbins"] = [(cr["name"], len(cr["rates"])) for cr in case["chan_rates"]]
        key = hfreplay.spec_key(case)
        if key not in cache:
            cache.clear()
            spec, poi = hfreplay.concrete_spec(case, rng)
            try:
                cache[key] = pyhf.Model(spec, poi_name=poi, **hfreplay.model_kwargs(case))
            except Exception as e:  # noqa: BLE001
                add(f"well-formed spec refused: {type(e).__name__}: {e}", {"case": case["spec"]}, ["refused"])
                continue
        model = cache[key]
        cfg = model.config
        data = hfreplay.assemble_data(model, case)
        lanes = [("exact", hfreplay.assemble_pars(model, case["theta"]), exact_gradient(case), case["theta"])]
        if case.get("dsym") and ainv:
            ex = exact_gradient_sym(case, ainv)
            if ex is not None:
                lanes.append(("symbolic", hfreplay.assemble_pars(model, case["dsym"][0]["theta"]), ex, case["dsym"][0]["theta"]))
                out["symbolic"] = out.get("symbolic", 0) + 1
        out["n"] += 1
        bounds = cfg.suggested_bounds()
        masks = [[]]
        if cfg.npars >= 2:
            masks.append([0])
            masks.append([cfg.npars - 1])
        if cfg.npars >= 3:
            masks.append([cfg.npars - 1, 0])      # two fixed parameters, listed in DESCENDING index order (shim takes the caller's list as given)
        for lane, pars, exact, theta_json in lanes:
          exp_full = [None] * cfg.npars
          for n_abs, comps in exact.items():
            sl = cfg.par_slice(names.PARAMS[n_abs])
            for i, v in enumerate(comps):
                exp_full[sl.start + i] = float(v)
          tags = [f"backend:{backend}", f"hcode{case['setting']['hcode']}", f"ncode{case['setting']['ncode']}", f"lane:{lane}"]
          slim = {"spec": case["spec"], "setting": case["setting"], "theta": theta_json}
          for fixed_idx in masks:
              fixed_vals = [(i, pars[i]) for i in fixed_idx]
              free = [i for i in range(cfg.npars) if i not in fixed_idx]
              for do_stitch in (False, True):
                  try:
                      kw, _ = shim(pyhf.infer.mle.twice_nll, data, model, pars, bounds, fixed_vals, do_grad=True, do_stitch=do_stitch)
                      x0 = [pars[i] for i in free] if do_stitch else list(pars)
                      xt = tl.astensor(x0)
                      val, grad = kw["func"](xt)
                      grad = [float(g) for g in tl.tolist(grad)]
                      val = float(val)
                      # the SAME tensor object handed in again (what an optimiser that reuses its buffer does): same answer
                      val_b, grad_b = kw["func"](xt)
                      grad_b = [float(g) for g in tl.tolist(grad_b)]
                      if grad_b != grad or float(val_b) != val:
                          add("value-and-gradient function gives another answer when called again with the same tensor object",
                              {"case": slim, "fixed": fixed_idx, "stitch": do_stitch, "first": grad, "second": grad_b}, tags + ["gradient", "repeat"])
                      kw2, _ = shim(pyhf.infer.mle.twice_nll, data, model, pars, bounds, fixed_vals, do_grad=False, do_stitch=do_stitch)
                      v2 = kw2["func"](tl.astensor(x0))
                      try:
                          val2 = float(v2)
                      except Exception:  # noqa: BLE001
                          val2 = float(tl.tolist(v2))
                  except Exception as e:  # noqa: BLE001
                      add(f"value-and-gradient function failed: {type(e).__name__}: {e}", {"case": slim, "fixed": fixed_idx, "stitch": do_stitch}, tags + ["exception"])
                      continue
                  out["grads"] += 1
                  det = {"case": slim, "pars": pars, "data": data, "fixed": fixed_idx, "do_stitch": do_stitch, "grad": grad}
                  if abs(val - val2) > 1e-9 * max(1.0, abs(val2)):
                      add("objective value of the differentiating path differs from the plain path", dict(det, val=val, plain=val2), tags + ["value"])
                  idx = free if do_stitch else list(range(cfg.npars))
                  if len(grad) != len(idx):
                      add(f"gradient has {len(grad)} components, expected {len(idx)} (one per {'free ' if do_stitch else ''}parameter)", det, tags + ["length"])
                      continue
                  exp = [exp_full[i] for i in idx]
                  tol = 1e-8 if precision == "64b" else 1e-3
                  bad = [(i, g, e) for i, g, e in zip(idx, grad, exp)
                         if (i in free or do_stitch) and abs(g - e) > tol * max(1.0, abs(e))]
                  if bad:
                      add("gradient handed to the optimiser is not the exact derivative of twice the negative log-likelihood",
                          dict(det, expected=exp, mismatch=bad[:4]), tags + ["gradient", f"stitch:{do_stitch}"])
        if cfg.npars >= 2:
            out["nontrivial"] += 1
    return out
