"""The only numerical code the harness owns: mpmath evaluation of the transcendental leaves
the specification leaves symbolic (log Poisson continued through Gamma, log Normal, Phi)."""
from fractions import Fraction

import mpmath as mp

mp.mp.dps = 50


def mpf(x):
    if isinstance(x, Fraction):
        return mp.mpf(x.numerator) / mp.mpf(x.denominator)
    return mp.mpf(x)


def pois_logpmf(n, lam):
    """log Pois(n | lam) continued to real n; lam -> 0 limit: 1 at n = 0, else 0 (log -> -inf)."""
    n, lam = mpf(n), mpf(lam)
    if lam == 0:
        return mp.mpf(0) if n == 0 else mp.mpf("-inf")
    return n * mp.log(lam) - lam - mp.loggamma(n + 1)


def norm_logpdf(x, mu, var):
    x, mu, var = mpf(x), mpf(mu), mpf(var)
    return -((x - mu) ** 2) / (2 * var) - mp.log(2 * mp.pi * var) / 2


def phi(x):
    return mp.ncdf(mpf(x))


def term_logp(t, frac):
    if t["k"] == "pois":
        return pois_logpmf(frac(t["n"]), frac(t["lam"]))
    return norm_logpdf(frac(t["x"]), frac(t["mu"]), frac(t["var"]))
