"""Worker side of the C19 replay: Run states of MC_Cli.tla executed as real `pyhf` command lines.

A case carries the option record (cmd, opt, io) and what both layers of Cli.tla say the command line means:
    def    the DEFINITION's library call (every option forwarded; "<library default>" = argument not passed)
    impl   the call transcribed from src/pyhf/cli/*.py
The command line is assembled from the OPTION RECORD, the oracle from the DEF record -- two different routes to the
same library:
    argv  ->  click CliRunner in-process (and a seeded sample as real subprocesses)  ->  exit status, stdout, --output-file
    def   ->  the library call made directly by this module (same documents, same backend / optimiser state, same seed)
Verdict (always against the definition):
    exit status 0  <=>  the direct call returns
    the JSON / text emitted carries the values the direct call returns (1e-6 relative on fitted numbers)
    --output-file and stdout carry the same text (the stdout twin of every --output-file case is run as well)
    the fits of the command ran under the backend / optimiser / settings the options name (observed at
    OptimizerMixin.minimize, in both runs)
On a mismatch the finding is attributed: which argument of the definition's call, when dropped, reproduces what the
command line printed ("ignored_arg:<name>"), or which route ("route:stdin", "route:output-file") breaks it.
What the implementation-shaped layer predicts beyond that is reported as drift only.
"""
import contextlib
import copy
import importlib
import io
import json
import math
import os
import random
import shutil
import subprocess
import sys
from fractions import Fraction
from pathlib import Path

LIBDEFAULT = "<library default>"
REL, ABS = 1e-6, 1e-9
NTOYS = 12       # `pyhf cls --calctype toybased` has no option for the number of toys (2000): the default is lowered for both runs

# ---------------------------------------------------------------------------------------------------
# the world of Cli.tla as concrete documents
_MEAS_MU = {"name": "meas_mu", "config": {"poi": "mu", "parameters": [{"name": "mu_alt", "inits": [1.0], "fixed": True}]}}
_MEAS_ALT = {"name": "meas_alt", "config": {"poi": "mu_alt", "parameters": [{"name": "mu", "inits": [0.5], "fixed": True}]}}
_TWO_CHANNELS = [
    {"name": "SR", "samples": [
        {"name": "sig", "data": [6.0, 9.0], "modifiers": [{"name": "mu", "type": "normfactor", "data": None}]},
        {"name": "bkg", "data": [55.0, 48.3], "modifiers": [
            {"name": "shape", "type": "histosys", "data": {"lo_data": [50.0, 46.0], "hi_data": [61.0, 49.5]}},
            {"name": "norm", "type": "normsys", "data": {"lo": 0.9, "hi": 1.1}},
            # one parameter name carried by modifiers of two types (the usual correlated normsys + histosys pair)
            {"name": "norm", "type": "histosys", "data": {"lo_data": [53.0, 47.5], "hi_data": [57.5, 49.0]}}]},
        {"name": "alt", "data": [2.0, 5.0], "modifiers": [{"name": "mu_alt", "type": "normfactor", "data": None}]}]},
    {"name": "CR", "samples": [
        {"name": "bkg", "data": [120.0], "modifiers": [
            {"name": "norm", "type": "normsys", "data": {"lo": 0.92, "hi": 1.08}},
            {"name": "uncorr", "type": "shapesys", "data": [8.0]}]}]}]
_TWO_OBS = [{"name": "SR", "data": [50.0, 44.0]}, {"name": "CR", "data": [118.0]}]
WORKSPACES = {
    "two": {"channels": _TWO_CHANNELS, "observations": _TWO_OBS, "measurements": [_MEAS_MU, _MEAS_ALT], "version": "1.0.0"},
    "badfirst": {"channels": _TWO_CHANNELS, "observations": _TWO_OBS,
                 "measurements": [{"name": "broken", "config": {"poi": "nonexistent", "parameters": []}}, _MEAS_MU], "version": "1.0.0"},
    "other": {"channels": [{"name": "VR", "samples": [
        {"name": "sig", "data": [4.0, 3.0], "modifiers": [{"name": "mu", "type": "normfactor", "data": None}]},
        {"name": "bkg", "data": [30.0, 25.5], "modifiers": [{"name": "vr_norm", "type": "normsys", "data": {"lo": 0.95, "hi": 1.07}}]}]}],
        "observations": [{"name": "VR", "data": [33.0, 29.0]}],
        "measurements": [{"name": "meas_vr", "config": {"poi": "mu", "parameters": []}}], "version": "1.0.0"},
    "overlap": {"channels": [
        {"name": "TR", "samples": [{"name": "bkg", "data": [70.0], "modifiers": [{"name": "tr_norm", "type": "normsys", "data": {"lo": 0.9, "hi": 1.12}}]}]},
        {"name": "SR", "samples": [{"name": "extra", "data": [1.0, 2.5], "modifiers": [{"name": "mu", "type": "normfactor", "data": None}]}]}],
        "observations": [{"name": "TR", "data": [66.0]}, {"name": "SR", "data": [50.0, 44.0]}],
        "measurements": [_MEAS_MU], "version": "1.0.0"},
    "bkgonly": {"channels": [{"name": "SR", "samples": [
        {"name": "bkg", "data": [55.0, 48.3], "modifiers": [{"name": "bkg_norm", "type": "normsys", "data": {"lo": 0.9, "hi": 1.1}}]}]}],
        "observations": [{"name": "SR", "data": [52.0, 47.0]}],
        "measurements": [{"name": "meas_mu", "config": {"poi": "mu", "parameters": []}}], "version": "1.0.0"},
}
PATCHES = {
    "pA": [{"op": "replace", "path": "/channels/0/samples/0/data", "value": [10.0, 14.0]}],
    "pB": [{"op": "replace", "path": "/channels/0/samples/0/data", "value": [3.0, 2.5]}],
    "pbad": [{"op": "remove", "path": "/channels/7"}],
}


def _signal(data):
    return {"name": "sig", "data": data, "modifiers": [{"name": "mu", "type": "normfactor", "data": None}]}


def patchset_spec(pyhf):
    return {
        "metadata": {"references": {"hepdata": "ins1234567"}, "description": "C19 replay patch set",
                     "digests": {"sha256": pyhf.utils.digest(WORKSPACES["bkgonly"], algorithm="sha256")}, "labels": ["mass"]},
        "patches": [
            {"metadata": {"name": "p_one", "values": [1.0]}, "patch": [{"op": "add", "path": "/channels/0/samples/0", "value": _signal([6.0, 9.0])}]},
            {"metadata": {"name": "p_two", "values": [2.0]}, "patch": [{"op": "add", "path": "/channels/0/samples/1", "value": _signal([3.0, 4.5])}]}],
        "version": "1.0.0"}


def build_world(pyhf, root: Path):
    """write every document of the world below root; returns the paths and the texts (for standard input)"""
    root.mkdir(parents=True, exist_ok=True)
    P = {"root": root, "ws": {}, "patch": {}, "text": {}, "xml": {}}
    for name, spec in WORKSPACES.items():
        p = root / f"ws_{name}.json"
        p.write_text(json.dumps(spec))
        P["ws"][name] = str(p)
        P["text"][str(p)] = p.read_text()
    for name, patch in PATCHES.items():
        p = root / f"patch_{name}.json"
        p.write_text(json.dumps(patch))
        P["patch"][name] = str(p)
        P["text"][str(p)] = p.read_text()
    p = root / "patchset.json"
    p.write_text(json.dumps(patchset_spec(pyhf)))
    P["ps"] = str(p)
    P["text"][str(p)] = p.read_text()
    import pyhf.writexml  # noqa: F401  (needs uproot)
    for name in ("two", "other"):          # the XML + ROOT export `pyhf xml2json` is pointed at (written by the library)
        d = root / f"xml_{name}"
        (d / "config").mkdir(parents=True)
        (d / "data").mkdir()
        text = pyhf.writexml.writexml(copy.deepcopy(WORKSPACES[name]), d / "config", d / "data", "FitConfig")
        (d / "FitConfig.xml").write_bytes(text)
        P["xml"][name] = (str(d / "FitConfig.xml"), str(d))
    return P


def check_world(pyhf, header):
    """the catalogue Cli.tla reasons about must describe the documents built here (else: machinery failure)"""
    bad = []
    ps = pyhf.PatchSet(patchset_spec(pyhf))
    for w, cat in header["world"].items():
        spec = WORKSPACES.get(w)
        if spec is None:
            bad.append(f"workspace {w} of Cli.tla has no document")
            continue
        ws = pyhf.Workspace(copy.deepcopy(spec))
        got = [(m["name"], m["config"]["poi"]) for m in spec["measurements"]]
        if got != [(m["name"], m["poi"]) for m in cat["measurements"]]:
            bad.append(f"{w}: measurements {got}")
        for m in cat["measurements"]:
            try:
                ws.model(measurement_name=m["name"])
                ok = True
            except Exception:  # noqa: BLE001
                ok = False
            if ok != m["ok"]:
                bad.append(f"{w}: measurement {m['name']} builds={ok}, Cli.tla says {m['ok']}")
        if set(ws.channels) != set(cat["channels"]) or set(ws.samples) != set(cat["samples"]):
            bad.append(f"{w}: channels/samples {ws.channels} {ws.samples}")
        if {n for n, _ in ws.modifiers} != set(cat["modifiers"]) or {t for _, t in ws.modifiers} != set(cat["modtypes"]):
            bad.append(f"{w}: modifiers {ws.modifiers}")
        try:
            ps.verify(ws)
            ver = True
        except Exception:  # noqa: BLE001
            ver = False
        if ver != cat["verified"]:
            bad.append(f"{w}: patch set verification {ver}")
    if set(header["patches"]) != set(PATCHES) or {p.name for p in ps.patches} != set(header["patchset"]):
        bad.append("patch names")
    import jsonpatch
    for name, patch in PATCHES.items():
        for w in ("two", "other"):
            try:
                jsonpatch.JsonPatch(patch).apply(copy.deepcopy(WORKSPACES[w]))
                ok = True
            except Exception:  # noqa: BLE001
                ok = False
            if ok != (name in header["goodpatches"]):
                bad.append(f"patch {name} on {w}: applies={ok}")
    import hashlib
    if not set(header["hashlib"]) <= set(hashlib.algorithms_available):
        bad.append("hashlib algorithms")
    return bad


# ---------------------------------------------------------------------------------------------------
# option record -> argv
GROUP = {"ps_extract": ["patchset", "extract"], "ps_apply": ["patchset", "apply"], "ps_verify": ["patchset", "verify"],
         "ps_inspect": ["patchset", "inspect"]}


def argv_of(case, P, out_file=None, out_dir=None, force_in=None):
    """(argv, stdin text or None) for the option record of the case"""
    cmd, o, io = case["cmd"], case["opt"], case["io"]
    route = force_in or io["in"]
    long_form = case["code"] % 2 == 1            # short and long option spellings alternate
    argv = list(GROUP.get(cmd, [cmd]))
    stdin = None
    docs = []
    if cmd in ("ps_extract", "ps_inspect"):
        docs = [P["ps"]]
    elif cmd == "combine":
        docs = [P["ws"][o["ws"]], P["ws"][o["ws2"]]]
    elif cmd in ("ps_apply", "ps_verify"):
        docs = [P["ws"][o["ws"]], P["ps"]]
    elif cmd == "xml2json":
        docs = [P["xml"][o["ws"]][0]]
    else:
        docs = [P["ws"][o["ws"]]]
    if route in ("stdin", "stdin1"):
        stdin, docs[0] = P["text"][docs[0]], "-"
    elif route == "stdin2":
        stdin, docs[1] = P["text"][docs[1]], "-"
    elif route == "omitted":
        stdin, docs = P["text"][docs[0]], []
    opts = []
    if o["meas"]:
        opts += ["--measurement", o["meas"]]
    for i, p in enumerate(o["patches"]):
        path = P["patch"][p]
        if route == "patchstdin" and i == 0:
            stdin, path = P["text"][path], "-"
        opts += ["--patch" if (long_form ^ (i % 2 == 1)) else "-p", path]
    if o["poi"]:
        opts += ["--test-poi", o["poi"]]
    if o["stat"]:
        opts += ["--test-stat", o["stat"]]
    if o["calc"]:
        opts += ["--calctype", o["calc"]]
    if o["backend"]:
        opts += ["--backend", o["backend"]]
    if o["optimizer"]:
        opts += ["--optimizer", o["optimizer"]]
    for c in o["optconf"]:
        opts += ["--optconf", f"{c['k']}={c['v']}"]
    if o["value"] == "on":
        opts += ["--value"]
    if cmd == "prune":
        s = o["sel"]
        for key, short, lng in (("channels", "-c", "--channel"), ("samples", "-s", "--sample"), ("modifiers", "-m", "--modifier"),
                                ("modifier_types", "-t", "--modifier-type"), ("measurements", "--measurement", "--measurement")):
            for x in s[key]:
                opts += [lng if long_form else short, x]
    if cmd == "rename":
        r = o["ren"]
        for key, short, lng in (("channels", "-c", "--channel"), ("samples", "-s", "--sample"), ("modifiers", "-m", "--modifier"),
                                ("measurements", "--measurement", "--measurement")):
            for old, new in r[key]:
                opts += [lng if long_form else short, old, new]
    if o["join"]:
        opts += ["--join" if long_form else "-j", o["join"]]
    if o["merge"]:
        opts += ["--merge-channels" if o["merge"] == "on" else "--no-merge-channels"]
    for a in o["algs"]:
        opts += ["--algorithm" if long_form else "-a", a]
    if o["fmt"]:
        opts += [("--json" if long_form else "-j") if o["fmt"] == "on" else ("--plaintext" if long_form else "-p")]
    if o["pname"]:
        opts += ["--name", o["pname"]]
    if o["meta"]:
        opts += ["--with-metadata" if o["meta"] == "on" else "--without-metadata"]
    if cmd == "json2xml":
        opts += ["--output-dir", str(out_dir)]
        if o["roots"]:
            opts += ["--specroot", "cfg_x", "--dataroot", "dat_x", "--resultprefix", "Res_x"]
    if cmd == "xml2json":
        opts += ["--basedir", P["xml"][o["ws"]][1]]
        if o["progress"]:
            opts += ["--track-progress" if o["progress"] == "on" else "--hide-progress"]
        if o["valerr"]:
            opts += ["--validation-as-error" if o["valerr"] == "on" else "--validation-as-warning"]
    if out_file is not None:
        opts += ["--output-file", str(out_file)]
    # options before or after the documents: both are accepted
    argv += (opts + docs) if (case["code"] % 3 == 0) else (docs + opts)
    return argv, stdin


# ---------------------------------------------------------------------------------------------------
# the definition's call, made directly
def _given(v):
    return v != LIBDEFAULT


def _typed(c):
    return int(c["v"]) if c["type"] == "int" else float(Fraction(c["v"]))


def set_env(pyhf, env):
    """set_backend(backend, optimizer(**optconf)) with the library's defaults wherever the definition passes nothing"""
    conf = {c["k"]: _typed(c) for c in env["optconf"]}
    if not (_given(env["backend"]) or _given(env["optimizer"]) or conf):
        return
    backend = env["backend"] if _given(env["backend"]) else "numpy"
    if _given(env["optimizer"]) or conf:
        name = env["optimizer"] if _given(env["optimizer"]) else "scipy"
        pyhf.set_backend(backend, getattr(pyhf.optimize, f"{name}_optimizer")(**conf))
    else:
        pyhf.set_backend(backend)


def _model(pyhf, call):
    ws = pyhf.Workspace(copy.deepcopy(WORKSPACES[call["ws"]]))
    kw = {}
    if _given(call["measurement"]):
        kw["measurement_name"] = call["measurement"]
    if call.get("modifier_settings", LIBDEFAULT) != LIBDEFAULT:
        n, h = call["modifier_settings"].split(",")
        kw["modifier_settings"] = {"normsys": {"interpcode": n}, "histosys": {"interpcode": h}}
    if call.get("patches"):
        kw["patches"] = [copy.deepcopy(PATCHES[p]) for p in call["patches"]]
    return ws, ws.model(**kw)


_PARSET = {"unconstrained": "unconstrained", "constrained_by_normal": "constrained_by_normal", "constrained_by_poisson": "constrained_by_poisson"}


def direct(pyhf, call, P, scratch: Path):
    """-> value the command line has to carry (JSON-able), made by the library call the record names"""
    fn = call["fn"]
    tl = lambda: pyhf.tensorlib  # noqa: E731
    if fn == "hypotest":
        set_env(pyhf, call["env"])
        ws, model = _model(pyhf, call)
        kw = {}
        if _given(call["test_stat"]):
            kw["test_stat"] = call["test_stat"]
        if _given(call["calctype"]):
            kw["calctype"] = call["calctype"]
        r = pyhf.infer.hypotest(float(Fraction(call["poi"])), ws.data(model), model, return_expected_set=True, **kw)
        return {"CLs_obs": tl().tolist(r[0]), "CLs_exp": [tl().tolist(t) for t in r[-1]]}
    if fn == "mle.fit":
        set_env(pyhf, call["env"])
        ws, model = _model(pyhf, call)
        kw = {}
        if _given(call["return_fitted_val"]):
            kw["return_fitted_val"] = call["return_fitted_val"] == "True"
        r = pyhf.infer.mle.fit(ws.data(model), model, **kw)
        pars = r[0] if kw.get("return_fitted_val") else r
        out = {"mle_parameters": {n: tl().tolist(pars[model.config.par_slice(n)]) for n in model.config.par_order}}
        if kw.get("return_fitted_val"):
            out["twice_nll"] = tl().tolist(r[1])
        return out
    if fn == "inspect":
        ws = pyhf.Workspace(copy.deepcopy(WORKSPACES[call["ws"]]))
        kw = {"measurement_name": call["measurement"]} if _given(call["measurement"]) else {}
        selected = ws.get_measurement(**kw)
        model = ws.model(**kw)
        params = sorted((n, _PARSET[type(model.config.param_set(n)).__name__]) for n in model.config.par_order)
        return {"selected": selected["name"],
                "json": {"samples": list(ws.samples), "channels": [[c, ws.channel_nbins[c]] for c in ws.channels],
                         "modifiers": {n: t for n, t in ws.modifiers}, "parameters": [list(p) for p in params],
                         "systematics": [[n, d, [t for (m, t) in ws.modifiers if m == n]] for n, d in params],
                         "measurements": [[m["name"], m["config"]["poi"], [p["name"] for p in m["config"]["parameters"]]]
                                          for m in ws["measurements"]]}}
    if fn == "Workspace.prune":
        ws = pyhf.Workspace(copy.deepcopy(WORKSPACES[call["ws"]]))
        return json.loads(json.dumps(ws.prune(channels=call["channels"], samples=call["samples"], modifiers=call["modifiers"],
                                              modifier_types=call["modifier_types"], measurements=call["measurements"])))
    if fn == "Workspace.rename":
        ws = pyhf.Workspace(copy.deepcopy(WORKSPACES[call["ws"]]))
        return json.loads(json.dumps(ws.rename(**{k: dict(map(tuple, call[k])) for k in ("channels", "samples", "modifiers", "measurements")})))
    if fn == "Workspace.combine":
        left = pyhf.Workspace(copy.deepcopy(WORKSPACES[call["ws"]]))
        right = pyhf.Workspace(copy.deepcopy(WORKSPACES[call["right"]]))
        kw = {}
        if _given(call["join"]):
            kw["join"] = call["join"]
        if _given(call["merge_channels"]):
            kw["merge_channels"] = call["merge_channels"] == "True"
        return json.loads(json.dumps(pyhf.Workspace.combine(left, right, **kw)))
    if fn == "Workspace.sorted":
        return json.loads(json.dumps(pyhf.Workspace.sorted(pyhf.Workspace(copy.deepcopy(WORKSPACES[call["ws"]])))))
    if fn == "utils.digest":
        ws = pyhf.Workspace(copy.deepcopy(WORKSPACES[call["ws"]]))
        return {"order": list(call["algorithms"]), "digests": {a: pyhf.utils.digest(ws, algorithm=a) for a in call["algorithms"]},
                "as_json": call["as_json"] == "True"}
    if fn.startswith("PatchSet."):
        ps = pyhf.PatchSet(patchset_spec(pyhf))
        if fn == "PatchSet.patches":
            return {"names": [p.name for p in ps.patches]}
        name = call["name"] if "name" in call and _given(call["name"]) else None
        if fn == "PatchSet.getitem":
            patch = ps[name]
            if call["with_metadata"] == "True":
                return {"metadata": {**patch.metadata, **ps.metadata}, "patch": list(patch.patch)}
            return list(patch.patch)
        ws = pyhf.Workspace(copy.deepcopy(WORKSPACES[call["ws"]]))
        if fn == "PatchSet.verify":
            ps.verify(ws)
            return None
        return json.loads(json.dumps(ps.apply(ws, name)))
    if fn == "writexml":
        import jsonpatch
        import pyhf.readxml
        import pyhf.writexml
        spec = copy.deepcopy(WORKSPACES[call["ws"]])
        for p in call["patches"]:
            spec = jsonpatch.JsonPatch(copy.deepcopy(PATCHES[p])).apply(spec)
        d = scratch
        (d / call["specroot"]).mkdir(parents=True, exist_ok=True)
        (d / call["dataroot"]).mkdir(parents=True, exist_ok=True)
        text = pyhf.writexml.writexml(spec, d / call["specroot"], d / call["dataroot"], call["resultprefix"])
        (d / f"{call['resultprefix']}.xml").write_bytes(text)
        return read_export(pyhf, d, call["resultprefix"])
    if fn == "readxml.parse":
        import pyhf.readxml
        pyhf.readxml.clear_filecache()
        top, base = P["xml"][call["ws"]]
        return json.loads(json.dumps(pyhf.readxml.parse(top, base, mounts=(), track_progress=call["track_progress"] == "True",
                                                        validation_as_error=call["validation_as_error"] == "True")))
    raise KeyError(fn)


def read_export(pyhf, d: Path, prefix):
    """an export directory as values: files written, the top-level XML (directory name removed), the workspace it reads back as"""
    import pyhf.readxml
    pyhf.readxml.clear_filecache()
    top = d / f"{prefix}.xml"
    files = sorted(str(p.relative_to(d)) for p in d.rglob("*") if p.is_file())
    text = top.read_text().replace(str(d), "<dir>") if top.exists() else None
    back = json.loads(json.dumps(pyhf.readxml.parse(str(top), str(d), mounts=(), track_progress=False))) if top.exists() else None
    pyhf.readxml.clear_filecache()
    return {"files": files, "top": text, "reimport": back}


# ---------------------------------------------------------------------------------------------------
def same(a, b, rel=REL):
    if isinstance(a, bool) or isinstance(b, bool):
        return a is b
    if isinstance(a, (int, float)) and isinstance(b, (int, float)):
        if math.isnan(a) or math.isnan(b):
            return math.isnan(a) and math.isnan(b)
        return a == b or abs(a - b) <= ABS + rel * max(abs(a), abs(b))
    if isinstance(a, dict) and isinstance(b, dict):
        return a.keys() == b.keys() and all(same(a[k], b[k], rel) for k in a)
    if isinstance(a, (list, tuple)) and isinstance(b, (list, tuple)):
        return len(a) == len(b) and all(same(x, y, rel) for x, y in zip(a, b))
    return a == b


def _lines(text):
    return [ln.split() for ln in text.splitlines() if ln.strip()]


def inspect_table_ok(text, exp):
    """does the table `pyhf inspect` prints carry the summary exp (and mark the selected measurement)?"""
    rows = _lines(text)
    j = exp["json"]
    why = []
    counts = {r[0]: r[1] for r in rows if len(r) == 2 and r[0] in ("channels", "samples", "parameters", "modifiers") and r[1].isdigit()}
    for key in ("channels", "samples", "parameters", "modifiers"):
        if counts.get(key) != str(len(j[key])):
            why.append(f"summary count of {key}: {counts.get(key)} != {len(j[key])}")
    for c, n in j["channels"]:
        if [c, str(n)] not in rows:
            why.append(f"channel row {c} {n}")
    for s in j["samples"]:
        if [s] not in rows:
            why.append(f"sample row {s}")
    for name, descr, types in j["systematics"]:
        if [name, descr, ",".join(sorted(set(types)))] not in rows:
            why.append(f"parameter row {name} {descr}")
    starred = []
    for name, poi, pars in j["measurements"]:
        tail = [poi, ",".join(pars) if pars else "(none)"]
        if ["(*)", name] + tail in rows:
            starred.append(name)
        elif [name] + tail not in rows:
            why.append(f"measurement row {name}")
    if starred != [exp["selected"]]:
        why.append(f"measurement marked (*) is {starred}, the measurement inspected is {exp['selected']}")
    return why


def payload_ok(case, text, exp, is_file=False):
    """-> list of reasons why `text` (stdout or the output file) does not carry the value exp"""
    cmd = case["cmd"]
    fn = case["def"]["fn"]
    if cmd == "inspect":
        if is_file:
            try:
                got = json.loads(text)
            except ValueError as e:
                return [f"output file is not JSON: {e}"]
            return [] if same(got, exp["json"]) else [f"JSON summary {json.dumps(got)[:300]} != {json.dumps(exp['json'])[:300]}"]
        return inspect_table_ok(text, exp)
    if fn == "utils.digest":
        if exp["as_json"]:
            try:
                got = json.loads(text)
            except ValueError as e:
                return [f"not JSON: {e}"]
            return [] if got == exp["digests"] else [f"digests {got} != {exp['digests']}"]
        want = [f"{a}:{exp['digests'][a]}" for a in exp["order"]]
        got = [ln.strip() for ln in text.splitlines() if ln.strip()]
        return [] if got == want else [f"digest lines {got} != {want}"]
    if fn == "PatchSet.verify":
        return []                       # "Verified if no exception was raised": only the status is specified
    if fn == "PatchSet.patches":
        rows = [r[0] for r in _lines(text) if len(r) == 1]
        why = []
        if [r for r in rows if r in exp["names"]] != exp["names"]:
            why.append(f"patch names listed {rows} != {exp['names']}")
        if not any(r and r[0] == str(len(exp["names"])) for r in _lines(text)):
            why.append("number of patches not stated")
        return why
    try:
        got = json.loads(text)
    except ValueError as e:
        return [f"not JSON ({e}): {text[:200]!r}"]
    return [] if same(got, exp) else [f"{json.dumps(got)[:400]} != {json.dumps(exp)[:400]}"]


# ---------------------------------------------------------------------------------------------------
class Session:
    """one worker's view of pyhf: reset between runs, observation of the state fits run under"""

    def __init__(self, pyhf, seed):
        self.pyhf = pyhf
        self.seed = seed
        self.envs = None
        self.spy_ok = False
        self.warmed = {"numpy"}
        calcs = importlib.import_module("pyhf.infer.calculators")
        self.calcs = calcs
        self.orig_toy_init = calcs.ToyCalculator.__init__
        orig = self.orig_toy_init

        def few_toys(obj, *a, **kw):
            kw.setdefault("ntoys", NTOYS)
            kw.setdefault("track_progress", False)
            return orig(obj, *a, **kw)
        calcs.ToyCalculator.__init__ = few_toys
        try:
            mixins = importlib.import_module("pyhf.optimize.mixins")    # pyhf.optimize is a lazy retriever object, not a package attribute
            self.mixins = mixins
            self.orig_minimize = mixins.OptimizerMixin.minimize
            orig_min = self.orig_minimize
            sess = self

            def spy(opt, *a, **kw):
                if sess.envs is not None:
                    tl = pyhf.tensorlib
                    sess.envs.add((tl.name, tl.precision, getattr(opt, "name", type(opt).__name__),
                                   tuple(sorted((k, repr(getattr(opt, k))) for k in ("maxiter", "verbose", "tolerance", "steps", "strategy",
                                                                                     "errordef", "solver_options") if hasattr(opt, k)))))
                return orig_min(opt, *a, **kw)
            mixins.OptimizerMixin.minimize = spy
            self.spy_ok = True
        except Exception:  # noqa: BLE001
            self.spy_ok = False

    def warm(self, backend):
        """first use of a backend in this process (its import draws from / re-initialises random state): not inside a seeded run"""
        if backend not in self.warmed:
            self.warmed.add(backend)
            try:
                self.pyhf.set_backend(backend)
            finally:
                self.pyhf.set_backend("numpy", "scipy", precision="64b")

    def close(self):
        self.calcs.ToyCalculator.__init__ = self.orig_toy_init
        if self.spy_ok:
            self.mixins.OptimizerMixin.minimize = self.orig_minimize
        self.reset(0)

    def reset(self, k):
        import numpy as np
        self.pyhf.set_backend("numpy", "scipy", precision="64b")
        s = (self.seed * 7919 + k) % (2 ** 31)
        np.random.seed(s)
        random.seed(s)
        if "torch" in sys.modules:
            sys.modules["torch"].manual_seed(s)
        rx = sys.modules.get("pyhf.readxml")
        if rx is not None:
            rx.clear_filecache()

    def cli(self, argv, stdin, k):
        """in-process: click's CliRunner on pyhf.cli.cli -> (exit code, stdout, exception text, envs)"""
        from click.testing import CliRunner
        from pyhf.cli import cli
        self.reset(k)
        self.envs = set()
        try:
            res = CliRunner().invoke(cli, argv, input=stdin)
        finally:
            envs, self.envs = self.envs, None
        exc = None
        if res.exception is not None and not isinstance(res.exception, SystemExit):
            exc = f"{type(res.exception).__name__}: {str(res.exception)[:160]}"
        try:
            out = res.stdout
        except Exception:  # noqa: BLE001
            out = res.output
        self.reset(k)
        return res.exit_code, out, exc, envs

    def lib(self, call, P, scratch, k):
        """the direct library call -> ('ok', value, envs) | ('raises', 'Type: message', envs)"""
        self.reset(k)
        self.envs = set()
        try:
            with contextlib.redirect_stderr(io.StringIO()):          # progress bars of readxml.parse
                return "ok", direct(self.pyhf, call, P, scratch), self.envs
        except Exception as e:  # noqa: BLE001
            return "raises", f"{type(e).__name__}: {str(e)[:160]}", self.envs
        finally:
            self.envs = None
            self.reset(k)


def run_subprocess(argv, stdin, src, cwd):
    env = dict(os.environ)
    env.update(PYTHONPATH=src, JAX_PLATFORMS="cpu", CUDA_VISIBLE_DEVICES="", TF_CPP_MIN_LOG_LEVEL="3", OMP_NUM_THREADS="1")
    # the console script `pyhf` is `sys.exit(pyhf.cli.cli())` (pyproject: pyhf = "pyhf.cli:cli"); pyhf.cli has no __main__
    p = subprocess.run([sys.executable, "-W", "ignore", "-c", "import sys; from pyhf.cli import cli; sys.exit(cli())", *argv],
                       input=stdin if stdin is not None else "", capture_output=True, text=True, env=env, cwd=cwd, timeout=600)
    return p.returncode, p.stdout, p.stderr[-300:]


# arguments of the definition's call that can be dropped one at a time to explain a mismatch
def _drop_variants(call):
    out = []
    for key in ("measurement", "test_stat", "calctype", "return_fitted_val", "join", "merge_channels", "name"):
        if key in call and _given(call[key]):
            out.append((key, {**call, key: LIBDEFAULT}))
    if call.get("patches"):
        out.append(("patches", {**call, "patches": []}))
        if len(call["patches"]) > 1:
            out.append(("patches_order", {**call, "patches": list(reversed(call["patches"]))}))
    if call["fn"] == "hypotest" and call["poi"] != "1.0":
        out.append(("poi", {**call, "poi": "1.0"}))
    if "env" in call:
        e = call["env"]
        if _given(e["backend"]):
            out.append(("backend", {**call, "env": {**e, "backend": LIBDEFAULT}}))
        if _given(e["optimizer"]):
            out.append(("optimizer", {**call, "env": {**e, "optimizer": LIBDEFAULT, "optconf": []}}))
        if e["optconf"]:
            out.append(("optconf", {**call, "env": {**e, "optconf": []}}))
    if call["fn"] == "utils.digest":
        out.append(("algorithms", {**call, "algorithms": ["sha256"]}))
        out.append(("as_json", {**call, "as_json": "False" if call["as_json"] == "True" else "True"}))
    if call["fn"] == "PatchSet.getitem":
        out.append(("with_metadata", {**call, "with_metadata": "False" if call["with_metadata"] == "True" else "True"}))
    for key in ("channels", "samples", "modifiers", "modifier_types", "measurements"):
        if call["fn"] in ("Workspace.prune", "Workspace.rename") and call.get(key):
            out.append((key, {**call, key: []}))
    if call["fn"] == "writexml" and call["specroot"] != "config":
        out.append(("roots", {**call, "specroot": "config", "dataroot": "data", "resultprefix": "FitConfig"}))
    return out


def replay(pyhf, backend, precision, chunk, seed, header, subprocess_frac=0.02, tier="quick"):
    from common import pyhf_src, workdir
    out = {"n": 0, "nontrivial": 0, "findings": [], "invocations": 0, "subprocesses": 0, "by_cmd": {}, "exit": {"ok": 0, "fail": 0},
           "twins": 0, "drift": [], "env_observed": 0, "impl_agree": 0, "attributed": 0, "routes": {}, "samples": [], "toy_cases": 0}
    root = workdir("c19")
    sess = None
    try:
        bad = check_world(pyhf, header)
        if bad:
            return {"machinery": "Cli.tla's world does not describe the documents of cli_replay.py: " + "; ".join(bad[:5])}
        P = build_world(pyhf, root / "world")
        sess = Session(pyhf, seed)
        rnd = random.Random(seed * 1000003 + len(chunk) + sum(map(len, chunk[:3])))

        def add(case, what, detail, tags):
            if len(out["findings"]) < 12:
                tags = [f"cmd:{case['cmd']}"] + tags
                detail = dict(detail, cmd=case["cmd"], opt={k: v for k, v in case["opt"].items() if v not in ("", [], None)
                                                          and not (isinstance(v, dict) and not any(v.values()))},
                              io=case["io"], definition_call=case["def"], as_coded_call=case["impl"] if case["differs"] else "same")
                out["findings"].append(("C19", f"pyhf {case['cmd']}: {what}", detail, tags))

        for ci, line in enumerate(chunk):
            case = json.loads(line)
            cmd, io = case["cmd"], case["io"]
            out["n"] += 1
            out["by_cmd"][cmd] = out["by_cmd"].get(cmd, 0) + 1
            out["routes"][f"{io['in']}>{io['out']}"] = out["routes"].get(f"{io['in']}>{io['out']}", 0) + 1
            k = case["code"] % 100003
            cdir = root / f"case{ci}"
            cdir.mkdir()
            out_file = cdir / "out.json" if io["out"] == "file" else None
            out_dir = cdir / "cli_export" if io["out"] == "dir" else None
            if out_dir:
                out_dir.mkdir()
            argv, stdin = argv_of(case, P, out_file, out_dir)
            shown = " ".join(a.replace(str(root), ".") for a in argv) + (" < (stdin)" if stdin is not None else "")
            toy = case["ndef"].get("calctype") == "toybased"
            out["toy_cases"] += toy

            sess.warm(case["ndef"].get("env", {}).get("backend", "numpy"))
            # ---- the two runs
            code, stdout, exc, envs_cli = sess.cli(argv, stdin, k)
            out["invocations"] += 1
            status, exp, envs_lib = sess.lib(case["def"], P, cdir / "lib_export", k)
            out["exit"]["ok" if status == "ok" else "fail"] += 1
            if case["defexpect"] != "lib" and (case["defexpect"] == "ok") != (status == "ok"):
                out["drift"].append(f"Expect({case['def']['fn']}) = {case['defexpect']} but the library call {status}: {exp if status != 'ok' else ''}")

            def judge(code, stdout, exc, envs_cli, out_file, out_dir, to_file):
                """problems (kind, text) of one command-line run against the definition's call (status, exp, envs_lib)"""
                problems = []
                if (code == 0) != (status == "ok"):
                    problems.append(("exit", f"exit status {code} ({exc or stdout[-160:].strip()!r}) but the library call "
                                             + ("returns" if status == "ok" else f"raises {exp}")))
                elif status == "ok":
                    if cmd == "json2xml":
                        got = read_export(pyhf, out_dir, case["def"]["resultprefix"])
                        if not same(got, exp):
                            which = [key for key in ("files", "top", "reimport") if not same(got[key], exp[key])]
                            problems.append(("value", f"exported {which} differ from writexml's: {json.dumps(got)[:300]} != {json.dumps(exp)[:300]}"))
                    elif to_file:
                        if not out_file.exists():
                            problems.append(("file", "--output-file was not written"))
                        else:
                            problems += [("file", "output file: " + w) for w in payload_ok(case, out_file.read_text(), exp, is_file=True)]
                        if cmd == "inspect":
                            problems += [("text", w) for w in payload_ok(case, stdout, exp)]
                        elif stdout.strip():
                            problems.append(("file", f"with --output-file the result is also printed: {stdout[:120]!r}"))
                    else:
                        problems += [("value" if case["payload"] == "json" else "text", w) for w in payload_ok(case, stdout, exp)]
                    if sess.spy_ok and "env" in case["def"] and envs_cli != envs_lib:
                        problems.append(("env", f"the command's fits ran under {sorted(envs_cli)}, the call named by the options under {sorted(envs_lib)}"))
                return problems

            problems = judge(code, stdout, exc, envs_cli, out_file, out_dir, io["out"] == "file")
            if status == "ok" and (code == 0) and sess.spy_ok and "env" in case["def"]:
                out["env_observed"] += 1

            # ---- file and stdout identical: the stdout twin of an --output-file case
            if not problems and status == "ok" and io["out"] == "file" and cmd != "inspect":
                argv2, stdin2 = argv_of(case, P, None, None)
                code2, stdout2, exc2, _ = sess.cli(argv2, stdin2, k)
                out["invocations"] += 1
                out["twins"] += 1
                ftext = out_file.read_text()
                if code2 != 0:
                    problems.append(("file_vs_stdout", f"with --output-file exit 0, without it exit {code2} ({exc2})"))
                elif toy or any(e[0] != "numpy" for e in envs_cli):
                    if payload_ok(case, stdout2, json.loads(ftext)):
                        problems.append(("file_vs_stdout", "file and stdout carry different values"))
                elif ftext.rstrip("\n") != stdout2.rstrip("\n"):
                    problems.append(("file_vs_stdout", f"file {ftext[:160]!r} and stdout {stdout2[:160]!r} differ"))

            # ---- a seeded sample once more as a real process
            if not toy and rnd.random() < subprocess_frac:
                if out_dir:
                    shutil.rmtree(out_dir)
                    out_dir.mkdir()
                if out_file and out_file.exists():
                    out_file.unlink()
                scode, sout, serr = run_subprocess(argv, stdin, pyhf_src(), str(cdir))
                out["subprocesses"] += 1
                out["invocations"] += 1
                if (scode == 0) != (status == "ok"):
                    problems.append(("subprocess", f"as a process: exit {scode} ({serr.strip()[-160:]!r}); library call {status}"))
                elif status == "ok":
                    if cmd == "json2xml":
                        if not same(read_export(pyhf, out_dir, case["def"]["resultprefix"]), exp):
                            problems.append(("subprocess", "as a process: export differs from writexml's"))
                    elif io["out"] == "file" and cmd != "inspect":
                        problems += [("subprocess", "as a process, output file: " + w) for w in payload_ok(case, out_file.read_text(), exp, is_file=True)]
                    else:
                        problems += [("subprocess", "as a process: " + w) for w in payload_ok(case, sout, exp)]

            # ---- verdict, attribution, drift
            nontrivial = status == "ok" and (any(v not in ("", [], None) and not (isinstance(v, dict) and not any(v.values()))
                                                 for kk, v in case["opt"].items() if kk not in ("ws", "ws2")) or io["in"] != "file" or io["out"] == "file")
            out["nontrivial"] += bool(nontrivial)
            if not problems:
                if case["differs"]:
                    s2, e2, _ = sess.lib(case["impl"], P, cdir / "impl_export", k)
                    if (s2, e2 if s2 == "ok" else None) != (status, exp if status == "ok" else None):
                        out["drift"].append(f"{cmd}: TLC says the code's call differs from the definition's on this option record, the command "
                                            f"line follows the definition ({shown})")
                else:
                    out["impl_agree"] += 1
                if len(out["samples"]) < 2 and nontrivial:
                    out["samples"].append({"argv": shown, "exit": code, "library": status, "stdout": stdout[:160], "definition_call": case["def"]})
                shutil.rmtree(cdir, ignore_errors=True)
                continue
            kinds = sorted({p[0] for p in problems})
            tags = [f"mismatch:{kd}" for kd in kinds]
            detail = {"argv": shown, "problems": [p[1] for p in problems][:4], "exit_code": code, "library": status if status != "ok" else "returns",
                      "stdout": stdout[:300]}
            if len(out["findings"]) < 12 and out["attributed"] < 6:
                out["attributed"] += 1
                # which dropped argument reproduces what the command line did?
                for key, variant in (_drop_variants(case["def"]) if set(kinds) & {"exit", "value", "text", "file", "env"} else []):
                    vs, ve, venv = sess.lib(variant, P, cdir / f"drop_{key}", k)
                    if (code == 0) != (vs == "ok"):
                        continue
                    if vs == "ok" and cmd != "json2xml":
                        text = out_file.read_text() if (io["out"] == "file" and cmd != "inspect" and out_file.exists()) else stdout
                        if payload_ok(case, text, ve, is_file=(io["out"] == "file" and cmd != "inspect")):
                            continue
                        if "env" in kinds and venv != envs_cli:
                            continue
                    tags.append(f"ignored_arg:{key}")
                # does the same option record work over the other routes?
                if set(kinds) & {"exit", "value", "text", "file", "env"} and not any(t.startswith("ignored_arg") for t in tags):
                    if io["in"] != "file":
                        if out_file is not None and out_file.exists():
                            out_file.unlink()
                        if out_dir is not None:
                            shutil.rmtree(out_dir)
                            out_dir.mkdir()
                        a3, s3 = argv_of(case, P, out_file, out_dir, force_in="file")
                        c3, o3, x3, e3 = sess.cli(a3, s3, k)
                        if not judge(c3, o3, x3, e3, out_file, out_dir, io["out"] == "file"):
                            tags.append("route:stdin")
                    if io["out"] == "file" and "route:stdin" not in tags:
                        a4, s4 = argv_of(case, P, None, None)
                        c4, o4, x4, e4 = sess.cli(a4, s4, k)
                        if not judge(c4, o4, x4, e4, None, None, False):
                            tags.append("route:output-file")
                if case["differs"]:
                    s2, e2, _ = sess.lib(case["impl"], P, cdir / "impl_export", k)
                    if (code == 0) == (s2 == "ok"):
                        tags.append("as_transcribed")
                        detail["explanation"] = "the command line behaves as the implementation-shaped layer of Cli.tla (ImplCall) predicts"
            if status == "ok":
                tags.append("expect:ok")
            else:
                tags.append("expect:refuse")
            add(case, "; ".join(p[1] for p in problems)[:300], detail, tags)
            shutil.rmtree(cdir, ignore_errors=True)
    finally:
        if sess is not None:
            sess.close()
        shutil.rmtree(root, ignore_errors=True)
    return out
