"""Worker side of C06: test statistics on closed-form counting models and a nuisance model; every call is traced
(driver records ts.call / ts.return around the H4 fit records) for TraceTestStat.tla."""
import json

import leaf
import lanes
from common import frac
from fit_replay import Tracer, counting_model, nuisance_model, FUN_TOL

KINDS = {"t": "tmu", "ttilde": "tmu_tilde", "q": "qmu", "qtilde": "qmu_tilde", "q0": "q0"}


def sign(x, tol=0.0):
    return 0 if abs(x) <= tol else (1 if x > 0 else -1)


def call_stat(pyhf, tr, kind, mu, data, model, bounds=None, label="", hold=None):
    """hold: {index: value} of nuisance parameters the caller pins through its own init_pars / fixed_params"""
    ts = pyhf.infer.test_statistics
    fn = getattr(ts, KINDS[kind])
    cfg = model.config
    init, bnds, fixed = list(cfg.suggested_init()), bounds or cfg.suggested_bounds(), list(cfg.suggested_fixed())
    for i, v in (hold or {}).items():
        init[i], fixed[i] = v, True
    if tr.on:
        tr.buf.append({"ev": "ts.call", "kind": kind, "mu": float(mu), "poi": cfg.poi_index,
                       "held": [[i, float(init[i])] for i in range(len(fixed)) if fixed[i] and i != cfg.poi_index]})
    val, (p1, p2) = fn(mu, data, model, init, bnds, fixed, return_fitted_pars=True)
    tl = pyhf.tensorlib
    val = float(tl.tolist(val))
    p1 = [float(x) for x in tl.tolist(p1)]
    p2 = [float(x) for x in tl.tolist(p2)]
    if tr.on:
        tr.buf.append({"ev": "ts.return", "result": val, "pars1": p1, "pars2": p2})
    return val, p1, p2


def flush_ts(tr, pyhf, model, data, label):
    """like Tracer.flush but keeps ts.* records and derives d from the two logged objective values"""
    if not tr.on:
        return
    L = lanes.limbs
    funs = [r["fun"] for r in tr.buf if r["ev"] == "fit.return"]
    recs = list(tr.buf)
    tr.buf[:] = [r for r in recs if r["ev"].startswith("fit.")]
    tr.flush(pyhf, model, data, label)
    fit_evs = tr.traces.pop()["events"] if tr.traces and tr.traces[-1]["label"] == label else []
    evs = []
    it = iter(fit_evs)
    for r in recs:
        if r["ev"] == "ts.call":
            evs.append({"ev": "ts.call", "kind": r["kind"], "mu": L(r["mu"]), "poi": r["poi"], "held": [[i, L(v)] for i, v in r["held"]]})
        elif r["ev"] == "ts.return":
            if len(funs) == 2:
                d = funs[0] - funs[1]
                evs.append({"ev": "ts.return", "result": L(r["result"]), "pars1": [L(x) for x in r["pars1"]],
                            "pars2": [L(x) for x in r["pars2"]], "f1": L(funs[0]), "f2": L(funs[1]), "d": L(d)})
            else:
                evs.append({"ev": "ts.return", "result": L(r["result"]), "pars1": [], "pars2": [], "f1": [0, 0, 0], "f2": [0, 0, 0], "d": [0, 0, 0]})
        elif r["ev"].startswith("fit."):
            evs.append(next(it))
    tr.traces.append({"id": 0, "label": label, "events": evs})


def replay(pyhf, backend, precision, chunk, table, seed):
    """chunk: FitClosed cases; table: the TestStat.tla case table (list of dicts) used to classify and count coverage"""
    out = {"n": 0, "nontrivial": 0, "findings": [], "stats": 0, "cases_hit": {}, "traces": []}
    tr = Tracer(pyhf)
    allowed = {(c["kind"], c["c_muhat_mu"], c["c_muhat_0"], c["s_d"]): c["result_sign"] for c in table}

    def add(key, detail, tags):
        if len(out["findings"]) < 30:
            out["findings"].append(("C06", key, detail, tags))
    pyhf.set_backend(backend, "scipy", precision=precision)
    for line in chunk:
        case = json.loads(line)
        lo = frac(case["lo"])
        if any(lo * frac(s) + frac(b) <= 0 for s, b in zip(case["sig"], case["bkg"])):
            continue
        out["n"] += 1
        model, obs = counting_model(pyhf, case)
        data = obs + list(model.config.auxdata)
        mu = float(frac(case["mu"]))
        muhat = frac(case["muhat"])
        nll = lambda terms: float(-2 * sum(leaf.term_logp(t, frac) for t in terms))  # noqa: E731
        f_hat, f_mu, f_0 = nll(case["terms_hat"]), nll(case["terms_mu"]), nll(case["terms_0"])
        for kind in KINDS:
            tilde = kind in ("ttilde", "qtilde")
            if tilde != (lo == 0) and kind != "q0":
                continue      # tilde variants are defined for a POI bounded below by zero, the others for an unbounded one
            if kind == "q0" and lo != 0 and False:
                continue
            if mu < float(lo):
                continue
            tags = [f"kind:{kind}", f"fam:{case['fam']}"]
            det = {"case": {k: case[k] for k in ("fam", "s", "b", "n", "mu", "lo", "muhat")}, "kind": kind}
            try:
                val, p1, p2 = call_stat(pyhf, tr, kind, mu, data, model)
                flush_ts(tr, pyhf, model, data, f"{kind}")
            except Exception as e:  # noqa: BLE001
                tr.buf.clear()
                add(f"test statistic {kind} raised {type(e).__name__}: {e}", det, tags + ["exception", "allfixed" if True else ""])
                continue
            out["stats"] += 1
            mu_eff = 0.0 if kind == "q0" else mu
            d_exact = (f_0 if kind == "q0" else f_mu) - f_hat
            # closed-form value
            if kind in ("q", "qtilde"):
                exp = 0.0 if muhat > frac(case["mu"]) else max(0.0, d_exact)
            elif kind == "q0":
                exp = 0.0 if muhat < 0 else max(0.0, d_exact)
            else:
                exp = max(0.0, d_exact)
            if val < 0:
                add(f"{kind} is negative", dict(det, value=val), tags + ["nonneg"])
            # near muhat == mu the zeroing branch is decided by fit noise: skip the value comparison there
            near = abs(float(muhat) - mu_eff) <= 1e-3 * max(1.0, abs(mu_eff)) or abs(float(muhat)) <= 1e-3
            if not near and abs(val - exp) > 2 * FUN_TOL(f_hat):
                add(f"{kind} differs from its closed-form value", dict(det, value=val, expected=exp, pars=[p1, p2]), tags + ["value"])
            if p1[model.config.poi_index] != mu_eff:
                add(f"{kind}: conditional fit did not test mu = {mu_eff}", dict(det, pars=p1), tags + ["wiring"])
            key = (kind, sign(float(muhat) - mu, 1e-9), sign(float(muhat), 1e-9), sign(d_exact, 1e-12))
            out["cases_hit"][str(key)] = out["cases_hit"].get(str(key), 0) + 1
        if frac(case["n"]) > 0:
            out["nontrivial"] += 1
    # one-nuisance model: no closed form, trace validation only (wiring, exact case semantics on observed values)
    model = nuisance_model(pyhf)
    for di, obs in enumerate([[58.0, 61.0], [70.0, 52.0], [40.0, 45.0], [61.0, 57.0]]):
        data = obs + list(model.config.auxdata)
        for kind in ("qtilde", "ttilde", "q0"):
            for mi, mu in enumerate((0.0, 0.5, 1.0, 2.5)):
                # every other call pins one nuisance parameter through the caller's own mask (not the model's suggestion)
                nuis = [i for i in range(model.config.npars) if i != model.config.poi_index]
                hold = {nuis[(di + mi) % len(nuis)]: 1.05} if (di + mi) % 2 else None
                try:
                    val, p1, p2 = call_stat(pyhf, tr, kind, mu, data, model, hold=hold)
                    if hold and any(abs(p[i] - v) > 0 for p in (p1, p2) for i, v in hold.items()):
                        add(f"{kind}: a parameter the caller holds fixed moved in a returned fit", {"hold": hold, "pars": [p1, p2]}, [f"kind:{kind}", "held"])
                    flush_ts(tr, pyhf, model, data, f"{kind}/nuis")
                    out["stats"] += 1
                    if val < 0:
                        add(f"{kind} is negative", {"value": val}, [f"kind:{kind}", "nonneg"])
                except Exception as e:  # noqa: BLE001
                    tr.buf.clear()
                    add(f"test statistic {kind} raised {type(e).__name__}: {e}", {"mu": mu, "obs": obs}, [f"kind:{kind}", "exception"])
    tr.close()
    out["traces"] = tr.traces
    return out
