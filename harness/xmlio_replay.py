"""Worker side of the C18 replay (spec/XmlIO.tla, spec/MC_XmlIO.tla).

Two kinds of cases, both printed by TLC:

* layer "conv": one exportable workspace `w` (exact rationals), the document the DEFINITION says must be
  written (`xml`), the workspace the definition says must come back (`expect` = DefImport(DefExport(w)),
  proved term-equal to `w` by the invariant RoundTripDef) and the predictions of the implementation-shaped
  layer (`impl`).  The workspace is written with pyhf.writexml.writexml exactly as `pyhf json2xml` does
  (output_dir/config, output_dir/data, output_dir/FitConfig.xml) and read back with pyhf.readxml.parse as
  `pyhf xml2json` does.  VIOLATION only against `expect` / the original likelihood; differences to `xml`
  or `impl` that leave the round trip intact are MODEL-DRIFT.
* layer "hist": one behaviour of export / import / clear_filecache steps over two directories and two
  content versions; every import is compared with the version the definition says is on disk.
"""
import copy
import itertools
import json
import os
import shutil
import xml.etree.ElementTree as ET
import zlib
from pathlib import Path

from common import frac, workdir

TOL = 1e-9          # relative; ROOT histograms written by writexml are TH1D (doubles), XML attributes are repr(float)
_COUNTER = itertools.count()


def fl(x):
    return float(frac(x))


def close(a, b, tol=TOL):
    if isinstance(a, (list, tuple)) or isinstance(b, (list, tuple)):
        return (isinstance(a, (list, tuple)) and isinstance(b, (list, tuple)) and len(a) == len(b)
                and all(close(x, y, tol) for x, y in zip(a, b)))
    try:
        a, b = float(a), float(b)
    except (TypeError, ValueError):
        return False
    return abs(a - b) <= tol * max(1.0, abs(a), abs(b))      # NaN compares unequal


# ------------------------------------------------------------------------------------------------
# specification value -> pyhf JSON
def concrete_mod(m):
    t = m["type"]
    if t == "histosys":
        data = {"lo_data": [fl(v) for v in m["d1"]], "hi_data": [fl(v) for v in m["d2"]]}
    elif t == "normsys":
        data = {"lo": fl(m["d1"][0]), "hi": fl(m["d2"][0])}
    elif t in ("staterror", "shapesys"):
        data = [fl(v) for v in m["d1"]]
    else:
        data = None
    return {"name": m["name"], "type": t, "data": data}


def concrete_par(p):
    out = {"name": p["name"]}
    if p["inits"]:
        out["inits"] = [fl(v) for v in p["inits"]]
    if p["bounds"]:
        out["bounds"] = [[fl(b[0]), fl(b[1])] for b in p["bounds"]]
    if p["auxdata"]:
        out["auxdata"] = [fl(v) for v in p["auxdata"]]
    if p["sigmas"]:
        out["sigmas"] = [fl(v) for v in p["sigmas"]]
    if p["fixed"]:
        out["fixed"] = True
    return out


def concrete_ws(w):
    return {
        "channels": [{"name": c["name"],
                      "samples": [{"name": s["name"], "data": [fl(v) for v in s["data"]],
                                   "modifiers": [concrete_mod(m) for m in s["mods"]]} for s in c["samples"]]}
                     for c in w["channels"]],
        "observations": [{"name": c["name"], "data": [fl(v) for v in c["obs"]]} for c in w["channels"]],
        "measurements": [{"name": m["name"], "config": {"poi": m["poi"], "parameters": [concrete_par(p) for p in m["pars"]]}}
                         for m in w["meas"]],
        "version": "1.0.0",
    }


# ------------------------------------------------------------------------------------------------
# the two calls, as the command line makes them (cli/rootio.py: json2xml, xml2json)
def export_like_cli(pyhf, spec, output_dir, specroot="config", dataroot="data", resultprefix="FitConfig"):
    output_dir = Path(output_dir)
    os.makedirs(output_dir, exist_ok=True)
    os.makedirs(output_dir.joinpath(specroot), exist_ok=True)
    os.makedirs(output_dir.joinpath(dataroot), exist_ok=True)
    text = pyhf.writexml.writexml(spec, output_dir.joinpath(specroot), output_dir.joinpath(dataroot), resultprefix).decode("utf-8")
    top = output_dir.joinpath(f"{resultprefix}.xml")
    with open(top, "w", encoding="utf-8") as f:
        f.write(text)
    return top


def import_like_cli(pyhf, top, basedir):
    return pyhf.readxml.parse(str(top), basedir, mounts=(), track_progress=False, validation_as_error=True)


# ------------------------------------------------------------------------------------------------
# comparison of a re-imported workspace with the workspace the definition demands
def _mods(sample):
    return {(m["name"], m["type"]): m for m in sample["modifiers"]}


def _all_param_names(ws):
    return {m["name"] for c in ws["channels"] for s in c["samples"] for m in s["modifiers"]}


def _types(ws):
    t = {}
    for c in ws["channels"]:
        for s in c["samples"]:
            for m in s["modifiers"]:
                t.setdefault(m["name"], set()).add(m["type"])
    return t


def compare_ws(got, exp):
    """-> list of (field, what) ; field is a short class name used in tags"""
    bad = []
    gch = {c["name"]: c for c in got.get("channels", [])}
    ech = {c["name"]: c for c in exp["channels"]}
    if set(gch) != set(ech) or len(gch) != len(got.get("channels", [])):
        bad.append(("channels", f"channels {sorted(gch)} != {sorted(ech)}"))
    for cn in sorted(set(gch) & set(ech)):
        gs = {s["name"]: s for s in gch[cn]["samples"]}
        es = {s["name"]: s for s in ech[cn]["samples"]}
        if set(gs) != set(es) or len(gs) != len(gch[cn]["samples"]):
            bad.append(("samples", f"{cn}: samples {sorted(gs)} != {sorted(es)}"))
        for sn in sorted(set(gs) & set(es)):
            if not close(gs[sn]["data"], es[sn]["data"]):
                bad.append(("nominal", f"{cn}/{sn}: data {gs[sn]['data']} != {es[sn]['data']}"))
            gm, em = _mods(gs[sn]), _mods(es[sn])
            if set(gm) != set(em) or len(gm) != len(gs[sn]["modifiers"]):
                bad.append(("modifiers", f"{cn}/{sn}: modifiers {sorted(gm)} != {sorted(em)}"))
            for k in sorted(set(gm) & set(em)):
                gd, ed = gm[k]["data"], em[k]["data"]
                if k[1] == "histosys":
                    ok = isinstance(gd, dict) and close(gd.get("lo_data"), ed["lo_data"]) and close(gd.get("hi_data"), ed["hi_data"])
                elif k[1] == "normsys":
                    ok = isinstance(gd, dict) and close(gd.get("lo"), ed["lo"]) and close(gd.get("hi"), ed["hi"])
                elif k[1] in ("staterror", "shapesys"):
                    ok = close(gd, ed)
                else:
                    ok = gd is None
                if not ok:
                    bad.append((f"{k[1]}_data", f"{cn}/{sn}/{k[0]}: {gd} != {ed}"))
    gobs = {o["name"]: o["data"] for o in got.get("observations", [])}
    eobs = {o["name"]: o["data"] for o in exp["observations"]}
    if set(gobs) != set(eobs):
        bad.append(("observations", f"observations for {sorted(gobs)} != {sorted(eobs)}"))
    for cn in sorted(set(gobs) & set(eobs)):
        if not close(gobs[cn], eobs[cn]):
            bad.append(("observations", f"{cn}: observations {gobs[cn]} != {eobs[cn]}"))
    # measurements
    gme = {m["name"]: m for m in got.get("measurements", [])}
    eme = {m["name"]: m for m in exp["measurements"]}
    if set(gme) != set(eme):
        bad.append(("measurements", f"measurements {sorted(gme)} != {sorted(eme)}"))
    names = _all_param_names(exp)
    types = _types(exp)
    for mn in sorted(set(gme) & set(eme)):
        gc, ec = gme[mn]["config"], eme[mn]["config"]
        if gc.get("poi") != ec["poi"]:
            bad.append(("poi", f"{mn}: poi {gc.get('poi')!r} != {ec['poi']!r}"))
        gp = {p["name"]: p for p in gc.get("parameters", [])}
        ep = {p["name"]: p for p in ec["parameters"]}
        if len(gp) != len(gc.get("parameters", [])):
            bad.append(("parameters", f"{mn}: a parameter is configured twice: {[p['name'] for p in gc['parameters']]}"))
        gfix = {n for n, p in gp.items() if p.get("fixed", False)}
        efix = {n for n, p in ep.items() if p.get("fixed", False)}
        # a constant flag on a name that is no parameter of the model is a lost flag for the one it was meant for
        if gfix != efix:
            bad.append(("const_flags", f"{mn}: constant parameters {sorted(gfix)} != {sorted(efix)}"))
        if "lumi" in names:
            gl, el = gp.get("lumi", {}), ep["lumi"]
            if not close(gl.get("auxdata"), el["auxdata"]):
                bad.append(("lumi_auxdata", f"{mn}: lumi auxdata {gl.get('auxdata')} != {el['auxdata']}"))
            if not close(gl.get("inits"), el["inits"]):
                bad.append(("lumi_inits", f"{mn}: lumi inits {gl.get('inits')} != {el['inits']}"))
            if not close(gl.get("sigmas"), el["sigmas"]):
                bad.append(("lumi_sigma", f"{mn}: lumi sigmas {gl.get('sigmas')} != {el['sigmas']}"))
        for n in sorted(names):
            if types[n] == {"normfactor"}:
                g, e = gp.get(n, {}), ep.get(n, {})
                gset = (g.get("inits", [1.0]), g.get("bounds", [[0.0, 10.0]]))
                eset = (e.get("inits", [1.0]), e.get("bounds", [[0.0, 10.0]]))
                if not (close(gset[0], eset[0]) and close(gset[1][0], eset[1][0])):
                    bad.append(("normfactor_settings", f"{mn}: {n} inits/bounds {gset} != {eset}"))
            elif n != "lumi":
                extra = {k: v for k, v in gp.get(n, {}).items() if k not in ("name", "fixed")}
                if extra:
                    bad.append(("parameters", f"{mn}: {n} came back with settings it never had: {extra}"))
    return bad


# ------------------------------------------------------------------------------------------------
# likelihood equality, assembled by NAME
def _stat_rename(orig):
    ren = {}
    for c in orig["channels"]:
        for s in c["samples"]:
            for m in s["modifiers"]:
                if m["type"] == "staterror":
                    ren[m["name"]] = f"staterror_{c['name']}"
    return ren


def _offset(name, i, k):
    return (((zlib.crc32(name.encode()) % 7) - 3) + i) * 0.045 * k + 0.02 * k


def compare_likelihood(pyhf, orig, got, npoints=3):
    """logpdf of Workspace(orig).model() and Workspace(got).model() at the same points / data (by name)."""
    bad = []
    nev = 0
    ren = _stat_rename(orig)
    w1, w2 = pyhf.Workspace(copy.deepcopy(orig)), pyhf.Workspace(copy.deepcopy(got))
    obs = {o["name"]: o["data"] for o in orig["observations"]}
    for meas in orig["measurements"]:
        mn = meas["name"]
        m1 = w1.model(measurement_name=mn)
        m2 = w2.model(measurement_name=mn)
        c1, c2 = m1.config, m2.config
        names1 = [ren.get(n, n) for n in c1.par_order]
        if sorted(names1) != sorted(c2.par_order):
            bad.append(("model_parameters", f"{mn}: parameters {sorted(c2.par_order)} != {sorted(names1)} (after the dictated renaming)"))
            continue
        if ren.get(c1.poi_name, c1.poi_name) != c2.poi_name:
            bad.append(("poi", f"{mn}: model POI {c2.poi_name!r} != {c1.poi_name!r}"))
        # constant flags / inits / bounds as the model reports them, by name
        f1, f2 = c1.suggested_fixed(), c2.suggested_fixed()
        i1, i2 = c1.suggested_init(), c2.suggested_init()
        b1, b2 = c1.suggested_bounds(), c2.suggested_bounds()
        for n in c1.par_order:
            s1, s2 = c1.par_slice(n), c2.par_slice(ren.get(n, n))
            if (s1.stop - s1.start) != (s2.stop - s2.start):
                bad.append(("model_parameters", f"{mn}: {n} has {s2.stop - s2.start} components, expected {s1.stop - s1.start}"))
                continue
            if list(f1[s1]) != list(f2[s2]):
                bad.append(("const_flags", f"{mn}: model fixes {n}: {list(f2[s2])} != {list(f1[s1])}"))
            if n != "lumi" and c1.param_set(n).constrained is False and not (close(list(i1[s1]), list(i2[s2])) and close([list(x) for x in b1[s1]], [list(x) for x in b2[s2]])):
                bad.append(("normfactor_settings", f"{mn}: model init/bounds of {n}: {list(i2[s2])}/{list(b2[s2])} != {list(i1[s1])}/{list(b1[s1])}"))
        if any(f == "model_parameters" for f, _ in bad):
            continue
        # auxiliary data of the two models, by name
        aux1, k = {}, 0
        for n in c1.auxdata_order:
            npar = c1.param_set(n).n_parameters
            aux1[ren.get(n, n)] = list(c1.auxdata[k:k + npar])
            k += npar
        aux2, k = {}, 0
        for n in c2.auxdata_order:
            npar = c2.param_set(n).n_parameters
            aux2[n] = list(c2.auxdata[k:k + npar])
            k += npar
        if set(aux1) != set(aux2):
            bad.append(("constraints", f"{mn}: constrained parameters {sorted(aux2)} != {sorted(aux1)}"))
            continue
        for n in aux1:
            if not close(aux1[n], aux2[n]):
                bad.append(("auxdata", f"{mn}: auxiliary data of {n}: {aux2[n]} != {aux1[n]}"))
        for dk in range(2):                       # the observed dataset and a shifted one
            def main(cfg):
                out = []
                for cn in cfg.channels:
                    out += [v * (1.0 + 0.13 * dk) + 0.7 * dk for v in obs[cn]]
                return out
            def aux(cfg, order):
                out = []
                for n in order:
                    out += [v * (1.0 + 0.05 * dk) + 0.011 * dk * (j + 1) for j, v in enumerate(aux1[n])]
                return out
            d1 = main(c1) + aux(c1, [ren.get(n, n) for n in c1.auxdata_order])
            d2 = main(c2) + aux(c2, list(c2.auxdata_order))
            for pk in range(npoints):
                val = {}
                for n in c1.par_order:
                    s1 = c1.par_slice(n)
                    val[ren.get(n, n)] = [i1[s1][i] + _offset(ren.get(n, n), i, pk) for i in range(s1.stop - s1.start)]
                v1 = [x for n in c1.par_order for x in val[ren.get(n, n)]]
                v2 = [x for n in c2.par_order for x in val[n]]
                l1 = float(pyhf.tensorlib.tolist(m1.logpdf(v1, d1))[0])
                l2 = float(pyhf.tensorlib.tolist(m2.logpdf(v2, d2))[0])
                nev += 1
                if l1 != l1 or abs(l1) == float("inf"):
                    continue            # not a point of the original model's support
                if not close(l1, l2):
                    bad.append(("logpdf", f"{mn}: logpdf {l2!r} != {l1!r} at point {pk} ({val}), dataset {dk}"))
                    break
            else:
                continue
            break
    return bad, nev


# ------------------------------------------------------------------------------------------------
# the document actually written vs the definition's document (drift only)
def read_document(top, basedir, uproot):
    """-> dict shaped like the specification's document, numbers as floats"""
    tree = ET.parse(top)
    doc = {"channels": [], "meas": []}
    files = {}

    def hist(fname, name):
        p = str(Path(basedir).joinpath(fname))
        if p not in files:
            files[p] = uproot.open(p)
        return [float(v) for v in files[p][name].values()]

    try:
        for inp in tree.findall("Input"):
            ch = ET.parse(Path(basedir).joinpath(inp.text)).getroot()
            data = ch.find("Data")
            c = {"name": ch.attrib["Name"], "data": hist(data.attrib["InputFile"], data.attrib["HistoName"]), "samples": []}
            for s in ch.findall("Sample"):
                f = s.attrib["InputFile"]
                sm = {"name": s.attrib["Name"], "hist": hist(f, s.attrib["HistoName"]),
                      "norm": s.attrib.get("NormalizeByTheory") == "True", "els": []}
                for e in s:
                    a = e.attrib
                    if e.tag == "HistoSys":
                        el = [a["Name"], hist(f, a["HistoNameLow"]), hist(f, a["HistoNameHigh"])]
                    elif e.tag == "OverallSys":
                        el = [a["Name"], [float(a["Low"])], [float(a["High"])]]
                    elif e.tag == "NormFactor":
                        el = [a["Name"], [float(a["Val"])], [float(a["Low"]), float(a["High"])]]
                    elif e.tag == "StatError":
                        el = [a.get("Name", ""), hist(f, a["HistoName"]), []]
                    elif e.tag == "ShapeSys":
                        el = [a["Name"], hist(f, a["HistoName"]), []]
                    else:
                        el = [a.get("Name", ""), [], []]
                    sm["els"].append({"tag": e.tag, "name": el[0], "d1": el[1], "d2": el[2]})
                c["samples"].append(sm)
            doc["channels"].append(c)
    finally:
        for f in files.values():
            f.close()
    for m in tree.findall("Measurement"):
        const = []
        for ps in m.findall("ParamSetting"):
            if ps.attrib.get("Const") == "True" and ps.text:
                const += ps.text.strip().split(" ")
        poi = m.find("POI")
        doc["meas"].append({"name": m.attrib["Name"], "lumi": float(m.attrib["Lumi"]), "relerr": float(m.attrib["LumiRelErr"]),
                            "poi": (poi.text or "").strip() if poi is not None else None, "const": const})
    return doc


def compare_document(doc, xml):
    out = []
    if [c["name"] for c in doc["channels"]] != [c["name"] for c in xml["channels"]]:
        return [("xml:channels", "channel files differ")]
    for dc, xc in zip(doc["channels"], xml["channels"]):
        if not close(dc["data"], [fl(v) for v in xc["data"]]):
            out.append(("xml:data_hist", f"{dc['name']}: {dc['data']}"))
        if [s["name"] for s in dc["samples"]] != [s["name"] for s in xc["samples"]]:
            out.append(("xml:samples", dc["name"]))
            continue
        for ds, xs in zip(dc["samples"], xc["samples"]):
            where = f"{dc['name']}/{ds['name']}"
            if not close(ds["hist"], [fl(v) for v in xs["hist"]]):
                out.append(("xml:sample_hist", where))
            if ds["norm"] != xs["norm"]:
                out.append(("xml:NormalizeByTheory", where))
            if [(e["tag"], e["name"]) for e in ds["els"]] != [(e["tag"], e["name"]) for e in xs["els"]]:
                out.append(("xml:elements", f"{where}: {[(e['tag'], e['name']) for e in ds['els']]}"))
                continue
            for de, xe in zip(ds["els"], xs["els"]):
                if not (close(de["d1"], [fl(v) for v in xe["d1"]]) and close(de["d2"], [fl(v) for v in xe["d2"]])):
                    out.append((f"xml:{de['tag']}", f"{where}/{de['name']}: {de['d1']} {de['d2']} != {[fl(v) for v in xe['d1']]} {[fl(v) for v in xe['d2']]}"))
    if [m["name"] for m in doc["meas"]] != [m["name"] for m in xml["meas"]]:
        out.append(("xml:measurements", str([m["name"] for m in doc["meas"]])))
        return out
    for dm, xm in zip(doc["meas"], xml["meas"]):
        if not close(dm["lumi"], fl(xm["lumi"])):
            out.append(("xml:Lumi", f"{dm['name']}: {dm['lumi']} != {fl(xm['lumi'])}"))
        if not close(dm["relerr"], fl(xm["relerr"])):
            out.append(("xml:LumiRelErr", f"{dm['name']}: {dm['relerr']} != {fl(xm['relerr'])}"))
        if dm["poi"] != xm["poi"]:
            out.append(("xml:POI", f"{dm['name']}: {dm['poi']!r} != {xm['poi']!r}"))
        if sorted(dm["const"]) != sorted(xm["const"]):
            out.append(("xml:Const", f"{dm['name']}: {dm['const']} != {xm['const']}"))
    return out


# ------------------------------------------------------------------------------------------------
def _ctx(base, style, name):
    """directory spelling: 'abs' = absolute output_dir (as tests/test_scripts.py does), 'rel' = a relative
    output_dir below the current directory and xml2json's default --basedir (the current directory)"""
    if style == "abs":
        out = base / name
        return out, out
    os.chdir(base)
    return Path(name), Path.cwd()


def replay_conv(pyhf, case, base, out, add):
    import uproot
    w = case["w"]
    orig = concrete_ws(w)
    exp = concrete_ws(case["expect"])
    impl = case["impl"]
    lum = [fl(p["auxdata"][0]) for m in w["meas"] for p in m["pars"] if p["name"] == "lumi"]
    types = sorted({m["type"] for c in w["channels"] for s in c["samples"] for m in s["mods"]})
    shape = "+".join(f"{len(c['samples'])}x{len(c['obs'])}" for c in w["channels"])
    base_tags = [f"nmeas:{len(w['meas'])}", f"shape:{shape}"] + [f"has:{t}" for t in types]
    has_lumi = "lumi" in types
    if has_lumi:
        base_tags.append("lumi=1" if all(x == 1.0 for x in lum) else "lumi!=1")
    style = "abs" if case["id"] % 2 == 0 else "rel"
    cwd = os.getcwd()
    cdir = base / f"c{next(_COUNTER)}"
    cdir.mkdir()
    info = {"id": case["id"], "style": style, "workspace": orig}
    pyhf.readxml.clear_filecache()
    try:
        outdir, basedir = _ctx(cdir, style, "out")
        try:
            top = export_like_cli(pyhf, copy.deepcopy(orig), outdir)
        except Exception as e:  # noqa: BLE001
            add(f"export of an exportable workspace failed: {type(e).__name__}: {e}", dict(info), base_tags + [f"roundtrip:export_exception:{type(e).__name__}"])
            return
        try:
            got = import_like_cli(pyhf, top, basedir)
        except Exception as e:  # noqa: BLE001
            add(f"re-import of the exported workspace failed: {type(e).__name__}: {e}",
                dict(info, top_level_xml=open(top).read()), base_tags + [f"roundtrip:import_exception:{type(e).__name__}"])
            return
        out["cycles"] += 1
        bad = compare_ws(got, exp)
        try:
            lbad, nev = compare_likelihood(pyhf, orig, got)
        except Exception as e:  # noqa: BLE001
            lbad, nev = [("model_exception", f"model of the re-imported workspace cannot be built/evaluated: {type(e).__name__}: {e}")], 0
        out["evaluations"] += nev
        # what the document looks like (drift only, and explanation of findings)
        try:
            doc = read_document(top, basedir, uproot)
            ddiff = compare_document(doc, case["xml"])
        except Exception as e:  # noqa: BLE001
            doc, ddiff = None, [("xml:unreadable", f"{type(e).__name__}: {e}")]
        fields = sorted({f for f, _ in bad})
        for f in fields:
            out["fields"][f] = out["fields"].get(f, 0) + 1
        if doc is not None:
            obs_rel = [m["relerr"] for m in doc["meas"]]
            if not close(obs_rel, [fl(v) for v in impl["relerr"]]):
                out["drift"].append(("XmlIO", f"LumiRelErr written {obs_rel}, implementation-shaped layer predicts {[fl(v) for v in impl['relerr']]} (case {case['id']})"))
        gl = [[p for p in m["config"]["parameters"] if p["name"] == "lumi"] for m in got.get("measurements", [])]
        obs_sig = [g[0].get("sigmas", [None])[0] if g else None for g in gl]
        if has_lumi and not close(obs_sig, [fl(v) for v in impl["sigma"]]):
            out["drift"].append(("XmlIO", f"re-imported lumi sigma {obs_sig}, implementation-shaped layer predicts {[fl(v) for v in impl['sigma']]} (case {case['id']})"))
        obs_order = [[p["name"] for p in m["config"]["parameters"]] for m in got.get("measurements", [])]
        if obs_order != impl["parorder"] and not bad:
            out["drift"].append(("XmlIO", f"parameter listing order {obs_order}, implementation-shaped layer predicts {impl['parorder']}"))
        only_relerr = all(f == "xml:LumiRelErr" for f, _ in ddiff)
        for f, what in ddiff:
            if f == "xml:LumiRelErr" and "lumi_sigma" in fields:
                continue            # reported with the violation below
            out["drift"].append(("XmlIO", f"written document differs from DefExport in {f}: {what} (round trip {'broken' if bad or lbad else 'intact'}, case {case['id']})"))
        # one finding per failing field class (known findings are matched on tags)
        for f in fields:
            whats = [wh for ff, wh in bad if ff == f]
            detail = dict(info, field=f, mismatches=whats[:6], reimported=got)
            tags = base_tags + [f"roundtrip:{f}"]
            if f == "lumi_sigma":
                detail.update(
                    definition="LumiRelErr = sigmas[0]/auxdata[0]; import: sigmas = Lumi*LumiRelErr (DESIGN A.9)",
                    demanded_LumiRelErr=[fl(m["relerr"]) for m in case["xml"]["meas"]],
                    written_LumiRelErr=[m["relerr"] for m in doc["meas"]] if doc else None,
                    impl_predicted_LumiRelErr=[fl(v) for v in impl["relerr"]],
                    demanded_sigma=[p["sigmas"][0] for m in exp["measurements"] for p in m["config"]["parameters"] if p["name"] == "lumi"],
                    reimported_sigma=obs_sig, impl_predicted_sigma=[fl(v) for v in impl["sigma"]],
                    impl_layer_explains=close(obs_sig, [fl(v) for v in impl["sigma"]]),
                    other_document_differences=[d for d in ddiff if d[0] != "xml:LumiRelErr"], only_LumiRelErr_differs=only_relerr)
                key = "luminosity uncertainty is not recovered by export + re-import (lumi sigma changes unless Lumi = 1)"
            else:
                key = f"export + re-import does not preserve the workspace: {f}"
            add(key, detail, tags)
        if lbad:
            lf = sorted({f for f, _ in lbad})
            tags = base_tags + [f"roundtrip:{f}" for f in lf]
            detail = dict(info, mismatches=[wh for _, wh in lbad][:6], reimported=got)
            # is the likelihood difference fully explained by the lumi sigma?  restore it and re-evaluate
            if "lumi_sigma" in fields and lf == ["logpdf"]:
                fixed = copy.deepcopy(got)
                sig = {m["name"]: [p["sigmas"] for p in m["config"]["parameters"] if p["name"] == "lumi"][0] for m in exp["measurements"]}
                for m in fixed["measurements"]:
                    for p in m["config"]["parameters"]:
                        if p["name"] == "lumi":
                            p["sigmas"] = sig[m["name"]]
                try:
                    again, _ = compare_likelihood(pyhf, orig, fixed)
                except Exception:  # noqa: BLE001
                    again = [("x", "x")]
                if not again:
                    tags.append("due:lumi_sigma")
                    detail["explained_by"] = "restoring the original lumi sigma in the re-imported workspace restores likelihood equality"
            for f in lf:
                out["fields"][f] = out["fields"].get(f, 0) + 1
            add("model of the re-imported workspace differs from the original model (" + ", ".join(lf) + ")", detail, tags)
        if sum(len(s["modifiers"]) for c in orig["channels"] for s in c["samples"]) >= 2:
            out["nontrivial"] += 1
    finally:
        os.chdir(cwd)
        pyhf.readxml.clear_filecache()
        shutil.rmtree(cdir, ignore_errors=True)


# ------------------------------------------------------------------------------------------------
def version_workspace(v):
    """content version v (1, 2, ...): one structure, every number depends on v.  No lumi modifier (so that the
    conversion-layer finding does not leak into the history layer); staterror already carries the dictated name."""
    k = float(v)
    return {
        "channels": [{"name": "SR_one", "samples": [
            {"name": "Bkg", "data": [50.0 + k, 60.5 + 2 * k], "modifiers": [
                {"name": "Alpha_sys", "type": "histosys", "data": {"lo_data": [45.0 + k, 57.0 + k], "hi_data": [56.0 + 2 * k, 63.25 + k]}},
                {"name": "staterror_SR_one", "type": "staterror", "data": [5.0 + 0.5 * k, 3.1 + 0.3 * k]},
                {"name": "shp", "type": "shapesys", "data": [7.0 + k, 6.3 + 0.1 * k]}]},
            {"name": "signal", "data": [5.0 + 0.7 * k, 7.0 + 0.3 * k], "modifiers": [
                {"name": "mu", "type": "normfactor", "data": None},
                {"name": "Alpha_sys", "type": "normsys", "data": {"lo": 0.8 + 0.01 * k, "hi": 1.2 + 0.02 * k}}]}]}],
        "observations": [{"name": "SR_one", "data": [53.0 + 3 * k, 66.0 + k]}],
        "measurements": [{"name": "meas", "config": {"poi": "mu", "parameters": [{"name": "mu", "inits": [1.0 + 0.25 * k], "bounds": [[0.0, 5.0 + k]]}]}}],
        "version": "1.0.0",
    }


def _hist_part(ws):
    """the numbers an import takes from the ROOT file"""
    out = []
    for c in ws["channels"]:
        for s in c["samples"]:
            out += list(s["data"])
            for m in s["modifiers"]:
                if m["type"] == "histosys":
                    out += list(m["data"]["lo_data"]) + list(m["data"]["hi_data"])
                elif m["type"] in ("staterror", "shapesys"):
                    out += list(m["data"])
    for o in ws["observations"]:
        out += list(o["data"])
    return out


def replay_hist(pyhf, case, base, out, add, versions=(1, 2)):
    hist = case["hist"]
    style = "abs" if case["id"] % 2 == 0 else "rel"
    cwd = os.getcwd()
    hdir = base / f"h{next(_COUNTER)}"
    hdir.mkdir()
    tops = {}
    pyhf.readxml.clear_filecache()          # the definition's initial state: nothing read yet
    ops = [(e["op"], e["dir"], e["ver"]) for e in hist]
    try:
        for si, e in enumerate(hist):
            if e["op"] == "export":
                outdir, basedir = _ctx(hdir, style, f"d{e['dir']}")
                tops[e["dir"]] = (export_like_cli(pyhf, version_workspace(e["ver"]), outdir), basedir)
                out["exports"] += 1
            elif e["op"] == "clear":
                pyhf.readxml.clear_filecache()
                out["clears"] += 1
            else:
                top, basedir = tops[e["dir"]]
                tags = ["layer:history", f"steps:{len(hist)}"]
                info = {"history": ops, "step": si, "style": style, "demanded_version": e["demand"], "impl_predicted_version": e["impl"]}
                try:
                    got = import_like_cli(pyhf, top, basedir)
                except Exception as ex:  # noqa: BLE001
                    add(f"import failed in an export/import history: {type(ex).__name__}: {ex}", info, tags + [f"history:import_exception:{type(ex).__name__}"])
                    return
                out["imports"] += 1
                out["cycles"] += 1
                want = version_workspace(e["demand"])
                bad = compare_ws(got, want)
                hp = _hist_part(got)
                seen = [v for v in versions if close(hp, _hist_part(version_workspace(v)))]
                seen_v = seen[0] if len(seen) == 1 else None
                if seen_v is not None and seen_v != e["impl"]:
                    out["drift"].append(("XmlIO", f"import read histogram contents of version {seen_v}, the implementation-shaped cache predicts {e['impl']} (history {ops}, step {si})"))
                if e["impl"] != e["demand"]:
                    out["stale_predicted"] += 1
                if not bad:
                    continue
                info.update(mismatches=[wh for _, wh in bad][:8], histogram_contents_of_version=seen_v)
                if seen_v is not None and seen_v != e["demand"]:
                    since_clear = [o for o in ops[:si] if o[0] == "clear"]
                    add("an import after a re-export into the same directory returns the histogram contents of the previous export "
                        "(readxml file cache is keyed by path only and never invalidated)",
                        dict(info, definition="every import reads the file content current at that moment (ImportReadsCurrentFile)",
                             impl_layer_explains=(seen_v == e["impl"])),
                        tags + ["history:stale_cache", "reexport_same_dir"] + (["after_clear"] if since_clear else []))
                else:
                    add("an import in an export/import history does not return the workspace on disk: " + ", ".join(sorted({f for f, _ in bad})),
                        info, tags + ["history:import_mismatch"] + [f"roundtrip:{f}" for f in sorted({f for f, _ in bad})])
                return
        if len(hist) >= 4:
            out["nontrivial"] += 1
    finally:
        os.chdir(cwd)
        pyhf.readxml.clear_filecache()
        shutil.rmtree(hdir, ignore_errors=True)


def replay(pyhf, backend, precision, chunk, seed=0, max_findings=60):
    import pyhf.readxml  # noqa: F401  (sub-modules of the tree under test; they need uproot)
    import pyhf.writexml  # noqa: F401
    out = {"n": 0, "nontrivial": 0, "findings": [], "more_tags": [], "drift": [], "fields": {}, "cycles": 0, "evaluations": 0,
           "exports": 0, "imports": 0, "clears": 0, "stale_predicted": 0, "conv": 0, "hist": 0}

    def add(key, detail, tags):
        if len(out["findings"]) < max_findings:
            out["findings"].append(("C18", key, detail, tags))
        else:
            out["more_tags"].append((key, tags))

    base = workdir("c18")
    cwd = os.getcwd()
    try:
        for line in chunk:
            case = json.loads(line)
            out["n"] += 1
            if case["layer"] == "conv":
                out["conv"] += 1
                replay_conv(pyhf, case, base, out, add)
            else:
                out["hist"] += 1
                replay_hist(pyhf, case, base, out, add)
    finally:
        os.chdir(cwd)
        shutil.rmtree(base, ignore_errors=True)
    out["drift"] = out["drift"][:30]
    return out
