"""./vf selftest [ID ...]: demonstrate that the binding bites.
 (1) every patch in mutants/<ID>/*.diff and seeded/<id>/patch.diff (for ids starting with ID) is applied to a scratch copy of
     /repo/src (outside /repo and /verif) and the check must exit 1;
 (2) trace corruption: one field of one recorded fit trace is changed and TLC must reject exactly that record."""
import json
import os
import shutil
import subprocess
import sys
import tempfile
from pathlib import Path

from common import REPO, VERIF


def run_patched(patch: Path, prop: str, tier="quick"):
    d = Path(tempfile.mkdtemp(prefix="selftest."))
    try:
        shutil.copytree(REPO / "src" / "pyhf", d / "src" / "pyhf")
        p = subprocess.run(["patch", "-p1", "-d", str(d)], stdin=open(patch), stdout=subprocess.PIPE, stderr=subprocess.STDOUT, text=True)
        if p.returncode:
            return "patch does not apply", None
        env = dict(os.environ, PYHF_SRC=str(d / "src"))
        r = subprocess.run([str(VERIF / "vf"), "check", prop, "--tier", tier], env=env, stdout=subprocess.PIPE, stderr=subprocess.STDOUT, text=True)
        first = next((ln for ln in r.stdout.splitlines() if ln.strip().startswith("what:")), "")
        return r.returncode, first.strip()[:160]
    finally:
        shutil.rmtree(d, ignore_errors=True)


def corrupt_trace():
    """a synthetic, protocol-conformant fit trace is accepted; with one limb of a fixed value changed it is rejected at fit.return"""
    sys.path.insert(0, str(VERIF / "harness"))
    import lanes
    import tracecheck
    L = lanes.limbs
    shim = {"ev": "fit.shim", "npars": 2, "init": [L(1.0), L(0.5)], "bounds": [[L(0.0), L(10.0)], [L(0.0), L(2.0)]],
            "fixed_vals": [[1, L(0.5)]], "do_grad": False, "do_stitch": True, "x0": [L(1.0)], "vbounds": [[L(0.0), L(10.0)]], "mfixed": []}
    raw = {"ev": "fit.raw", "x": [L(2.25)], "fun": L(11.5), "success": True}
    ret = {"ev": "fit.return", "x": [L(2.25), L(0.5)], "fun": L(11.5), "fun_ulps": 0}
    good = {"id": 1, "label": "synthetic", "events": [shim, raw, ret]}
    bad_ret = dict(ret, x=[L(2.25), L(0.5000000001)])
    bad = {"id": 2, "label": "synthetic-corrupted", "events": [shim, raw, bad_ret]}
    acc, rej = tracecheck.check("TraceFit", [good, bad], constants={"MaxUlps": 64}, tag="selftest")
    ok = acc == {1} and len(rej) == 1 and rej[0][0] == 2 and rej[0][1] == 2
    return ok, {"accepted": sorted(acc), "rejected": rej}


def main(ids):
    results = []
    ok, info = corrupt_trace()
    print(("PASS" if ok else "FAIL"), "trace corruption: fixed value off by 1e-10 in fit.return ->", info)
    results.append(ok)
    patches = []
    for mdir in sorted((VERIF / "mutants").glob("C*")):
        for p in sorted(mdir.glob("*.diff")):
            patches.append((mdir.name, p, None))
    for sdir in sorted((VERIF / "seeded").glob("C*")):
        meta = sdir / "meta.json"
        if meta.exists() and (sdir / "patch.diff").exists():
            m = json.loads(meta.read_text())
            for c in m.get("caught_by_checks", []):
                patches.append((c, sdir / "patch.diff", sdir.name))
    for prop, p, sid in patches:
        if ids and prop not in ids:
            continue
        rc, first = run_patched(p, prop)
        good = rc == 1
        print(("PASS" if good else "FAIL"), f"{prop} vs {p.relative_to(VERIF)}: exit {rc} {first}")
        results.append(good)
    subprocess.run(["git", "-C", str(VERIF), "checkout", "--", "evidence"], stdout=subprocess.DEVNULL, stderr=subprocess.DEVNULL)
    shutil.rmtree(VERIF / "replays", ignore_errors=True)
    return 0 if all(results) else 1
