"""Worker side of C15: rewrite programs of Rewrites.tla; inference on the original and on the rewritten workspace."""
import json
import math

import hfreplay
import names
from common import frac

LN2PI = math.log(2 * math.pi)


def build(pyhf, spec_abs):
    case = {"spec": spec_abs}
    spec, poi = hfreplay.concrete_spec(case, None)
    return pyhf.Model(spec, poi_name=poi), spec


def observed(model0, seedno):
    """integer-ish observations near the nominal expectation of the original model, per (channel name, bin)"""
    tl_nom = model0.expected_actualdata(model0.config.suggested_init())
    import pyhf  # noqa: only for tolist of the already-selected backend object
    vals = [float(x) for x in pyhf.tensorlib.tolist(tl_nom)]
    out = {}
    for c in model0.config.channels:
        sl = model0.config.channel_slices[c]
        out[c] = [float(round(v * (1.0 + 0.06 * ((i + seedno) % 3 - 1)) + (i % 2))) for i, v in enumerate(vals[sl])]
    return out


def replay(pyhf, backend, precision, chunk, seed, optimizers=("scipy",), with_limits=False):
    out = {"n": 0, "nontrivial": 0, "findings": [], "compared": 0, "discarded": 0, "maxdev": {}}
    tl = pyhf.tensorlib

    def add(key, detail, tags):
        if len(out["findings"]) < 25:
            out["findings"].append(("C15", key, detail, tags))

    def dev(name, a, b, scale=1.0):
        d = abs(a - b) / max(scale, 1e-12)
        out["maxdev"][name] = max(out["maxdev"].get(name, 0.0), d)
        return d
    for li, line in enumerate(chunk):
        case = json.loads(line)
        ops = [p["op"] for p in case["prog"]]
        tags = [f"op:{o}" for o in ops] + [f"backend:{backend}"]
        det = {"seed": case["seed"], "prog": case["prog"]}
        try:
            m0, s0 = build(pyhf, case["orig"])
            m1, s1 = build(pyhf, case["final"])
        except Exception as e:  # noqa: BLE001
            add(f"rewritten workspace does not build: {type(e).__name__}: {e}", det, tags + ["build"])
            continue
        out["n"] += 1
        obs0 = observed(m0, case["seed"])
        # data of the rewritten model through the bin correspondence
        data0 = [v for c in m0.config.channels for v in obs0[c]] + list(m0.config.auxdata)
        bm = {}
        for ci, ch in enumerate(case["final"]["channels"]):
            bm[names.CHANNELS[ch["name"]]] = [obs0[names.CHANNELS[old[0]]][old[1] - 1] for old in case["bmap"][ci]]
        data1 = [v for c in m1.config.channels for v in bm[c]] + list(m1.config.auxdata)
        scale = float(frac(case["scale"]))
        nnull = sum(1 for n, o in case["pmap"] if o == 0)
        mu0 = 1.0
        mu1 = mu0 / scale
        # keep the POI range equivalent under rescaling
        b0 = m0.config.suggested_bounds()
        b1 = m1.config.suggested_bounds()
        b1[m1.config.poi_index] = (b0[m0.config.poi_index][0] / scale, b0[m0.config.poi_index][1] / scale)
        i0, i1 = m0.config.suggested_init(), m1.config.suggested_init()
        i1[m1.config.poi_index] = i0[m0.config.poi_index] / scale
        for opt in optimizers:
            pyhf.set_backend(backend, opt, precision=precision)
            try:
                p0, f0 = pyhf.infer.mle.fit(data0, m0, return_fitted_val=True)
                p1, f1 = pyhf.infer.mle.fit(data1, m1, init_pars=i1, par_bounds=b1, return_fitted_val=True)
                f0, f1 = float(tl.tolist(f0)), float(tl.tolist(f1))
                h0 = pyhf.infer.hypotest(mu0, data0, m0, return_expected_set=True)
                h1 = pyhf.infer.hypotest(mu1, data1, m1, init_pars=i1, par_bounds=b1, return_expected_set=True)
                c0 = [float(tl.tolist(h0[0]))] + [float(tl.tolist(x)) for x in h0[1]]
                c1 = [float(tl.tolist(h1[0]))] + [float(tl.tolist(x)) for x in h1[1]]
                q0 = float(tl.tolist(pyhf.infer.test_statistics.qmu_tilde(mu0, data0, m0, i0, b0, m0.config.suggested_fixed())))
                q1 = float(tl.tolist(pyhf.infer.test_statistics.qmu_tilde(mu1, data1, m1, i1, b1, m1.config.suggested_fixed())))
            except Exception as e:  # noqa: BLE001
                add(f"inference failed after the rewrite: {type(e).__name__}: {e}", det, tags + ["exception", f"opt:{opt}"])
                continue
            # sensitivity requirement of the property: median expected CLs below 0.9
            if c0[3] >= 0.9 or any(math.isnan(x) for x in c0 + c1):
                out["discarded"] += 1
                continue
            out["compared"] += 1
            mu_hat0 = float(tl.tolist(p0)[m0.config.poi_index])
            mu_hat1 = float(tl.tolist(p1)[m1.config.poi_index])
            d = dict(det, optimizer=opt, nll=[f0, f1], cls=[c0, c1], q=[q0, q1], muhat=[mu_hat0, mu_hat1], scale=scale, null_systs=nnull)
            tol_f = 2e-4 if opt == "scipy" else 5e-3
            if dev("nll", f1 - nnull * LN2PI, f0) > tol_f:
                add("maximised likelihood changes under a likelihood-preserving rewrite (beyond the constant of added constraint terms)", d, tags + ["nll", f"opt:{opt}"])
            elif dev("q", q1, q0) > 2 * tol_f:
                add("test statistic changes under a likelihood-preserving rewrite", d, tags + ["q", f"opt:{opt}"])
            elif max(dev("cls", a, b, max(abs(b), 1e-3)) for a, b in zip(c1, c0)) > (5e-3 if opt == "scipy" else 5e-2):
                add("CLs (observed / expected band) changes under a likelihood-preserving rewrite", d, tags + ["cls", f"opt:{opt}"])
            elif dev("muhat", mu_hat1 * scale, mu_hat0, max(abs(mu_hat0), 0.1)) > 2e-2:
                add("fitted signal strength does not transform covariantly under the rewrite", d, tags + ["muhat", f"opt:{opt}"])
        if with_limits and li % 3 == 0:      # six root searches per workspace pair: a third of the cases
            pyhf.set_backend(backend, "scipy", precision=precision)
            try:
                ul0 = pyhf.infer.intervals.upper_limits.upper_limit(data0, m0, level=0.05)
                ul1 = pyhf.infer.intervals.upper_limits.upper_limit(data1, m1, level=0.05, init_pars=i1, par_bounds=b1) if False else \
                    pyhf.infer.intervals.upper_limits.upper_limit(data1, m1, level=0.05)
                o0, o1 = float(tl.tolist(ul0[0])), float(tl.tolist(ul1[0]))
                if dev("limit", o1 * scale, o0, abs(o0)) > 5e-3:
                    add("upper limit does not transform covariantly under the rewrite (limit x k must be unchanged)", dict(det, limits=[o0, o1], scale=scale), tags + ["limit"])
            except Exception as e:  # noqa: BLE001
                out["discarded"] += 1
        if len(ops) >= 2:
            out["nontrivial"] += 1
    return out
