"""Binding B, source (ii): run test files of the repository under the tracer (hooks on) and cut the trace into
per-test backend traces (TraceBackend.tla) and per-fit traces (TraceFit.tla)."""
import json
import os
import subprocess
from pathlib import Path

import lanes
from backend_replay import to_trace
from common import PY, REPO, VERIF, pyhf_src, workdir

L = lanes.limbs


def run_tests(files, tag, timeout=3000, extra=()):
    d = workdir(tag)
    tr = d / "suite.ndjson"
    env = dict(os.environ, PYHF_VERIF="1", PYHF_VERIF_TRACE=str(tr),
               PYTHONPATH=os.pathsep.join([pyhf_src(), str(VERIF / "harness" / "pytest_plugin"), str(VERIF / "harness")]), OMP_NUM_THREADS="2")
    cmd = [PY, "-m", "pytest", "-q", "-p", "no:cacheprovider", "-p", "verif_trace", "--timeout=900", "-x" if False else "-q", *extra, *files]
    p = subprocess.run(cmd, cwd=REPO, env=env, stdout=subprocess.PIPE, stderr=subprocess.STDOUT, text=True, timeout=timeout)
    recs = []
    if tr.exists():
        with open(tr) as f:
            for line in f:
                try:
                    recs.append(json.loads(line))
                except Exception:  # noqa: BLE001
                    pass
        tr.unlink()
    try:
        d.rmdir()
    except OSError:
        pass
    summary = (p.stdout.strip().splitlines() or ["?"])[-1]
    return recs, summary


def split(recs):
    """-> list of (nodeid, start record, [records], failed)"""
    tests, cur = [], None
    for r in recs:
        if r["ev"] == "test.start":
            cur = (r["nodeid"], r, [], None)
        elif r["ev"] == "test.end":
            if cur is not None:
                tests.append((cur[0], cur[1], cur[2], bool(r.get("failed"))))
            cur = None
        elif cur is not None:
            cur[2].append(r)
    return tests


def fit_traces(tests, skip_failed=True):
    """one trace per test: the sequence of its fit records (order lane); the honest-objective clause cannot be
    re-evaluated here (model and data are the test's), fun_ulps is set to 0"""
    out = []
    for nodeid, start, recs, failed in tests:
        if failed and skip_failed:
            continue
        evs = []
        for r in recs:
            ev = r["ev"]
            if not ev.startswith("fit."):
                continue
            try:
                e = {"ev": ev}
                if ev == "fit.shim":
                    e.update(npars=r["npars"], init=[L(x) for x in r["init"]], bounds=[[L(a), L(b)] for a, b in r["bounds"]],
                             fixed_vals=[[k, L(v)] for k, v in r["fixed_vals"]], do_grad=r["do_grad"], do_stitch=r["do_stitch"],
                             x0=[L(x) for x in r["x0"]], vbounds=[[L(a), L(b)] for a, b in r["vbounds"]],
                             mfixed=[[k, L(v)] for k, v in r["mfixed"]])
                elif ev == "fit.raw":
                    e.update(x=[L(x) for x in r["x"]], fun=L(r["fun"]), success=r["success"])
                elif ev == "fit.return":
                    e.update(x=[L(x) for x in r["x"]], fun=L(r["fun"]), fun_ulps=0)
            except (ValueError, TypeError):      # NaN / None in a record: not representable in the order lane
                evs = None
                break
            evs.append(e)
        if evs:
            out.append({"id": 0, "label": nodeid, "events": evs})
    return out


def backend_traces(tests):
    out = []
    for nodeid, start, recs, failed in tests:
        if start.get("registry", -1) < 0 or not any(r["ev"].startswith("set_backend") or r["ev"] in ("events.subscribe", "fit.shim") for r in recs):
            continue
        t = to_trace(0, (start["backend"], start["precision"]), start["registry"], recs, init_opt=start.get("optimizer", "scipy"))
        t["label"] = nodeid
        out.append(t)
    return out


def hypotest_traces(tests, skip_failed=True):
    """one trace per asymptotic hypotest call a test made (ht.call ... ht.return bracket from the plugin's observer)"""
    out = []
    for nodeid, start, recs, failed in tests:
        if failed and skip_failed:
            continue
        cur = None
        k = 0
        for r in recs:
            ev = r["ev"]
            if ev == "ht.call":
                cur = {"call": r, "fits": []}
            elif ev == "ht.return" and cur is not None:
                c = cur["call"]
                cur_ = cur
                cur = None
                if c["calc"] != "asymptotics" or c["poi"] is None or not r.get("asimov"):
                    continue
                try:
                    evs = [{"ev": "ht.call", "kind": c["kind"], "calc": c["calc"], "ntoys": 0, "mu": L(c["mu"]), "poi": c["poi"],
                            "obs": [L(x) for x in c["obs"]], "asimov": [L(x) for x in r["asimov"]], "sig": [], "bkg": [],
                            "tail": c["tail"], "exp": c["exp"], "expset": c["expset"], "calcflag": c["calcflag"]}]
                    for f in cur_["fits"]:
                        e = {"ev": f["ev"]}
                        if f["ev"] == "fit.shim":
                            e.update(npars=f["npars"], init=[L(x) for x in f["init"]], bounds=[[L(a), L(b)] for a, b in f["bounds"]],
                                     fixed_vals=[[i, L(v)] for i, v in f["fixed_vals"]], do_grad=f["do_grad"], do_stitch=f["do_stitch"],
                                     x0=[L(x) for x in f["x0"]], vbounds=[[L(a), L(b)] for a, b in f["vbounds"]],
                                     mfixed=[[i, L(v)] for i, v in f["mfixed"]], data=[L(x) for x in f["data"]])
                        elif f["ev"] == "fit.raw":
                            e.update(x=[L(x) for x in f["x"]], fun=L(f["fun"]), success=f["success"])
                        elif f["ev"] == "fit.return":
                            e.update(x=[L(x) for x in f["x"]], fun=L(f["fun"]), fun_ulps=0)
                        else:
                            continue
                        evs.append(e)
                    evs.append({"ev": "ht.return", "layout": r["layout"]})
                except (ValueError, TypeError):
                    continue
                k += 1
                out.append({"id": 0, "label": f"{nodeid}#{k}", "events": evs})
            elif cur is not None and ev.startswith("fit."):
                cur["fits"].append(r)
    return out


def _fit_event(f):
    e = {"ev": f["ev"]}
    if f["ev"] == "fit.shim":
        e.update(npars=f["npars"], init=[L(x) for x in f["init"]], bounds=[[L(a), L(b)] for a, b in f["bounds"]],
                 fixed_vals=[[i, L(v)] for i, v in f["fixed_vals"]], do_grad=f["do_grad"], do_stitch=f["do_stitch"],
                 x0=[L(x) for x in f["x0"]], vbounds=[[L(a), L(b)] for a, b in f["vbounds"]],
                 mfixed=[[i, L(v)] for i, v in f["mfixed"]])
    elif f["ev"] == "fit.raw":
        e.update(x=[L(x) for x in f["x"]], fun=L(f["fun"]), success=f["success"])
    elif f["ev"] == "fit.return":
        e.update(x=[L(x) for x in f["x"]], fun=L(f["fun"]), fun_ulps=0)
    return e


def teststat_traces(tests, skip_failed=True, per_test=40):
    """one trace per test-statistic call a repository test made (ts.call ... ts.return bracket from the plugin's observer, the H4 records
    of its two fits in between), in the format of TraceTestStat.tla; only 64b sessions (d = f1 - f2 is re-formed here in binary64).
    Calls that did not return (refusals, warnings turned into errors) leave no bracket and are dropped."""
    out = []
    for nodeid, start, recs, failed in tests:
        if (failed and skip_failed) or start.get("precision") != "64b":
            continue
        cur, k = None, 0
        prec_changed = False
        for r in recs:
            ev = r["ev"]
            if ev.startswith("set_backend"):
                prec_changed = True      # the test switched backend/precision itself: the start record no longer tells the precision
            if ev == "ts.call":
                cur = {"call": r, "fits": []}
            elif cur is not None and ev.startswith("fit."):
                cur["fits"].append(r)
            elif ev == "ts.return" and cur is not None:
                c, fits = cur["call"], cur["fits"]
                cur = None
                if prec_changed or k >= per_test or c["poi"] is None:
                    continue
                rets = [f for f in fits if f["ev"] == "fit.return"]
                if len(rets) != 2:
                    continue
                try:
                    evs = [{"ev": "ts.call", "kind": c["kind"], "mu": L(c["mu"]), "poi": c["poi"], "held": [[i, L(v)] for i, v in c["held"]]}]
                    evs += [_fit_event(f) for f in fits if f["ev"] in ("fit.shim", "fit.raw", "fit.return")]
                    f1, f2 = rets[0]["fun"], rets[1]["fun"]
                    evs.append({"ev": "ts.return", "result": L(r["result"]),
                                "pars1": [L(x) for x in r.get("pars1", rets[0]["x"])], "pars2": [L(x) for x in r.get("pars2", rets[1]["x"])],
                                "f1": L(f1), "f2": L(f2), "d": L(f1 - f2)})
                except (ValueError, TypeError):
                    continue
                k += 1
                out.append({"id": 0, "label": f"{nodeid}#{k}", "events": evs})
    return out
