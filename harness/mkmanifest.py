"""Single source of truth for MANIFEST.json (validated against the schema on every write)."""
import json
import sys
from pathlib import Path

VERIF = Path(__file__).resolve().parent.parent
BASELINE_OFF = "cd /repo && env -u PYHF_VERIF /venv/bin/python -m pytest -ra -q -p no:cacheprovider --timeout=900 --continue-on-collection-errors"

CHECKS = {
    "C01": dict(engine="hfmodel", design="4/C01",
                text="TLC exhaustively checks, over every well-formed specification reachable with a bounded number of modifier placements (all 7 modifier types, shared names, 1-2 channels/samples/bins, 6 interpolation/clipping settings, 3 parameter points, batch 1 and 2), that the step-by-step transcription of pyhf's mega-channel construction refines the HistFactory rate formula (invariants Refines, Untouched); a seeded fraction of the same states is replayed into the real pyhf.Model (shuffled listing order, two backends quick / four backends and 32b thorough) and the rates pyhf reports are compared with the exact rationals of the definition layer through the layout pyhf itself reports. Model checking is the right level because the property is about index bookkeeping over all model shapes, which is finite-state once values are distinguishable.",
                note="trusted: TLC, exactness of Rat.tla (overflow aborts), the value/name mapping of harness/hfreplay.py; bounded by MaxPlace<=2 (quick) / 3 (thorough), 2 channels, 2 samples, <=2 bins; normsys only at integer alpha (exact lane)",
                technique="TLA+ refinement (Impl layer = Def layer) checked by TLC + spec-to-code replay of TLC states"),
    "C02": dict(engine="hfmodel", design="4/C02",
                text="Same state space as C01; TLC checks that the implementation-shaped constraint bookkeeping (running data index, Gaussian/Poisson split, viewer pairing) yields exactly the definition's bag of terms, one per constrained component (invariant TermsRefine); replay compares pyhf's logpdf, mainlogpdf, constraint_logpdf, pdf and expected_auxdata with the mpmath evaluation of the term bag on data whose auxiliary entries all differ from nominal and from each other.",
                note="trusted: TLC, mpmath leaves (log Poisson via loggamma, log Normal); cases with a zero Poisson rate are skipped for the numeric comparison (log 0); tolerance 1e-10 relative (64b)",
                technique="TLA+ term-bag refinement checked by TLC + replay with symbolic leaves"),
    "C10": dict(engine="hfmodel", design="4/C10",
                text="The implementation layer of HFModel.tla carries the batch stride (row*npars+index in every viewer and access field); TLC checks RowIndep (row r of a batch of two distinct rows equals the unbatched evaluation of row r) in every state, and the replay compares Model(batch_size=2).expected_actualdata/logpdf/sample shape with the per-row exact rates.",
                note="batch size 2 in the exhaustive run (sizes up to 8 only in the thorough replay); trusted as C01",
                technique="TLC invariant RowIndep on the batched implementation layer + replay"),
    "C12": dict(engine="hfmodel", design="4/C12",
                text="TLC checks Layout (slices tile in creation order, one init/bounds/fixed entry per component, one auxiliary datum per constrained component) on every state; replay checks the same statements on the layout pyhf REPORTS (any order is accepted), published defaults and measurement overrides verbatim, POI index, untouched caller specification, and independence of the (shuffled) listing order because every shuffled model must reproduce the exact rates.",
                note="the implementation-shaped creation order is only a MODEL-DRIFT prediction; overrides explored: lumi settings (inits, bounds, auxdata, sigmas) in the TLC space, further overrides in the workspace check",
                technique="TLC invariant Layout + replay of reported configuration"),
    "C03": dict(engine="hfinterp", design="4/C03",
                text="HFInterp.tla states the five published piecewise functions with exact rationals; TLC evaluates as ASSUMEs, over a 12-triple grid (symmetric, asymmetric, inverted, one-sided, null, non-dyadic), the anchors (neutral at 0, up at +1, down at -1), value continuity at every seam, slope continuation of code 2, first/second-derivative continuity of code 4p, and A(alpha0)*AInv(alpha0)=Id6 for alpha0 in {1/2,1,2} with AInv transcribed from pyhf's literal (which is value/C1/C2 continuity of code 4). MC_HFInterp.tla is the state machine of one interpolator object under calls of varying alpha-set shape and backend switches (hidden state: cached shape, backend tag); TLC checks CachesMatchAtUse and that the branch each class takes (comparison operators as coded) yields the published value for every comparison outcome. A seeded share of all histories is replayed on the real classes: exact/symbolic value, bit-equality with a fresh interpolator, agreement of vectorised and scalar classes, continuity at floating-point neighbours of the breakpoints.",
                note="trusted: TLC, mpmath pow/log; alpha restricted to a 15-point rational grid plus nextafter/subnormal neighbours of the breakpoints; triples from the 12-point grid; code-4 core compared through the specification's AInv",
                technique="TLA+ ASSUMEs over exact rationals + TLC history machine + replay of TLC behaviours"),
    "C04": dict(engine="prob", design="5 and 15/C04", level="exploration",
                text="Prob.tla carries what a TLA+ model can carry of the probability primitives: the decimal argument lattice per precision (counts 0..1e8 integer and real, rates 0 / smallest denormal .. 1e8, sigma over 20 orders of magnitude, cdf arguments -38..38), the case split of the Poisson log-mass (rate->0 limits against the Gamma-continued formula), the terms of the error budget of each case, and the relations between calls that hold whatever the real values are (variants agree, Poisson recurrence, Phi reflection and monotonicity, location/scale equivariance on exactly representable triples). MC_Prob.tla is the call-session machine SetBackend -> Call; TLC checks the case split, that every argument lies inside the selected floating-point format, the ordered symmetric cdf chain and the exact representability of the equivariance triples, and prints every Call state as an obligation. The harness discharges every obligation on numpy/jax/pytorch/tensorflow x 64b/32b; real-number values of the symbolic term trees come from mpmath at the binary arguments actually passed. Exploration, not model checking: the specification decides the case structure and relations, the numeric oracle is the leaf evaluator.",
                note="trusted: mpmath (60 digits) as the oracle of real values; 'a few units of rounding' taken as 32 eps (1 + sum|terms|), never stricter than the property; arguments are lattice points (accuracy between them is not decided); three recorded findings (jax and tensorflow do not honour denormal rates; tensorflow-probability's Normal cancels for large close x, mu)",
                technique="TLA+ case lattice and call-session machine (TLC) + obligations discharged on every backend with an mpmath leaf evaluator"),
    "C05": dict(engine="fit", design="4/C05",
                text="Fit.tla is the fit pipeline as a state machine (validate, shim strip-or-pass, nondeterministic but constrained minimiser, success assertion, stitch); TLC checks InBounds, FixedHeld, FreeFromMinimiser (stitch is the inverse of strip for every fixed mask), NoSuccessNoReturn exhaustively for 3 parameters. FitClosed.tla computes exact rational optima of two counting families. Binding B: hook H4 records every real fit (what shim received/produced, what the minimiser returned, what the caller got) and TLC validates each trace against TraceFit.tla in the order lane (exact comparisons of observed floats), including the honest-objective clause (re-evaluation through Model.logpdf). Binding A: real fits over optimiser x do_grad x do_stitch x backend must attain the exact optimum on the closed-form families and beat every point of the competitor set (the minimiser's choice set of Fit.tla) on a 3-parameter nuisance model. Protocol clauses are model-checked; global optimality is explored, not decided (DESIGN section 5).",
                note="optimality beyond closed forms / finite competitor sets is not decided; tolerances: SLSQP 1e-5+1e-7|f|, MIGRAD 1e-3 (1e-2 at a bound optimum), calibrated on the unchanged tree and frozen; KF-C05-allfixed is a recorded finding",
                technique="TLA+ protocol state machine (TLC) + TLC validation of hook traces (order lane) + closed-form replay"),
    "C06": dict(engine="teststat", design="4/C06",
                text="TestStat.tla enumerates the complete case table of the five statistics over order facts (cmp(muhat,mu), cmp(muhat,0), cmp(mu,0), sign of the likelihood-ratio difference) and TLC proves that the coded program (conditional fit at mu or at 0 for q0, free fit, subtraction, clip at 0, one-sided zeroing with the operators as written) equals the definition, is non-negative and tests the right value. Scenarios from FitClosed.tla (counts above/at/below the hypothesis, zero counts, zero and negative POI lower bound) are run through the real statistics and compared with the exact closed-form value; every call (closed-form models and a nuisance model) is recorded (driver-side ts.call/ts.return around the H4 fit records) and TLC decides on the observed floats, in the order lane, that the first fit fixed the POI at mu (0 for q0), the second left it free, the result is EXACTLY Stat(kind, muhat, mu, fun1-fun2), and the returned parameters are those of the two fits.",
                note="closed-form value comparison is skipped within 1e-3 of muhat=mu (branch decided by fit noise; the trace check decides it exactly on the observed values); tilde variants exercised with lower bound 0, non-tilde with lower bound -5",
                technique="TLA+ case-table refinement (TLC) + closed-form replay + TLC trace validation in the order lane"),
    "C08": dict(engine="hypotest", design="4/C08",
                text="Hypotest.tla issues the calls of a hypothesis test one at a time (HypotestDefs.Plan: which POI treatment, which dataset) for all 16 flag sets x {q, qtilde, q0} x {asymptotics, toybased} x prerequisite faults; TLC checks AsimovFromBkgFit, StatisticsOnRightDataset, ToyProtocol, RefusedWithoutFits and the layout facts. Every case is executed on the real hypotest: refusals (UnspecifiedPOI / InvalidModel), identity of each returned entry with the calculator's own CLs+b, CLb, CLs, expected values, and the complete hook trace (every fit with its dataset) is validated by TLC against the plan in the order lane - the Asimov dataset must be exactly Model.expected_data of the recorded background-only (signal for q0) conditional fit, toy datasets exactly make_pdf(conditional fit of the respective hypothesis).sample re-generated under the same seed. On the closed-form families of FitClosed.tla the observed CLs/p0 and the median expected CLs are compared with the analytic asymptotic values.",
                note="analytic comparison rtol 1e-4 (fit tolerance); band values beyond the median are left to C07; toy reproduction assumes numpy's global generator is consumed only by the two sample() calls",
                technique="TLA+ protocol machine (TLC) + TLC trace validation of every fit of every hypotest + closed-form replay"),
    "C07": dict(engine="asymptotics", design="4/C07",
                text="Asymptotics.tla works with r = sqrt(q), rA = sqrt(qA) on a perfect-square grid (plus thirds and large values up to the underflow boundary) so that every Phi-argument is an exact rational; MC_Asymptotics.tla is the calculator protocol as a state machine (TestStatistic transform with the qtilde two-branch rule, Distributions, PValues, ExpectedPValues, incl. the distributions-before-statistic error path); TLC checks ArgsEqual (coded route = paper route for q, qtilde, q0), SeamContinuous, Ordering, BandEqualsPaper, BandMonotone, ClippedOnlyClips, NeverNaN. Every case is replayed on the real AsymptoticCalculator (get_test_stat stubbed to return TLC's q and qA so that the real transform runs) and on AsymptoticTestStatDistribution/hypotest, compared with mpmath Phi of the exact argument at rtol 1e-10, with the seam probed at +-1, +-2 ulp.",
                note="qA > 0 and tails representable in double precision (|argument| < 37) as the property states; built by a sub-agent under my review",
                technique="exact Phi-argument algebra in TLA+ (TLC) + replay of the calculator with stubbed statistics"),
    "C09": dict(engine="upperlimit", design="4/C09",
                text="UpperLimit.tla models six ordered piecewise-linear CLs curves with exact crossings; MC_UpperLimit.tla is the scan as a state machine: dispatch (level forwarded in both modes), cache, bracket extension by halving/doubling, six root searches with BestBracket transcribed from the insertion-ordered cache, and the grid mode with numpy's interp loop on the reversed arrays. TLC checks LevelUsedIsLevelPassed, TomsOK, BracketValid, ResultInCrossingCell, GridOK, BandOrdered, ResultsAreEvaluations and, as a self-test, that the instance dropping the level is rejected. Replay: hypotest inside upper_limits is replaced by a stub evaluating TLC's curves exactly; the real upper_limit, toms748_scan, linear_grid_scan and deprecated upperlimit run and are compared with the exact crossings; a handful of real-model scans check CLs(limit) = level.",
                note="numpy backend only (the property has no backend dimension); crossings sitting exactly on an extended scan bound are outside the property (counted); built by a sub-agent under my review",
                technique="TLA+ scan state machine over abstract monotone curves (TLC) + replay with a curve stub + real scans"),
    "C13": dict(engine="hfgrad", design="4/C13",
                text="HFGrad.tla derives d lambda/d theta for every bin and parameter component by the product/chain rule over the declared modifiers (exact rationals; the exponential normsys factor contributes ln(base) atoms), over the specification space of MC_HFModel at differentiable points with positive rates; TLC checks GradLocal and emits the pieces; the leaf evaluator forms d(2NLL)/d theta including the constraint terms; shim(twice_nll, do_grad=True) is evaluated on pytorch, jax and tensorflow x do_stitch x fixed masks and must return the plain objective value and the exact gradient (1e-8 relative at 64b).",
                note="normsys only in the exponential regime at integer alpha; the code-4 core and the kinks of codes 0/1 at alpha=0 are excluded (covered through C03's derivative-continuity obligations)",
                technique="exact symbolic differentiation in TLA+ (rationals + ln atoms) + replay of the value-and-gradient functions"),
    "C15": dict(engine="rewrites", design="4/C15",
                text="Rewrites.tla makes the likelihood-preserving rewrites ACTIONS on specification values (permute every list, rename parameter/channel/sample with order-changing names, add a zero-yield sample, add a null histosys/normsys, split a channel's bins into two channels, merge samples with identical modifiers, rescale the signal by k) and carries the correspondence (parameter map, bin map, POI scale); TLC proves for every composition of up to MaxOps rewrites from two seed workspaces that rates agree bin by bin at corresponding parameter points (Preserves), bins are partitioned and constrained parameters preserved - so each emitted program is likelihood preserving under the specification's semantics and a disagreement seen in the code is the code's. The rewritten workspaces are built for real and mle.fit (maximised likelihood up to ln(2 pi) per added constraint), qmu_tilde, hypotest with the expected band (thorough: upper limits, minuit, pytorch, jax) are compared with the original, covariantly under signal rescaling.",
                note="split restricted to channels without bin-wise parameters; tolerances calibrated on the unchanged tree (largest deviation recorded: 2NLL 7e-10, CLs 2e-7) and frozen at 2e-4 / 5e-3; insensitive models (median expected CLs >= 0.9) discarded and counted",
                technique="TLA+ rewrite actions with a TLC-proved preservation invariant + replay of rewrite programs through the inference chain"),
    "C17": dict(engine="patchset", design="4/C17",
                text="PatchSet.tla models JSON trees (key order is data), canonical form, JSON pointers and the six RFC-6902 operations; the definition layer has two maps byName/byValues, the implementation layer pyhf's single dictionary as coded. MC_PatchSet.tla registers patches from a pool that contains the words pyhf uses internally, then looks up (names, tuples, lists, wrong length/type), verifies (every single-leaf corruption and key permutation, several digest algorithms, stale digests) and applies/re-applies operation lists; TLC checks RegisterIsAccept, TwoMapsExact, LookupExact, VerifyIffRecorded, ApplyPure, ImplEqDef. Every state is replayed on pyhf.PatchSet / pyhf.utils.digest.",
                note="hash injectivity on the explored documents is assumed (collisions would surface as replay mismatches); an unhashable key raising TypeError instead of InvalidPatchLookup is tolerated and counted; built by a sub-agent under my review",
                technique="TLA+ JSON-patch semantics and lookup maps (TLC) + replay of every state"),
    "C14": dict(engine="toys", design="4/C14",
                text="Empirical.tla is the tail-fraction state machine (samples appended one toy at a time, then an observed value): TLC checks that the coded where/sum/divide equals the exact rational fraction, lies in [0,1], is monotone, counts ties and behaves outside the sample range, and every state is replayed on EmpiricalDistribution.pvalue (flat and column tensors, several backends). The toy-based hypotests of the Hypotest.tla case set are executed for real and their hook traces validated by TLC against TraceHypotest.tla: each toy dataset must be exactly make_pdf(conditional best fit of the respective hypothesis).sample re-generated under the same seed, signal toys first, each followed by its conditional and free fit. Toy estimates of CLs+b and CLb on one-bin counting models are compared with exactly enumerated tail sets (closed-form qtilde, mpmath) within 5 binomial sigma; pseudo-data shape, integrality and non-negativity are checked.",
                note="the clause on per-bin mean/variance and auxiliary distributions is a statement about the RNG libraries: 6-sigma smoke test only (exploration); toy reproduction relies on numpy's global generator",
                technique="TLA+ tail-fraction machine (TLC) + TLC validation of toy-protocol traces + exact tail enumeration"),
    "C16": dict(engine="wsops", design="4/C16",
                text="WorkspaceOps.tla defines combine (4 joins x merge_channels), prune, rename and sorted twice: as the documented semantics (definition) and as workspace.py does it function by function; MC_WorkspaceOps.tla enumerates workspace pairs (disjoint / identical / conflicting channels, observations, measurements, parameter configs, versions) and operation sequences; TLC checks DisjointKeepsAll (incl. main-term and constrained-parameter set equalities), Refusals, PrimaryWins, PruneExact, RenameInverse, SortedLaws, OutputsValid and ImplEqDef. Every case is replayed on pyhf.Workspace: result JSON or exception class against the definition, inputs deep-compared, outputs schema-validated, and the likelihood clauses on real models (main log-likelihood of a disjoint combine is the sum, constraints once, prune/rename/sorted leave logpdf unchanged).",
                note="built by a sub-agent under my review; colliding renamings, dangling POI after pruning and parameter-free pruned models are outside the property and skipped (counted)",
                technique="TLA+ definition vs transcription of workspace.py (TLC) + replay of every state on pyhf.Workspace"),
    "C18": dict(engine="xmlio", design="4/C18",
                text="XmlIO.tla defines export and import conversions (relative/absolute uncertainties, Lumi/LumiRelErr, NormFactor Val/Low/High, Const names with ROOT prefixes) twice: as the definition demands (RoundTripDef: Import(Export(w)) has the same likelihood terms, POI and constant flags) and as the code does it; MC_XmlIO.tla enumerates a family of exportable workspaces (all modifier types, lumi != 1, fixed parameters, two measurements) and all export/import/clear histories over 2 directories x 2 workspace versions (ImportReadsCurrentFile). Every case and history is replayed on the real file system through writexml/readxml the way json2xml/xml2json call them; the re-imported workspace is compared field by field with the definition and its model's logpdf with the original's at several points assembled by name.",
                note="ROOT histograms are TH1D (doubles): tolerance 1e-9 relative; fixed bin-wise parameters are outside the exportable family (re-import raises 'confusing rootname', noted as candidate in DESIGN); built by a sub-agent under my review",
                technique="TLA+ conversion layer (definition vs implementation) + history machine (TLC) + replay on the file system"),
    "C11": dict(engine="backend", design="4/C11",
                text="Backend.tla models the global backend state and the weak-reference callback registry; set_backend is three separate steps (swap, fire, setup). TLC explores all interleavings of object creation, deletion and switches over 4 backends x 2 precisions x 2 optimisers x default flag with <=3 objects and checks StaleFree, DeadNeverCalled, EventIffChanged, AllLiveCalled, NoDeadAfterFire and the action property DefaultUntouchedUnlessAsked. Binding A: TLC -simulate behaviours over 8 object kinds are stepped through one long-lived pyhf process; after every step the global state and the raw registry length are compared with the specification's post-state and every live model/interpolator/viewer is compared bit-exactly with a fresh one (tensor type too), fits at the end. Binding B: hooks H1/H2 record swap/trigger/call/flush/subscribe events of the same executions and TLC validates every trace against TraceBackend.tla (inferring the unlogged deaths from the logged liveness bits).",
                note="trusted: gc.collect() kills dropped objects; object kinds of the replay are representative; jit caches of opt_jax are exercised only through the fits at the end of behaviours",
                technique="TLC exhaustive interleavings + replay of simulated behaviours + TLC trace validation of hook events"),
    "C19": dict(engine="cli", design="4/C19", level="exploration",
                text="Cli.tla models each sub-command as a function from an option record to the library call it must make (definition: every option named takes effect) and, separately, the call each click function actually forwards (transcription); MC_Cli.tla chooses command, options one at a time, input/output routing, and runs; TLC checks DefSensitive (every non-default option changes the definition's call), ExitIffLibrary, OutputPlanAgrees and ImplForwardsAll over ~630 k states. A seeded share of the Run states is executed with click's CliRunner in-process (plus a subprocess sample), compared with the direct library call for the same inputs: exit status, parsed JSON/text within 1e-6, file output byte-identical to stdout, stdin vs file input, and the backend/optimiser settings observed at the fit.  The TLA+ part is an enumerator and oracle (configuration space), so the level claimed is exploration.",
                note="toy-based cls runs with the ToyCalculator default lowered to 12 toys in both the CLI run and the direct call; subprocess sample excludes toys; built by a sub-agent under my review",
                technique="TLA+ option-to-call specification (TLC) as enumerator and oracle + CliRunner replay"),
    "C20": dict(engine="hfvalidity", design="4/C20", level="fault_enumeration",
                text="MC_HFValidity.tla injects every single structural fault of the classes the property lists (duplicate channel/sample/modifier, sample and modifier-data length, bin-wise modifier shared across bin counts, conflicting constraint class for one name, override of wrong length, undefined POI, lumi without settings; thorough: pairs) at every applicable position of every small well-formed specification; TLC proves each faulty specification violates the property's well-formedness predicate WF and each unfaulted one satisfies it (so refusal is never demanded of a consistent spec); the faulty specifications are replayed through pyhf.Model and Workspace.model and must be refused with an exception class defined in pyhf.exceptions. Fault enumeration is the natural level: the property quantifies over fault classes x positions.",
                note="WF in MC_HFValidity.tla is my formalisation of 'structurally inconsistent'; a staterror name reused by the same sample across channels is deliberately not injected (coherent per-bin model in pyhf, see DESIGN.md); bounded by <=2 placements, 2 channels x 2 samples",
                technique="TLA+ fault-injection actions + TLC (FaultBreaksWF, CleanIsWF) + replay of every faulty state"),
}

NOT_APPLICABLE = []

ALL = [f"C{i:02d}" for i in range(1, 21)]
PENDING_REASON = "not yet claimed: the specification module for this property is still being built (see DESIGN.md section 9); no check is registered yet"


def build():
    checks = []
    for pid, c in CHECKS.items():
        checks.append({
            "property_id": pid,
            "quick_cmd": f"./vf check {pid} --tier quick",
            "thorough_cmd": f"./vf check {pid} --tier thorough",
            "evidence_file": f"/verif/evidence/{pid}.json",
            "replay_cmd_template": "./vf replay {path}",
            "engine": c["engine"],
            "level_claimed": {"category": c.get("level", "model_checking"), "text": c["text"], "design_ref": c["design"]},
            "level_note": c["note"],
            "technique": c["technique"],
        })
    na = list(NOT_APPLICABLE)
    claimed = set(CHECKS) | {x["property_id"] for x in na}
    for pid in ALL:
        if pid not in claimed:
            na.append({"property_id": pid, "reason": PENDING_REASON})
    hooks_commits = json.loads((VERIF / "harness" / "hook_commits.json").read_text()) if (VERIF / "harness" / "hook_commits.json").exists() else []
    m = {
        "version": 1,
        "setup_cmd": "./vf setup",
        "hooks": {"guard": "PYHF_VERIF", "enable": "PYHF_VERIF=1 in the environment of the process importing pyhf from /repo/src (editable install); PYHF_VERIF_TRACE=<file> receives ndjson events",
                  "baseline_off_cmd": BASELINE_OFF, "source_commits": hooks_commits, "add_only": True},
        "engines": [
            {"name": "hfmodel", "path": "spec/HFModel.tla spec/MC_HFModel.tla harness/checks/hf.py harness/hfreplay.py",
             "serves_properties": ["C01", "C02", "C10", "C12"], "kind_free_text": "TLA+ reference model of pyhf.Model (definition layer + implementation-shaped layer), TLC exhaustive check, replay of TLC states into pyhf"},
            {"name": "hfinterp", "path": "spec/HFInterp.tla spec/MC_HFInterp.tla harness/checks/c03.py harness/interp.py",
             "serves_properties": ["C03"], "kind_free_text": "exact-rational ASSUMEs on the interpolation formulas, interpolator history machine, replay on the real classes"},
            {"name": "fit", "path": "spec/Fit.tla spec/FitClosed.tla spec/TraceFit.tla harness/checks/c05.py harness/fit_replay.py harness/tracecheck.py harness/lanes.py",
             "serves_properties": ["C05"], "kind_free_text": "fit protocol state machine, exact closed-form optima, TLC trace validation of H4 hook records"},
            {"name": "teststat", "path": "spec/TestStat.tla spec/TraceTestStat.tla spec/FitClosed.tla harness/checks/c06.py harness/teststat_replay.py",
             "serves_properties": ["C06"], "kind_free_text": "test-statistic case table, closed-form scenarios, trace validation of wiring and exact value"},
            {"name": "hypotest", "path": "spec/HypotestDefs.tla spec/Hypotest.tla spec/TraceHypotest.tla spec/FitClosed.tla harness/checks/c08.py harness/hypotest_replay.py",
             "serves_properties": ["C08"], "kind_free_text": "hypothesis-test protocol machine, trace validation of every fit against the plan, closed-form CLs"},
            {"name": "asymptotics", "path": "spec/Asymptotics.tla spec/MC_Asymptotics.tla harness/checks/c07.py harness/asymptotics_replay.py", "serves_properties": ["C07"], "kind_free_text": "exact Phi-argument algebra, calculator protocol machine, replay"},
            {"name": "upperlimit", "path": "spec/UpperLimit.tla spec/MC_UpperLimit.tla harness/checks/c09.py harness/upperlimit_replay.py", "serves_properties": ["C09"], "kind_free_text": "scan state machine over abstract curves, replay with curve stub"},
            {"name": "hfgrad", "path": "spec/HFGrad.tla spec/MC_HFGrad.tla harness/checks/c13.py harness/grad_replay.py", "serves_properties": ["C13"], "kind_free_text": "exact gradient pieces from the HFModel specification, replay on AD backends"},
            {"name": "rewrites", "path": "spec/Rewrites.tla harness/checks/c15.py harness/rewrites_replay.py", "serves_properties": ["C15"], "kind_free_text": "rewrite actions with preservation invariant, inference replay"},
            {"name": "patchset", "path": "spec/PatchSet.tla spec/MC_PatchSet.tla harness/checks/c17.py harness/patchset_replay.py", "serves_properties": ["C17"], "kind_free_text": "patch-set lookup/verify/apply specification, replay on pyhf.PatchSet"},
            {"name": "toys", "path": "spec/Empirical.tla spec/Hypotest.tla spec/TraceHypotest.tla harness/checks/c14.py harness/toys_replay.py harness/hypotest_replay.py",
             "serves_properties": ["C14"], "kind_free_text": "empirical tail fraction machine, toy protocol trace validation, exact tails"},
            {"name": "wsops", "path": "spec/WorkspaceOps.tla spec/MC_WorkspaceOps.tla harness/checks/c16.py harness/wsops_replay.py",
             "serves_properties": ["C16"], "kind_free_text": "workspace algebra specification (definition + transcription), replay on pyhf.Workspace"},
            {"name": "xmlio", "path": "spec/XmlIO.tla spec/MC_XmlIO.tla harness/checks/c18.py harness/xmlio_replay.py",
             "serves_properties": ["C18"], "kind_free_text": "XML/ROOT conversion and file-cache history specification replayed on the file system"},
            {"name": "backend", "path": "spec/Backend.tla spec/MC_Backend.tla spec/TraceBackend.tla harness/checks/c11.py harness/backend_replay.py harness/tracecheck.py",
             "serves_properties": ["C11"], "kind_free_text": "backend/event-registry state machine, simulated behaviours replayed, hook traces validated by TLC"},
            {"name": "cli", "path": "spec/Cli.tla spec/MC_Cli.tla harness/checks/c19.py harness/cli_replay.py", "serves_properties": ["C19"], "kind_free_text": "option record -> library call specification, CliRunner replay"},
            {"name": "prob", "path": "spec/Prob.tla spec/MC_Prob.tla harness/checks/c04.py harness/prob_replay.py",
             "serves_properties": ["C04"], "kind_free_text": "argument lattice, case split and relations of the probability primitives as a call-session machine; obligations discharged on every backend x precision (mpmath leaves)"},
            {"name": "tensor", "path": "spec/Tensor.tla spec/MC_Tensor.tla harness/checks/xtensor.py harness/tensor_replay.py",
             "serves_properties": ["C01", "C10", "C11", "C14"], "kind_free_text": "EXTRA (./vf extra tensor, not a registered check): tensor-library contract of the structural operations (reshape .. einsum, percentile) as a program machine with algebraic laws, replayed on every backend"},
            {"name": "hfvalidity", "path": "spec/MC_HFValidity.tla harness/checks/c20.py harness/validity.py",
             "serves_properties": ["C20"], "kind_free_text": "TLA+ fault injectors over the HFModel specification space, replayed into pyhf.Model / Workspace.model"},
        ],
        "checks": checks,
        "not_applicable": na,
        "notes": "All checks: ./vf check <ID> --tier quick|thorough; exit 0 held / 1 VIOLATION / 2 machinery failure. TLC runs are cached under .work/cache by spec hash (the specification does not depend on /repo); replays into pyhf always run against /repo's working tree.",
    }
    return m


if __name__ == "__main__":
    import jsonschema
    m = build()
    jsonschema.validate(m, json.load(open("/root/.vp/MANIFEST.schema.json")))
    (VERIF / "MANIFEST.json").write_text(json.dumps(m, indent=1) + "\n")
    print("MANIFEST.json written:", len(m["checks"]), "checks,", len(m["not_applicable"]), "not applicable")
