"""Worker side of the C17 replay: TLC cases of MC_PatchSet.tla driven through pyhf.PatchSet / pyhf.utils.digest.

A case is one state of the specification's state machine (phase sealed / looked / verified / applied) and
carries the document (labels, digest list, patches with their RFC-6902 lists), the query (key, workspace
variant) and what BOTH layers of the specification predict:
    def    the definition layer (the property as stated)      -> decides VIOLATION
    impl   the transcription of src/pyhf/patchset.py           -> disagreement with a property-conforming
                                                                 observation is reported as model drift only
JSON trees of the specification ({"t": "obj", "kv": [[key, node], ...]} ...) become Python dicts in the
listed key order, so key permutations are real permutations of the Python object.
"""
import copy
import json

INTERNAL = ("name", "values")
DIGEST_ALGS = ("sha256", "md5", "sha1", "sha512", "blake2b", "sha3_256")
LABELS = ["x", "y_2"]

_CACHE = {}


# ---------------------------------------------------------------------------------------------------
# specification values -> concrete JSON
def num(v, as_int=False):
    n, d = int(v[0]), int(v[1])
    if d == 1 and as_int:
        return n
    return n / d


def tree(n):
    t = n["t"]
    if t == "obj":
        return {k: tree(c) for k, c in n["kv"]}
    if t == "arr":
        return [tree(c) for c in n["items"]]
    if t == "num":
        return num(n["v"])
    if t == "str":
        return n["s"]
    if t == "null":
        return None
    raise ValueError(f"not a document node: {t}")


def pointer(tokens):
    return "".join("/" + tok.replace("~", "~0").replace("/", "~1") for tok in tokens)


def op_json(o):
    out = {"op": o["op"], "path": pointer(o["path"])}
    if o["op"] in ("add", "replace", "test"):
        out["value"] = tree(o["value"])
    if o["op"] in ("move", "copy"):
        out["from"] = pointer(o["from"])
    return out


def values_json(values, i):
    # integer-valued entries are written as int in even patches and as float in odd ones: 1 and 1.0 are one value
    return [num(v, as_int=(i % 2 == 0)) for v in values]


def concrete_key(key):
    k = key["kind"]
    if k == "str":
        return key["s"]
    if k == "tuple":
        return tuple(num(v, as_int=False) for v in key["t"])
    if k == "list":
        return [num(v, as_int=True) for v in key["t"]]
    if k == "num":
        return num(key["t"][0], as_int=True)
    if k == "none":
        return None
    if k == "strtuple":
        return (key["s"],)
    if k == "nested":
        return (tuple(num(v, as_int=True) for v in key["t"]),)
    if k == "nestedlist":
        return [[num(v, as_int=True) for v in key["t"]]]
    raise ValueError(k)


def build_spec(pyhf, case, recorded):
    digests = {}
    for d in case["digests"]:
        digests[d["alg"]] = pyhf.utils.digest(recorded[d["of"] - 1], algorithm=d["alg"])
    return {
        "metadata": {
            "references": {"hepdata": "ins1234567"},
            "description": "C17 replay document",
            "digests": digests,
            "labels": LABELS[: case["nl"]],
        },
        "patches": [
            {"metadata": {"name": p["name"], "values": values_json(p["values"], i)}, "patch": [op_json(o) for o in p["ops"]]}
            for i, p in enumerate(case["patches"])
        ],
        "version": "1.0.0",
    }


# ---------------------------------------------------------------------------------------------------
def exc_names(pyhf, e):
    """the abstract error classes of the specification an exception belongs to"""
    import jsonpatch
    import jsonpointer

    out = set()
    for cls in ("InvalidPatchLookup", "PatchSetVerificationError", "InvalidPatchSet", "InvalidSpecification"):
        if isinstance(e, getattr(pyhf.exceptions, cls)):
            out.add(cls)
    if isinstance(e, (jsonpatch.JsonPatchException, jsonpointer.JsonPointerException)):
        out.add("JsonPatchError")
    if isinstance(e, TypeError):
        out.add("TypeError")
    if isinstance(e, AttributeError):
        out.add("AttributeError")
    if not out:
        out.add(type(e).__name__)
    return out


def construct(pyhf, spec):
    k = json.dumps(spec)
    hit = _CACHE.get(k)
    if hit is None:
        if len(_CACHE) > 4000:
            _CACHE.clear()
        before = copy.deepcopy(spec)
        try:
            ps = pyhf.PatchSet(spec)
            hit = ("ok", ps, None)
        except Exception as e:  # noqa: BLE001
            hit = ("raised", e, f"{type(e).__name__}: {str(e)[:200]}")
        hit = hit + (json.dumps(spec) == json.dumps(before), spec, k)
        _CACHE[k] = hit
    return hit


def internal_tags(case):
    tags = []
    names = [p["name"] for p in case["patches"]]
    for w in INTERNAL:
        if w in names:
            tags.append(f"patchname:{w}")
    if case["key"]["kind"] == "str" and case["key"]["s"] in INTERNAL and case["phase"] in ("looked", "applied", "reapplied"):
        tags.append(f"key:{case['key']['s']}")
    if tags:
        tags.insert(0, "internal_word")
    return tags


def why_refused(case):
    names = [p["name"] for p in case["patches"]]
    vals = [json.dumps(p["values"]) for p in case["patches"]]
    out = []
    if len(set(names)) < len(names):
        out.append("dup:name")
    if len(set(vals)) < len(vals):
        out.append("dup:values")
    if any(len(p["values"]) != case["nl"] for p in case["patches"]):
        out.append("badlen")
    return out


def same_patch(patch, spec_patch):
    return (patch.name == spec_patch["metadata"]["name"]
            and tuple(patch.values) == tuple(spec_patch["metadata"]["values"])
            and patch.metadata == spec_patch["metadata"]
            and list(patch.patch) == spec_patch["patch"])


def replay(pyhf, backend, precision, chunk, header, seed):
    out = {"n": 0, "nontrivial": 0, "findings": [], "classes": {}, "phases": {}, "impl_agree": 0, "drift": {},
           "blocked": 0, "tolerated": {}, "doc_mutated": 0, "machinery": None, "digest_checks": 0, "applied_valid": 0, "applied_invalid_ws": 0}
    recorded = [tree(r) for r in header["recorded"]]
    assert sorted(header["keyorder"]) == list(header["keyorder"]), "KeyOrder of PatchSet.tla is not Python's sort order"
    w_ref = recorded[0]
    flagged = []

    def add(case, key, detail, tags):
        tags = list(tags) + internal_tags(case)
        flagged.append(1)
        cls = "|".join(tags)
        out["classes"][cls] = out["classes"].get(cls, 0) + 1
        if out["classes"][cls] <= 2 and len(out["findings"]) < 60:
            out["findings"].append(("C17", key, dict(detail, case=case), tags))

    def drift(what):
        # drift = the observation satisfies the property but not the transcription; a case with a finding is not drift
        if not flagged:
            out["drift"][what] = out["drift"].get(what, 0) + 1

    for line in chunk:
        case = json.loads(line)
        phase = case["phase"]
        del flagged[:]
        out["n"] += 1
        out["phases"][phase] = out["phases"].get(phase, 0) + 1
        spec = build_spec(pyhf, case, recorded)
        status, obj, msg, spec_untouched, held_spec, held_text = construct(pyhf, spec)
        def_ok = case["defstatus"] == "ok"
        impl_ok = case["implstatus"] == "ok"
        if not spec_untouched:
            add(case, "PatchSet(spec) modified the document it was given", {"spec": spec}, ["mutates:patchset_spec"])

        # -- the constructor -------------------------------------------------------------------------
        if phase == "sealed":
            if len(case["patches"]) >= 2:
                out["nontrivial"] += 1
            observed_ok = status == "ok"
            if def_ok and not observed_ok:
                names = exc_names(pyhf, obj)
                add(case, f"schema-valid document with pairwise distinct names and value tuples refused: {msg}",
                    {"spec": spec, "exception": msg, "impl_layer_predicts": case["implstatus"]},
                    ["register:refused_valid", "exc:" + "+".join(sorted(names))])
            elif not def_ok and observed_ok:
                add(case, "document with duplicate patch name / duplicate value tuple / wrong tuple length accepted",
                    {"spec": spec}, ["register:accepted_invalid"] + why_refused(case))
            elif not def_ok and "InvalidPatchSet" not in exc_names(pyhf, obj):
                add(case, f"invalid document refused with {msg} instead of InvalidPatchSet", {"spec": spec, "exception": msg},
                    ["register:wrong_exception"] + why_refused(case))
            elif def_ok:
                ps = obj
                problems = []
                if len(ps) != len(spec["patches"]):
                    problems.append(f"len {len(ps)} != {len(spec['patches'])}")
                it = list(ps)
                if len(it) != len(spec["patches"]) or not all(same_patch(p, sp) for p, sp in zip(it, spec["patches"])):
                    problems.append("iteration does not yield the patches of the document in order")
                if list(ps.patches) != it:
                    problems.append("patches != iteration")
                meta = spec["metadata"]
                if (ps.labels, ps.digests, ps.description, ps.references, ps.version) != (
                        meta["labels"], meta["digests"], meta["description"], meta["references"], "1.0.0"):
                    problems.append("metadata accessors differ from the document")
                if problems:
                    add(case, "accepted patch set does not hold exactly the patches of the document: " + "; ".join(problems),
                        {"spec": spec}, ["register:content"])
            # implementation-shaped prediction
            if observed_ok == impl_ok:
                m = {"InvalidPatchSet:name": "by name", "InvalidPatchSet:values": "by values", "InvalidPatchSet:length": "Incompatible number"}
                if impl_ok or m.get(case["implstatus"], "\0") in str(obj):
                    out["impl_agree"] += 1
                else:
                    drift(f"constructor refuses with another message than {case['implstatus']}")
            else:
                drift(f"constructor: implementation layer predicts {case['implstatus']}, observed {'accept' if observed_ok else msg[:60]}")
            continue

        # -- queries need an object --------------------------------------------------------------------
        if status != "ok":
            out["blocked"] += 1          # reported once, by the sealed case of the same document
            if not impl_ok:
                out["impl_agree"] += 1
            else:
                drift("constructor refused a document the implementation layer accepts")
            continue
        ps = obj
        if not impl_ok:
            drift(f"constructor accepted a document the implementation layer refuses ({case['implstatus']})")
        d, im = case["def"], case["impl"]

        def impl_matches(kind, value=None, err=None):
            if not impl_ok:
                return
            if kind == "returned" and im["status"] in ("patch", "ok", "bookkeeping"):
                if im["status"] == "bookkeeping" and not (value == {} and not isinstance(value, pyhf.patchset.Patch)):
                    drift("item access on a bookkeeping word: implementation layer predicts the empty dict")
                else:
                    out["impl_agree"] += 1
            elif kind == "raised" and im["status"] == "raises" and set(im["errs"]) & exc_names(pyhf, err):
                if "PatchSetVerificationError" in im["errs"] and im["i"] >= 1:
                    alg = case["digests"][im["i"] - 1]["alg"]
                    if f"'{alg}'" not in str(err):
                        drift("verification error names another algorithm than the first failing one")
                        return
                out["impl_agree"] += 1
            else:
                drift(f"{case['phase']}: implementation layer predicts {im['status']}{im['errs']}, observed {kind} "
                      f"{type(err).__name__ if err is not None else type(value).__name__}")

        if phase == "looked":
            key = concrete_key(case["key"])
            kk = case["key"]["kind"]
            if d["status"] == "patch":
                out["nontrivial"] += 1
            try:
                got = ps[key]
                err = None
            except Exception as e:  # noqa: BLE001
                got, err = None, e
            det = {"spec": spec, "key": repr(key), "observed": repr(got)[:200] if err is None else f"{type(err).__name__}: {str(err)[:200]}",
                   "definition": d, "impl_layer_predicts": im}
            if d["status"] == "patch":
                want = spec["patches"][d["i"] - 1]
                if err is not None:
                    add(case, f"patch not retrievable by its {'name' if kk == 'str' else 'value tuple (' + kk + ')'}: {det['observed']}", det,
                        ["lookup:present_key_raises", f"keykind:{kk}"])
                elif not isinstance(got, pyhf.patchset.Patch) or not same_patch(got, want):
                    add(case, f"lookup by {'name' if kk == 'str' else 'value tuple (' + kk + ')'} returned something else than the patch registered under it", det,
                        ["lookup:wrong_patch", f"keykind:{kk}"])
            else:
                if err is None:
                    add(case, f"key {key!r} designates no patch but the lookup returned {got!r:.80} instead of raising InvalidPatchLookup", det,
                        ["lookup:returned_instead_of_error", f"keykind:{kk}"])
                elif not (set(d["errs"]) & exc_names(pyhf, err)):
                    add(case, f"key {key!r} designates no patch; lookup raised {type(err).__name__} instead of InvalidPatchLookup", det,
                        ["lookup:wrong_exception", f"keykind:{kk}", f"exc:{type(err).__name__}"])
                elif "InvalidPatchLookup" not in exc_names(pyhf, err):
                    t = f"{kk}:{type(err).__name__}"
                    out["tolerated"][t] = out["tolerated"].get(t, 0) + 1
            impl_matches("returned" if err is None else "raised", got, err)
            continue

        w = tree(case["w"])
        w_before = json.dumps(w)
        canon_same = 1 in case["canon"]
        vtag = f"variant:{case['vd']['kind']}" + (f":{case['vd']['how']}" if case["vd"]["how"] else "")

        if phase in ("verified", "reverified"):
            if case["vd"]["kind"] != "same":
                out["nontrivial"] += 1
            try:
                if phase == "reverified":
                    # history: the reference workspace was verified successfully, then THE SAME OBJECT is changed in place
                    obj = copy.deepcopy(recorded[0])
                    ps.verify(obj)
                    obj.clear()
                    obj.update(copy.deepcopy(w))
                    w = obj
                    w_before = json.dumps(w)
                ret = ps.verify(w)
                err = None
            except Exception as e:  # noqa: BLE001
                ret, err = None, e
            det = {"spec_digests": spec["metadata"]["digests"], "digest_list": case["digests"], "workspace": w, "variant": case["vd"],
                   "observed": "verified" if err is None else f"{type(err).__name__}: {str(err)[:200]}", "definition": d}
            dtag = "digests:" + ",".join(f"{x['alg']}={'ok' if x['of'] == 1 else 'stale'}" for x in case["digests"])
            if d["status"] == "ok":
                if err is not None:
                    add(case, f"workspace with the recorded canonical form fails verification: {det['observed']}", det, ["verify:refused_good", vtag, dtag])
                elif ret is not None:
                    add(case, "verify returned a value", det, ["verify:returns_value"])
            else:
                if err is None:
                    add(case, "verification succeeds although the digest under a listed algorithm differs from the recorded one", det,
                        ["verify:accepted_mismatch", vtag, dtag])
                elif "PatchSetVerificationError" not in exc_names(pyhf, err):
                    add(case, f"verification failure reported as {type(err).__name__}", det, ["verify:wrong_exception", vtag, f"exc:{type(err).__name__}"])
            if json.dumps(w) != w_before:
                add(case, "verify modified the workspace it was given", det, ["verify:mutated_input"])
            # the digest itself: equal to the reference's iff canonically the same document, under every algorithm
            for alg in DIGEST_ALGS:
                out["digest_checks"] += 1
                try:
                    same = pyhf.utils.digest(w, algorithm=alg) == pyhf.utils.digest(w_ref, algorithm=alg)
                except Exception as e:  # noqa: BLE001
                    add(case, f"digest({alg}) raised {type(e).__name__}: {e}", det, ["digest:raises", f"alg:{alg}"])
                    break
                if same and not canon_same:
                    add(case, f"digest ({alg}) does not change under {vtag} at {pointer(case['vd']['path'])}", det, ["digest:insensitive", vtag, f"alg:{alg}"])
                    break
                if canon_same and not same:
                    add(case, f"digest ({alg}) depends on the order of object keys ({vtag} at {pointer(case['vd']['path']) or '/'})", det,
                        ["digest:key_order_sensitive", vtag, f"alg:{alg}"])
                    break
            impl_matches("returned" if err is None else "raised", ret, err)
            continue

        if phase in ("applied", "reapplied"):
            # apply may touch the PatchSet object: never share it between cases
            _CACHE.pop(held_text, None)
            key = concrete_key(case["key"])
            kk = case["key"]["kind"]
            second = phase == "reapplied"
            first_obs = None
            mutated_by_first = False
            if second:
                try:
                    ps.apply(w, key)
                    first_obs = "returned"
                except Exception as e:  # noqa: BLE001
                    first_obs = f"{type(e).__name__}: {str(e)[:120]}"
                mutated_by_first = json.dumps(held_spec) != held_text
            try:
                got = ps.apply(w, key)
                err = None
            except Exception as e:  # noqa: BLE001
                got, err = None, e
            det = {"spec": spec, "key": repr(key), "workspace": w, "variant": case["vd"], "definition_status": d["status"], "definition_errs": d["errs"],
                   "observed": f"{type(err).__name__}: {str(err)[:200]}" if err is not None else "returned", "impl_layer_predicts": [im["status"], im["errs"]]}
            optag = "ops:" + ("+".join(o["op"] for o in case["patches"][case["target"] - 1]["ops"]) if case["target"] >= 1 else "-")
            doc_mutated = mutated_by_first or json.dumps(held_spec) != held_text
            if doc_mutated:
                out["doc_mutated"] += 1
                det["patches_of_the_document_after_apply"] = held_spec["patches"]
            pre = ["apply"] if not second else ["reapply"]
            mod_tag = ["stored_patch_modified"] if doc_mutated else []      # an earlier apply changed the patch held by the PatchSet
            if second:
                det["first_application"] = first_obs
            which = "apply" if not second else "second apply of the same patch on the same PatchSet"
            invalid_result = False
            if d["status"] == "ok":
                expected = tree(d["result"])
                try:
                    pyhf.Workspace(copy.deepcopy(expected))
                    ws_exc = None
                except Exception as e:  # noqa: BLE001
                    ws_exc = e
                if len(case["opidx"]) >= 1:
                    out["nontrivial"] += 1
                if ws_exc is None:
                    out["applied_valid"] += 1
                    det["expected"] = expected
                    if err is not None:
                        add(case, f"{which} raised {det['observed']} where the JSON patch applies and yields a valid workspace", det,
                            [f"{pre[0]}:raises", f"exc:{type(err).__name__}", optag] + mod_tag + ([] if second else [f"keykind:{kk}", vtag]))
                    else:
                        det["got"] = json.loads(json.dumps(got))
                        if not isinstance(got, pyhf.Workspace):
                            add(case, f"{which} returned a {type(got).__name__}, not a Workspace", det, [f"{pre[0]}:not_workspace"])
                        elif dict(got) != expected:
                            add(case, f"{which} returned another workspace than the JSON patch of the designated patch applied to the input", det,
                                [f"{pre[0]}:wrong_result", optag] + mod_tag + ([] if second else [f"keykind:{kk}", vtag]))
                        elif got is w:
                            add(case, f"{which} returned the input object", det, [f"{pre[0]}:returns_input"])
                else:
                    out["applied_invalid_ws"] += 1
                    invalid_result = True
                    if err is None:
                        add(case, f"patched document is not a workspace ({type(ws_exc).__name__}) but {which} returned", det,
                            [f"{pre[0]}:invalid_result_accepted", optag])
                    elif not isinstance(err, type(ws_exc)):
                        add(case, f"{which} raised {det['observed']} where the JSON patch applies (its result is refused as a workspace: {type(ws_exc).__name__})", det,
                            [f"{pre[0]}:raises", f"exc:{type(err).__name__}", optag] + mod_tag + ([] if second else [f"keykind:{kk}", vtag]))
            else:
                if err is None:
                    add(case, f"{which} returned a workspace where the definition demands {'/'.join(d['errs'])}", det,
                        [f"{pre[0]}:returned_instead_of_error", "want:" + "+".join(sorted(d["errs"])), f"keykind:{kk}", vtag])
                elif not (set(d["errs"]) & exc_names(pyhf, err)):
                    add(case, f"{which} raised {type(err).__name__} where the definition demands {'/'.join(d['errs'])}", det,
                        [f"{pre[0]}:wrong_exception", "want:" + "+".join(sorted(d["errs"])), f"exc:{type(err).__name__}", f"keykind:{kk}"])
            if json.dumps(w) != w_before:
                det["workspace_after"] = w
                det["workspace_before"] = json.loads(w_before)
                add(case, "apply modified the workspace it was given", det, ["apply:mutated_input", optag])
            if invalid_result and err is not None and "InvalidSpecification" in exc_names(pyhf, err):
                out["impl_agree"] += 1      # workspace validation is outside the transcribed layer
            else:
                impl_matches("returned" if err is None else "raised", got, err)
            continue

        out["machinery"] = f"unknown phase {phase}"
    return out
