"""Binding A for HFModel: replay the cases MC_HFModel prints into the real pyhf.Model.

One case = (specification, setting, parameter point(s), data) together with the values the
DEFINITION layer of the TLA+ model assigns: per-channel rates, per-sample rates, parameter
defaults/overrides, likelihood terms.  The replay is layout-agnostic: parameter vectors and data
vectors are assembled through the layout *the implementation reports* (par_slice, channel_slices,
auxdata_order), so a refactor that changes the parameter order raises MODEL-DRIFT, not VIOLATION.
"""
from __future__ import annotations

import copy
import itertools
import json
import math
import random
from fractions import Fraction

from common import frac, use_pyhf_src
import names

TOL = {"64b": 1e-12, "32b": 3e-5}


def fl(x):
    return float(frac(x))


def bound_val(x):
    f = frac(x)
    return 1e-10 if f == Fraction(1, 10000) else float(f)


def concrete_spec(case, rng: random.Random | None):
    """TLC spec value -> pyhf JSON model spec (+ measurement parameter configs), lists shuffled by rng."""
    sp = case["spec"]
    chans = []
    for ch in sp["channels"]:
        samples = []
        for sm in ch["samples"]:
            mods = []
            for md in sm["mods"]:
                t = names.TYPES[md["type"]]
                if t == "histosys":
                    data = {"lo_data": [fl(v) for v in md["d1"]], "hi_data": [fl(v) for v in md["d2"]]}
                elif t == "normsys":
                    data = {"lo": fl(md["d1"][0]), "hi": fl(md["d2"][0])}
                elif t in ("shapesys", "staterror"):
                    data = [fl(v) for v in md["d1"]]
                else:
                    data = None
                mods.append({"name": names.PARAMS[md["name"]], "type": t, "data": data})
            if rng:
                rng.shuffle(mods)
            samples.append({"name": names.SAMPLES[sm["name"]], "data": [fl(v) for v in sm["data"]], "modifiers": mods})
        if rng:
            rng.shuffle(samples)
        chans.append({"name": names.CHANNELS[ch["name"]], "samples": samples})
    if rng:
        rng.shuffle(chans)
    pars = []
    for pc in sp["pars"]:
        d = {"name": names.PARAMS[pc["name"]]}
        if pc["inits"]:
            d["inits"] = [fl(v) for v in pc["inits"]]
        if pc["bounds"]:
            d["bounds"] = [[fl(b[0]), fl(b[1])] for b in pc["bounds"]]
        if pc["fixed"]:
            d["fixed"] = bool(pc["fixed"][0])
        if pc["auxdata"]:
            d["auxdata"] = [fl(v) for v in pc["auxdata"]]
        if pc["sigmas"]:
            d["sigmas"] = [fl(v) for v in pc["sigmas"]]
        if pc["factors"]:
            d["factors"] = [fl(v) for v in pc["factors"]]
        pars.append(d)
    if rng:
        rng.shuffle(pars)
    spec = {"channels": chans, "parameters": pars}
    poi = names.PARAMS[sp["poi"]] if sp["poi"] else None
    return spec, poi


def model_kwargs(case):
    st = case["setting"]
    code = {0: "code0", 2: "code2", 44: "code4p", 1: "code1", 4: "code4"}
    kw = {"modifier_settings": {"histosys": {"interpcode": code[st["hcode"]]}, "normsys": {"interpcode": code[st["ncode"]]}}}
    if st["clipS"]:
        kw["clip_sample_data"] = fl(st["clipS"][0])
    if st["clipB"]:
        kw["clip_bin_data"] = fl(st["clipB"][0])
    return kw


def spec_key(case):
    return json.dumps([case["spec"], case["sid"]], sort_keys=True)


class Finding:
    __slots__ = ("prop", "key", "detail", "tags")

    def __init__(self, prop, key, detail, tags=()):
        self.prop, self.key, self.detail, self.tags = prop, key, detail, tuple(tags)

    def as_tuple(self):
        return (self.prop, self.key, self.detail, self.tags)


def _close(a: float, b: Fraction, tol: float) -> bool:
    fb = float(b)
    if math.isinf(a) or math.isnan(a):
        return False
    return abs(a - fb) <= tol * max(1.0, abs(fb))


def assemble_pars(model, theta):
    """theta: [{name, vals}] by abstract name -> flat vector in the layout the model REPORTS."""
    cfg = model.config
    vec = [None] * cfg.npars
    for ent in theta:
        sl = cfg.par_slice(names.PARAMS[ent["name"]])
        vals = [fl(v) for v in ent["vals"]]
        if sl.stop - sl.start != len(vals):
            return None
        vec[sl.start:sl.stop] = vals
    if any(v is None for v in vec):
        return None
    return vec


def assemble_data(model, case, aux_override=None):
    cfg = model.config
    main = [None] * cfg.nmaindata
    # main data is given per global bin of the spec's channel order (sorted names)
    g = 0
    md = case["main_data"]
    for cname_abs, nb in case["_chan_nbins"]:
        sl = cfg.channel_slices[names.CHANNELS[cname_abs]]
        main[sl.start:sl.stop] = [fl(v) for v in md[g:g + nb]]
        g += nb
    aux = []
    by_name = {names.PARAMS[a["name"]]: [fl(v) for v in a["vals"]] for a in case["aux_data"]}
    for n in cfg.auxdata_order:
        aux += by_name[n]
    return main + aux


def check_case(pyhf, case, backend, precision, props, rng, model_cache, extra_batch=False, ainv=None):
    """Returns (findings, drift list, stats dict)."""
    import leaf

    F, drift = [], []
    tol = TOL[precision]
    tl = pyhf.tensorlib
    kw = model_kwargs(case)
    case["_chan_nbins"] = [(cr["name"], len(cr["rates"])) for cr in case["chan_rates"]]
    key = spec_key(case)
    tags_base = [f"hcode{case['setting']['hcode']}", f"ncode{case['setting']['ncode']}", f"backend:{backend}"]
    ent = model_cache.get(key)
    if ent is None:
        model_cache.clear()  # cases arrive grouped by spec
        spec, poi = concrete_spec(case, rng)
        if case.get("concrete"):           # ./vf replay: the exact listing order of the recorded failure
            spec = copy.deepcopy(case["concrete"])
        canon, _ = concrete_spec(case, None)
        before = copy.deepcopy(spec)
        try:
            model = pyhf.Model(spec, poi_name=poi, **kw)
            model_b = pyhf.Model(spec, poi_name=poi, batch_size=2, **kw) if "C10" in props else None
        except Exception as e:  # a well-formed spec must be accepted
            F.append(Finding("C01", f"well-formed spec refused: {type(e).__name__}: {e}", {"case": case}, tags_base + ["refused"]))
            return F, drift, {}
        if spec != before:
            F.append(Finding("C12", "Model() modified the caller's specification", {"case": case}, tags_base + ["mutated"]))
        ent = model_cache[key] = {"model": model, "model_b": model_b, "spec": spec, "poi": poi, "canon": canon, "first": True}
    model, model_b = ent["model"], ent["model_b"]
    cfg = model.config
    first = ent["first"]
    ent["first"] = False
    # the stored case is complete (so that ./vf replay can re-run exactly it); private keys dropped
    slim = {k: v for k, v in case.items() if not k.startswith("_")}
    slim["concrete"] = ent["spec"]

    # ---------------- C12: configuration is a consistent partition, defaults / overrides verbatim
    if "C12" in props and first:
        order = list(cfg.par_order)
        start = 0
        okpart = True
        for n in order:
            sl = cfg.par_slice(n)
            if sl.start != start or sl.stop <= sl.start:
                okpart = False
            start = sl.stop
        if start != cfg.npars or len(set(order)) != len(order):
            okpart = False
        if not okpart:
            F.append(Finding("C12", "parameter slices do not tile the parameter vector in par_order", {"case": slim, "par_order": order,
                     "slices": {n: [cfg.par_slice(n).start, cfg.par_slice(n).stop] for n in order}}, tags_base + ["tiling"]))
        init, bnds, fixed, pnames = cfg.suggested_init(), cfg.suggested_bounds(), cfg.suggested_fixed(), cfg.par_names
        if not (len(init) == len(bnds) == len(fixed) == len(pnames) == cfg.npars):
            F.append(Finding("C12", "suggested init/bounds/fixed/par_names do not have one entry per component", {"case": slim,
                     "lens": [len(init), len(bnds), len(fixed), len(pnames), cfg.npars]}, tags_base + ["lens"]))
        # channel slices tile main data in channel order
        st = 0
        okc = True
        for c in cfg.channels:
            sl = cfg.channel_slices[c]
            if sl.start != st or sl.stop - sl.start != cfg.channel_nbins[c]:
                okc = False
            st = sl.stop
        if st != cfg.nmaindata or not okc:
            F.append(Finding("C12", "channel slices do not tile the main data in channel order", {"case": slim}, tags_base + ["chantiling"]))
        # per-parameter expectations (definition: published defaults, overrides verbatim)
        exp_names = {names.PARAMS[p["name"]]: p for p in case["params"]}
        if set(exp_names) != set(order):
            F.append(Finding("C12", "set of parameters differs from the set of modifier names", {"case": slim, "got": order}, tags_base))
        else:
            naux = 0
            for n in order:
                p = exp_names[n]
                sl = cfg.par_slice(n)
                k = sl.stop - sl.start
                if k != len(p["init"]):
                    F.append(Finding("C12", f"parameter {n} has {k} components, expected {len(p['init'])}", {"case": slim}, tags_base + ["size"]))
                    continue
                gi = init[sl]
                gb = bnds[sl]
                gf = fixed[sl]
                ei = [fl(v) for v in p["init"]]
                eb = [(bound_val(b[0]), bound_val(b[1])) for b in p["bounds"]]
                ef = [bool(x) for x in p["fixed"]]
                if [float(x) for x in gi] != ei:
                    F.append(Finding("C12", f"suggested_init of {n} is {gi}, expected {ei}", {"case": slim}, tags_base + ["init"]))
                if [(float(a), float(b)) for a, b in gb] != eb:
                    F.append(Finding("C12", f"suggested_bounds of {n} is {gb}, expected {eb}", {"case": slim}, tags_base + ["bounds"]))
                if [bool(x) for x in gf] != ef:
                    F.append(Finding("C12", f"suggested_fixed of {n} is {gf}, expected {ef}", {"case": slim}, tags_base + ["fixed"]))
                naux += len(p["aux"])
            # auxdata: one entry per constrained component in auxdata_order
            aux = list(cfg.auxdata)
            pos = 0
            okaux = True
            for n in cfg.auxdata_order:
                p = exp_names.get(n)
                if p is None or not p["aux"]:
                    okaux = False
                    break
                got = [float(x) for x in aux[pos:pos + len(p["aux"])]]
                if len(got) != len(p["aux"]) or any(not _close(g, frac(e), 1e-12) for g, e in zip(got, p["aux"])):
                    okaux = False
                pos += len(p["aux"])
            if not okaux or pos != len(aux) or naux != len(aux) or cfg.nauxdata != len(aux):
                F.append(Finding("C12", "auxdata does not have one (default/overridden) entry per constrained component in auxdata_order",
                                 {"case": slim, "auxdata": aux, "auxdata_order": list(cfg.auxdata_order)}, tags_base + ["aux"]))
            if case["spec"]["poi"]:
                pn = names.PARAMS[case["spec"]["poi"]]
                if cfg.poi_name != pn or cfg.poi_index != cfg.par_slice(pn).start:
                    F.append(Finding("C12", "poi_index does not point at the POI's slice", {"case": slim}, tags_base + ["poi"]))
        # ---- the workspace's data vector follows the same layout; build(model, data) reproduces both
        try:
            main_by_chan, g = {}, 0
            for cname_abs, nb in case["_chan_nbins"]:
                main_by_chan[names.CHANNELS[cname_abs]] = [fl(v) for v in case["main_data"][g:g + nb]]
                g += nb
            obs = [{"name": c, "data": main_by_chan[c]} for c in main_by_chan]
            if rng:
                rng.shuffle(obs)
            ws_spec = {"channels": copy.deepcopy(ent["spec"]["channels"]), "observations": obs, "version": "1.0.0",
                       "measurements": [{"name": "meas", "config": {"poi": ent["poi"] or "", "parameters": copy.deepcopy(ent["spec"]["parameters"])}}]}
            ws_before = copy.deepcopy(ws_spec)
            ws = pyhf.Workspace(ws_spec)
            wm = ws.model(**kw)
            wd = [float(x) for x in ws.data(wm)]
            exp_d = [v for c in wm.config.channels for v in main_by_chan[c]] + [float(x) for x in wm.config.auxdata]
            if ws_spec != ws_before:
                F.append(Finding("C12", "Workspace() modified the caller's specification", {"case": slim}, tags_base + ["mutated", "workspace"]))
            if wd != exp_d:
                F.append(Finding("C12", "Workspace.data does not follow the model's channel order followed by its auxiliary data",
                                 {"case": slim, "got": wd, "expected": exp_d}, tags_base + ["wsdata"]))
            # a SECOND measurement on the same Workspace object whose auxiliary data differ (shifted overrides, plus an auxdata
            # override for one further alpha parameter): the data vector of each model carries that model's own auxiliary data,
            # whichever model was asked first
            try:
                pars2 = copy.deepcopy(ent["spec"]["parameters"])
                for pc2 in pars2:
                    if pc2.get("auxdata"):
                        pc2["auxdata"] = [a + 0.5 for a in pc2["auxdata"]]
                conf = {pc2["name"] for pc2 in pars2}
                extra = next((nm for nm in wm.config.par_order if nm not in conf and wm.config.param_set(nm).constrained
                              and wm.config.param_set(nm).pdf_type == "normal" and wm.config.param_set(nm).n_parameters == 1 and nm != "lumi"), None)
                if extra is not None:
                    pars2.append({"name": extra, "auxdata": [0.25]})
                ws_two = pyhf.Workspace(dict(copy.deepcopy(ws_spec), measurements=ws_spec["measurements"] + [
                    {"name": "second", "config": {"poi": ent["poi"] or "", "parameters": pars2}}]))
                kw2 = {k_: v_ for k_, v_ in kw.items() if k_ != "measurement_name"}
                m_a = ws_two.model(measurement_name="meas", **kw2)
                m_b = ws_two.model(measurement_name="second", **kw2)
                for mm in (m_a, m_b, m_a):
                    got_d = [float(x) for x in ws_two.data(mm)]
                    want_d = [v for c in mm.config.channels for v in main_by_chan[c]] + [float(x) for x in mm.config.auxdata]
                    if got_d != want_d:
                        F.append(Finding("C12", "Workspace.data for one of two measurements of the same workspace does not carry that model's auxiliary data",
                                         {"case": slim, "got": got_d, "expected": want_d}, tags_base + ["wsdata", "two_measurements"]))
                        break
            except Exception as e:  # noqa: BLE001
                F.append(Finding("C12", f"two measurements on one workspace failed: {type(e).__name__}: {e}", {"case": slim}, tags_base + ["workspace", "two_measurements"]))
            if list(wm.config.par_order) != order or [float(x) for x in wm.config.suggested_init()] != [float(x) for x in init]:
                F.append(Finding("C12", "model built through Workspace.model differs from the model built from the same specification",
                                 {"case": slim}, tags_base + ["wsmodel"]))
            tags_b = tags_base + ["build"] + (["has_lumi"] if any(p["type"] == 2 for p in case["params"]) else []) + \
                (["aux_override"] if any(pc["auxdata"] or pc["sigmas"] or pc["factors"] for pc in case["spec"]["pars"]) else []) + \
                (["mixed_fixed"] if any(len(set(p["fixed"])) > 1 for p in case["params"]) else [])
            try:
                ws2 = pyhf.Workspace.build(model, wd)
                m3 = ws2.model(**kw)
                ok_b = (list(m3.config.par_order) == order and [float(x) for x in m3.config.suggested_init()] == [float(x) for x in init]
                        and [tuple(map(float, b)) for b in m3.config.suggested_bounds()] == [tuple(map(float, b)) for b in bnds]
                        and [bool(x) for x in m3.config.suggested_fixed()] == [bool(x) for x in fixed]
                        and [float(x) for x in m3.config.auxdata] == [float(x) for x in cfg.auxdata]
                        and [float(x) for x in ws2.data(m3)] == wd)
                if not ok_b:
                    F.append(Finding("C12", "Workspace.build(model, data) does not reproduce the model configuration and the data", {"case": slim}, tags_b))
            except Exception as e:  # noqa: BLE001
                F.append(Finding("C12", f"Workspace.build(model, data) round trip failed: {type(e).__name__}: {e}", {"case": slim}, tags_b + [f"exc:{type(e).__name__}"]))
        except Exception as e:  # noqa: BLE001
            F.append(Finding("C12", f"Workspace path failed on a well-formed specification: {type(e).__name__}: {e}", {"case": slim}, tags_base + ["workspace", f"exc:{type(e).__name__}"]))
        # ---- the configuration is a value, not a history: querying it again (after fits-style use: copy, edit the copy)
        #      gives the same answers
        try:
            f2 = cfg.suggested_fixed()
            scratch = list(f2)
            if scratch:
                scratch[0] = not scratch[0]
            again = (cfg.suggested_init(), cfg.suggested_bounds(), cfg.suggested_fixed(), cfg.par_names, list(cfg.auxdata))
            firstq = (init, bnds, fixed, pnames, list(cfg.auxdata))
            if [list(map(str, a)) for a in again] != [list(map(str, a)) for a in firstq] or len(cfg.suggested_fixed()) != cfg.npars:
                F.append(Finding("C12", "configuration suggestions change when queried again (one entry per component no longer holds)",
                                 {"case": slim, "first": [list(map(str, a)) for a in firstq], "again": [list(map(str, a)) for a in again]}, tags_base + ["requery"]))
        except Exception as e:  # noqa: BLE001
            F.append(Finding("C12", f"re-querying the configuration failed: {type(e).__name__}: {e}", {"case": slim}, tags_base + ["requery"]))
        # implementation-shaped prediction (drift tier only)
        if order != [names.PARAMS[n] for n in case["impl"]["par_order"]]:
            drift.append(("HFModel.MkCfg", f"par_order {order} != predicted {[names.PARAMS[n] for n in case['impl']['par_order']]}"))
        if list(cfg.auxdata_order) != [names.PARAMS[n] for n in case["impl"]["aux_order"]]:
            drift.append(("HFModel.AuxOrder", f"auxdata_order {list(cfg.auxdata_order)}"))
        if list(cfg.channels) != [names.CHANNELS[c] for c in case["impl"]["channels"]] or \
           list(cfg.samples) != [names.SAMPLES[s] for s in case["impl"]["samples"]]:
            drift.append(("HFModel.Summary", "channel/sample order differs from sorted order"))

    pars = assemble_pars(model, case["theta"])
    if pars is None:
        F.append(Finding("C12", "reported slices cannot hold the parameter components of the specification", {"case": slim}, tags_base + ["size"]))
        return F, drift, {}

    # ---------------- C01: rates
    if "C01" in props:
        try:
            got = tl.tolist(model.expected_actualdata(pars))
            bys = tl.tolist(model.main_model.expected_data(tl.astensor(pars), return_by_sample=True))
        except Exception as e:
            F.append(Finding("C01", f"evaluation failed: {type(e).__name__}: {e}", {"case": slim}, tags_base + ["evalfail"]))
            got = None
        if got is not None:
            bad = []
            for cr in case["chan_rates"]:
                sl = cfg.channel_slices[names.CHANNELS[cr["name"]]]
                g = got[sl]
                if len(g) != len(cr["rates"]) or any(not _close(x, frac(e), tol) for x, e in zip(g, cr["rates"])):
                    bad.append({"channel": names.CHANNELS[cr["name"]], "got": g, "expected": [str(frac(e)) for e in cr["rates"]]})
            if bad:
                F.append(Finding("C01", "expected_actualdata differs from the HistFactory rate formula",
                                 {"case": slim, "pars": pars, "mismatch": bad}, tags_base + ["rates"]))
            # per-sample rates, in the sample order the config reports
            exp_bs = {names.SAMPLES[b["name"]]: b["rates"] for b in case["by_sample"]}
            badbs = []
            for si, sname in enumerate(cfg.samples):
                e = exp_bs.get(sname)
                # expected is given per global bin in sorted-channel order; re-slice through reported channel slices
                g = 0
                for cname_abs, nb in case["_chan_nbins"]:
                    sl = cfg.channel_slices[names.CHANNELS[cname_abs]]
                    gg = bys[si][sl]
                    ee = e[g:g + nb]
                    g += nb
                    if any(not _close(x, frac(y), tol) for x, y in zip(gg, ee)):
                        badbs.append({"sample": sname, "channel": names.CHANNELS[cname_abs], "got": gg, "expected": [str(frac(y)) for y in ee]})
            if badbs and not bad:
                F.append(Finding("C01", "per-sample expected data differs from the HistFactory formula",
                                 {"case": slim, "pars": pars, "mismatch": badbs}, tags_base + ["bysample"]))

    # ---------------- C01, symbolic lane: normsys at non-integer alpha (inside and outside the code-4 core)
    if "C01" in props and case.get("sym") and ainv:
        import leaf as _leaf
        import interp as _interp
        sym = case["sym"][0]
        spars = assemble_pars(model, sym["theta"])
        ncode = case["setting"]["ncode"]
        try:
            gots = tl.tolist(model.expected_actualdata(spars))
        except Exception as e:  # noqa: BLE001
            F.append(Finding("C01", f"evaluation failed (symbolic lane): {type(e).__name__}: {e}", {"case": slim}, tags_base + ["evalfail", "symbolic"]))
            gots = None
        if gots is not None:
            def atom(a):
                al, lo, hi = frac(a["alpha"]), a["lo"], a["hi"]
                if ncode == 1 or abs(al) >= 1:
                    e = {"kind": "pow", "base": hi if al >= 0 else lo, "exp": [abs(al).numerator, abs(al).denominator]}
                else:
                    e = {"kind": "poly4", "up": hi, "dn": lo, "a": a["alpha"], "a0": [1, 1]}
                return _interp.expected_value(e, ainv)
            bads = []
            for ch in sym["chans"]:
                sl = cfg.channel_slices[names.CHANNELS[ch["name"]]]
                exp = []
                for b in ch["bins"]:
                    tot = _leaf.mp.mpf(0)
                    for smp in b:
                        v = _leaf.mpf(frac(smp["coef"]))
                        for a in smp["atoms"]:
                            v *= atom(a)
                        tot += v
                    exp.append(float(tot))
                g = gots[sl]
                stol = 1e-11 if precision == "64b" else 3e-5
                if len(g) != len(exp) or any(abs(x - e) > stol * max(1.0, abs(e)) for x, e in zip(g, exp)):
                    bads.append({"channel": names.CHANNELS[ch["name"]], "got": g, "expected": exp})
            if bads:
                F.append(Finding("C01", "expected_actualdata differs from the HistFactory rate formula at a non-integer normsys alpha (symbolic lane)",
                                 {"case": slim, "pars": spars, "mismatch": bads}, tags_base + ["rates", "symbolic"]))

    # ---------------- C02: log-likelihood = sum of leaf terms
    if "C02" in props:
        data = assemble_data(model, case)
        terms = case["terms"]["main"] + case["terms"]["cons"]
        zero_rate = any(frac(t["lam"]) <= 0 for t in terms if t["k"] == "pois")
        if not zero_rate:
            exp_main = sum(leaf.term_logp(t, frac) for t in case["terms"]["main"])
            exp_cons = sum(leaf.term_logp(t, frac) for t in case["terms"]["cons"]) if case["terms"]["cons"] else leaf.mp.mpf(0)
            try:
                tp, td = tl.astensor(pars), tl.astensor(data)
                full = float(tl.tolist(model.logpdf(tp, td))[0])
                main = float(tl.tolist(model.mainlogpdf(td[: cfg.nmaindata], tp)))
                cons = float(tl.tolist(model.constraint_logpdf(td[cfg.nmaindata:], tp))) if cfg.nauxdata else 0.0
                dens = float(tl.tolist(model.pdf(tp, td))[0])
            except Exception as e:
                F.append(Finding("C02", f"logpdf evaluation failed: {type(e).__name__}: {e}", {"case": slim}, tags_base + ["evalfail"]))
            else:
                ltol = 1e-10 if precision == "64b" else 1e-4
                scale = max(1.0, abs(float(exp_main)) + abs(float(exp_cons)))
                det = {"case": slim, "pars": pars, "data": data, "got": {"full": full, "main": main, "cons": cons},
                       "expected": {"main": float(exp_main), "cons": float(exp_cons)}, "terms": case["terms"]}
                if abs(main - float(exp_main)) > ltol * scale:
                    F.append(Finding("C02", "mainlogpdf differs from sum of log Poisson(n | rate)", det, tags_base + ["main"]))
                elif abs(cons - float(exp_cons)) > ltol * scale:
                    F.append(Finding("C02", "constraint_logpdf differs from the one-term-per-constrained-component template", det, tags_base + ["cons"]))
                elif abs(full - float(exp_main + exp_cons)) > ltol * scale:
                    F.append(Finding("C02", "logpdf differs from main + constraint template", det, tags_base + ["full"]))
                if abs((main + cons) - full) > ltol * scale:
                    F.append(Finding("C02", "mainlogpdf + constraint_logpdf != logpdf", det, tags_base + ["sum"]))
                if full > (-700 if precision == "64b" else -80) and not math.isclose(dens, math.exp(full), rel_tol=1e-9 if precision == "64b" else 1e-3, abs_tol=1e-300):
                    F.append(Finding("C02", "pdf is not exp(logpdf)", det, tags_base + ["exp"]))
                # expected aux data = constrained parameters times factors, at their positions
                try:
                    ea = [float(x) for x in tl.tolist(model.expected_auxdata(tp))] if cfg.nauxdata else []
                except Exception as e:
                    ea = None
                    F.append(Finding("C02", f"expected_auxdata failed: {type(e).__name__}: {e}", det, tags_base))
                if ea is not None:
                    exp_ea = []
                    byn = {}
                    for t in case["terms"]["cons"]:
                        pass
                    # cons terms are listed in aux order: mean (normal) or rate (poisson)
                    exp_ea = [frac(t["mu"]) if t["k"] == "norm" else frac(t["lam"]) for t in case["terms"]["cons"]]
                    # reorder through reported auxdata_order
                    by_name, pos = {}, 0
                    for a in case["aux_data"]:
                        by_name[names.PARAMS[a["name"]]] = exp_ea[pos:pos + len(a["vals"])]
                        pos += len(a["vals"])
                    exp_list = [v for n in cfg.auxdata_order for v in by_name[n]]
                    if len(ea) != len(exp_list) or any(not _close(g, e, tol) for g, e in zip(ea, exp_list)):
                        F.append(Finding("C02", "expected_auxdata does not pair parameters with their auxiliary positions", det, tags_base + ["expaux"]))

        elif all(frac(t["lam"]) >= 0 for t in terms if t["k"] == "pois"):
            # a rate that is exactly zero: log Poisson(n | 0) is 0 for n = 0 and -infinity otherwise (the limit C04 names)
            dead = any(frac(t["lam"]) == 0 and frac(t["n"]) > 0 for t in terms if t["k"] == "pois")
            if dead:
                try:
                    tp, td = tl.astensor(pars), tl.astensor(data)
                    full = float(tl.tolist(model.logpdf(tp, td))[0])
                    dens = float(tl.tolist(model.pdf(tp, td))[0])
                except Exception as e:
                    F.append(Finding("C02", f"logpdf evaluation failed: {type(e).__name__}: {e}", {"case": slim}, tags_base + ["evalfail"]))
                else:
                    if not (full == -math.inf and dens == 0.0):
                        F.append(Finding("C02", "a positive count in a bin with zero expected rate does not give log-density -inf (density 0)",
                                         {"case": slim, "pars": pars, "data": data, "logpdf": full, "pdf": dens}, tags_base + ["zero_rate"]))

    # ---------------- C10: batched = row by row
    if "C10" in props and model_b is not None:
        pars2 = assemble_pars(model, case["theta2"])
        rows = [pars, pars2]
        try:
            gotb = tl.tolist(model_b.expected_actualdata(rows))
            single = [tl.tolist(model.expected_actualdata(r)) for r in rows]
            fullb = tl.tolist(model_b.expected_data(rows))
            fulls = [tl.tolist(model.expected_data(r)) for r in rows]
        except Exception as e:
            F.append(Finding("C10", f"batched evaluation failed: {type(e).__name__}: {e}", {"case": slim}, tags_base + ["evalfail"]))
        else:
            det = {"case": slim, "rows": rows, "batched": gotb, "single": single}
            if len(fullb) != 2 or any(len(a) != len(b) or any(not (x == y or abs(x - y) <= tol * max(1.0, abs(y))) for x, y in zip(a, b))
                                       for a, b in zip(fullb, fulls)):
                F.append(Finding("C10", "batched expected_data (main + auxiliary) differs from the unbatched rows",
                                 dict(det, full_batched=fullb, full_single=fulls), tags_base + ["fullrows"]))
            elif len(gotb) != 2 or any(len(r) != cfg.nmaindata for r in gotb):
                F.append(Finding("C10", "batch dimension is not the leading one", det, tags_base + ["shape"]))
            else:
                for r in range(2):
                    exp = case["chan_rates"] if r == 0 else case["chan_rates2"]
                    for cr in exp:
                        sl = cfg.channel_slices[names.CHANNELS[cr["name"]]]
                        if any(not _close(x, frac(e), tol) for x, e in zip(gotb[r][sl], cr["rates"])):
                            F.append(Finding("C10", f"batched row {r} differs from the unbatched evaluation of that row", det, tags_base + ["rows"]))
                            break
                    else:
                        continue
                    break
                if "C02" in props or True:
                    data = assemble_data(model, case)
                    try:
                        lb = [float(x) for x in tl.tolist(model_b.logpdf(tl.astensor(rows), tl.astensor([data, data])))]
                        ls = [float(tl.tolist(model.logpdf(tl.astensor(r), tl.astensor(data)))[0]) for r in rows]
                        shp = tuple(tl.shape(model_b.make_pdf(tl.astensor(rows)).sample((3,))))
                        shp1 = tuple(tl.shape(model.make_pdf(tl.astensor(pars)).sample((3,))))
                    except Exception as e:
                        # log-density / sampling are undefined where an expected rate is <= 0 (either row): not judged there
                        nonpos = any(x <= 0 for row in fullb for x in row) or any(x <= 0 for row in fulls for x in row)
                        if not nonpos and not any(frac(t["lam"]) <= 0 for t in case["terms"]["main"] + case["terms"]["cons"] if t["k"] == "pois"):
                            F.append(Finding("C10", f"batched logpdf/sample failed: {type(e).__name__}: {e}", det, tags_base + ["evalfail"]))
                    else:
                        ltol = 1e-10 if precision == "64b" else 1e-4
                        for a, b in zip(lb, ls):
                            if not (a == b or abs(a - b) <= ltol * max(1.0, abs(b)) or (math.isinf(a) and math.isinf(b)) or (math.isnan(a) and math.isnan(b))):
                                F.append(Finding("C10", "batched logpdf row differs from the unbatched logpdf", dict(det, lb=lb, ls=ls), tags_base + ["logpdf"]))
                                break
                        nd = cfg.nmaindata + cfg.nauxdata
                        if shp != (3, 2, nd) or shp1 != (3, nd):
                            F.append(Finding("C10", f"sampled data shape {shp} / {shp1}, expected (3, 2, {nd}) / (3, {nd})", det, tags_base + ["sampleshape"]))
    # ---------------- C10: other batch sizes (1, 3, 8): rows alternate between the two exact points
    if "C10" in props and model_b is not None and first:
        pars2 = assemble_pars(model, case["theta2"])
        data = assemble_data(model, case)
        for N in (1, 3) + ((8,) if extra_batch else ()):
            rows = [pars if r % 2 == 0 else pars2 for r in range(N)]
            try:
                mN = pyhf.Model(ent["spec"], poi_name=ent["poi"], batch_size=N, **kw)
                gN = tl.tolist(mN.expected_data(rows))
                sN = [tl.tolist(model.expected_data(r)) for r in rows]
                lN = [float(x) for x in tl.tolist(mN.logpdf(tl.astensor(rows), tl.astensor([data] * N)))]
                l1 = [float(tl.tolist(model.logpdf(tl.astensor(r), tl.astensor(data)))[0]) for r in rows]
            except Exception as e:  # noqa: BLE001
                try:
                    nonpos = any(x <= 0 for r in rows for x in tl.tolist(model.expected_data(r)))
                except Exception:  # noqa: BLE001
                    nonpos = False
                if not nonpos and not any(frac(t["lam"]) <= 0 for t in case["terms"]["main"] + case["terms"]["cons"] if t["k"] == "pois"):
                    F.append(Finding("C10", f"batch_size={N} evaluation failed: {type(e).__name__}: {e}", {"case": slim}, tags_base + ["evalfail", f"batch:{N}"]))
                continue
            okr = len(gN) == N and all(len(a) == len(b) and all(x == y or abs(x - y) <= tol * max(1.0, abs(y)) for x, y in zip(a, b)) for a, b in zip(gN, sN))
            ltol = 1e-10 if precision == "64b" else 1e-4
            okl = len(lN) == N and all(a == b or abs(a - b) <= ltol * max(1.0, abs(b)) or (math.isinf(a) and math.isinf(b)) or (math.isnan(a) and math.isnan(b)) for a, b in zip(lN, l1))
            if not okr or not okl:
                F.append(Finding("C10", f"batch_size={N}: a row of the batched expected_data / logpdf differs from the unbatched evaluation of that row",
                                 {"case": slim, "rows": rows, "batched": gN, "single": sN, "logpdf": [lN, l1]}, tags_base + ["rows", f"batch:{N}"]))
                break
    return F, drift, {"npars": cfg.npars, "nmods": len(cfg.modifiers)}
