"""Worker side of C04 (spec/Prob.tla, MC_Prob.tla): discharges the obligations of the call-session machine on the
worker's backend/precision.  Exact values of the symbolic term trees come from mpmath (60 digits) evaluated at the
binary floating-point arguments actually passed; the error budget is K units of rounding of the terms involved."""
import json
import math

import mpmath as mp
import numpy as np

mp.mp.dps = 60
K = 32          # "a few units of rounding": the check demands no more than K * eps * (1 + sum |terms|)
EPS = {"64b": 2.0 ** -52, "32b": 2.0 ** -23}
TINY = {"64b": 2.3e-308, "32b": 1.2e-38}       # smallest normal number: results below it carry fewer digits
FMAX = {"64b": 1.7e308, "32b": 3.4e38}


def to_float(x, prec):
    v = float(f"{int(x[0])}e{int(x[1])}")
    if prec == "32b":
        v = float(np.float32(v))
    return v


def tree_value(tree, args):
    """-> (exact value as mpf or +-inf, sum of |terms|)"""
    if tree["k"] == "const":
        return {"zero": mp.mpf(0), "-inf": mp.mpf("-inf")}[tree["v"]], mp.mpf(0)
    if tree["k"] == "phi":
        z = (mp.mpf(args["x"]) - mp.mpf(args["mu"])) / mp.mpf(args["sigma"])
        return mp.ncdf(z), mp.mpf(1)
    tot, mag = mp.mpf(0), mp.mpf(0)
    for t in tree["terms"]:
        k = t["k"]
        if k == "xlogy":
            n, lam = mp.mpf(args["n"]), mp.mpf(args["lam"])
            v = mp.mpf(0) if n == 0 else n * mp.log(lam)
        elif k == "neg":
            v = -mp.mpf(args["lam"])
        elif k == "neglgamma1p":
            v = -mp.loggamma(mp.mpf(args["n"]) + 1)
        elif k == "neghalfsqz":
            z = (mp.mpf(args["x"]) - mp.mpf(args["mu"])) / mp.mpf(args["sigma"])
            v = -z * z / 2
        elif k == "negln":
            v = -mp.log(mp.mpf(args["sigma"]))
        elif k == "const" and t["v"] == "-halfln2pi":
            v = -mp.log(2 * mp.pi) / 2
        else:
            raise ValueError(k)
        tot += v
        mag += abs(v)
    return tot, mag


def close_log(got, exact, mag, prec):
    """got: float from the backend; exact: mpf"""
    if math.isnan(got):
        return False
    if exact == mp.mpf("-inf"):
        return got == -math.inf
    if abs(exact) > FMAX[prec] / 2:
        return (math.isinf(got) and (got < 0) == (exact < 0)) or abs(mp.mpf(got) - exact) <= K * EPS[prec] * (1 + mag)
    if math.isinf(got):
        return False
    return abs(mp.mpf(got) - exact) <= K * EPS[prec] * (1 + mag)


def close_prob(got, exact_log, mag, prec):
    if math.isnan(got) or got < 0:
        return False
    if exact_log == mp.mpf("-inf"):
        return got == 0.0
    p = mp.exp(exact_log)
    tol_l = K * EPS[prec] * (1 + mag)
    if math.isinf(got):      # only acceptable where the error budget of the log value itself reaches past the format's range
        return exact_log + tol_l > mp.log(FMAX[prec])
    tol = p * mp.expm1(tol_l) + K * EPS[prec] * p + TINY[prec]
    return abs(mp.mpf(got) - p) <= tol


def scalar(tl, t):
    v = tl.tolist(t)
    while isinstance(v, list):
        v = v[0]
    return float(v)


def warm_up(pyhf):
    """first segment of a process (SwitchPrecision of MC_Prob): every primitive family is used once on the current backend"""
    tl = pyhf.tensorlib
    a = tl.astensor
    tl.poisson_logpdf(a([3.0]), a([2.5])); tl.poisson(a([3.0]), a([2.5])); tl.poisson_dist(a([2.5])).log_prob(a([3.0]))
    tl.normal_logpdf(a([0.5]), a([0.0]), a([1.5])); tl.normal(a([0.5]), a([0.0]), a([1.5])); tl.normal_dist(a([0.0]), a([1.5])).log_prob(a([0.5]))
    tl.normal_cdf(a([0.5])); tl.normal_cdf(a([0.5]), mu=a([0.1]), sigma=a([2.0]))
    pyhf.probability.Poisson(a([2.5])).log_prob(a([3.0])); pyhf.probability.Normal(a([0.0]), a([1.5])).log_prob(a([0.5]))


def replay(pyhf, backend, precision, chunk, switch_to=None):
    """switch_to = (backend, precision): the worker was started on the FIRST segment's backend/precision; warm up there, then
    switch and discharge the obligations on the second"""
    out = {"n": 0, "calls": 0, "cases": {}, "kinds": {}, "findings": []}
    first = None
    if switch_to is not None:
        if not getattr(pyhf, "_verif_warmed", False):
            warm_up(pyhf)
            pyhf._verif_warmed = True
        first = (backend, precision)
        backend, precision = switch_to
        pyhf.set_backend(backend, precision=precision)
    tl = pyhf.tensorlib
    prob = pyhf.probability
    eps = EPS[precision]

    def add(key, detail, tags):
        if len(out["findings"]) < 40:
            out["findings"].append((key + (f" (after a first segment on {first[0]}/{first[1]} in the same process)" if first else ""),
                                    dict(detail, backend=backend, prec=precision, first=first), tags + (["switched"] if first else [])))

    def T(v):
        return tl.astensor([v])

    def dtag(vals):
        return ["denormal-arg"] if any(x != 0 and abs(x) < TINY[precision] for x in vals) else []

    def call(fn, a):
        out["calls"] += 1
        if fn == "poisson_logpdf":
            return scalar(tl, tl.poisson_logpdf(T(a["n"]), T(a["lam"])))
        if fn == "poisson":
            return scalar(tl, tl.poisson(T(a["n"]), T(a["lam"])))
        if fn == "poisson_dist.log_prob":
            return scalar(tl, tl.poisson_dist(T(a["lam"])).log_prob(T(a["n"])))
        if fn == "probability.Poisson.log_prob":
            return scalar(tl, prob.Poisson(T(a["lam"])).log_prob(T(a["n"])))
        if fn == "normal_logpdf":
            return scalar(tl, tl.normal_logpdf(T(a["x"]), T(a["mu"]), T(a["sigma"])))
        if fn == "normal":
            return scalar(tl, tl.normal(T(a["x"]), T(a["mu"]), T(a["sigma"])))
        if fn == "normal_dist.log_prob":
            return scalar(tl, tl.normal_dist(T(a["mu"]), T(a["sigma"])).log_prob(T(a["x"])))
        if fn == "probability.Normal.log_prob":
            return scalar(tl, prob.Normal(T(a["mu"]), T(a["sigma"])).log_prob(T(a["x"])))
        if fn == "normal_cdf":
            return scalar(tl, tl.normal_cdf(T(a["x"]), mu=T(a["mu"]), sigma=T(a["sigma"])))
        if fn == "normal_cdf.default":
            return scalar(tl, tl.normal_cdf(T(a["x"])))
        raise ValueError(fn)

    for line in chunk:
        rec = json.loads(line)
        o = rec["obligation"]
        assert rec["backend"] == backend and rec["prec"] == precision, (rec["backend"], rec["prec"], backend, precision)
        out["n"] += 1
        out["kinds"][o["kind"]] = out["kinds"].get(o["kind"], 0) + 1
        tags = [f"backend:{backend}", f"prec:{precision}", "kind:" + o["kind"]]
        try:
            if o["kind"] == "value":
                a = {k: to_float(v, precision) for k, v in o["args"].items()}
                ck = f"{o['fn']}:{o['case']}"
                out["cases"][ck] = out["cases"].get(ck, 0) + 1
                exact, mag = tree_value(o["value"], a)
                det = {"obligation": o, "float_args": a, "exact": mp.nstr(exact, 20), "terms_magnitude": mp.nstr(mag, 8)}
                for var in sorted(o["variants"]):
                    fn = var
                    if var == "normal_cdf" and o["case"] == "standard":
                        fn = "normal_cdf.default"
                    got = call(fn, a)
                    vt = tags + ["fn:" + var, "case:" + o["case"]] + dtag(a.values())
                    if "mu" in a and a["x"] != a["mu"] and abs(a["x"] - a["mu"]) <= 1e-2 * max(abs(a["x"]), abs(a["mu"])):
                        vt.append("cancellation")     # x and mu large and close: the subtraction x - mu decides the accuracy
                    if o["fn"] == "normal_cdf":
                        ok = (not math.isnan(got)) and abs(mp.mpf(got) - exact) <= K * eps and 0.0 <= got <= 1.0
                        what = "normal_cdf differs from Phi((x - mu)/sigma)"
                    elif var in ("poisson", "normal"):
                        ok = close_prob(got, exact, mag, precision)
                        what = f"{var} is not the exponential of the exact log value"
                    else:
                        ok = close_log(got, exact, mag, precision)
                        what = f"{var} differs from the exact value ({o['case']} case) by more than {K} units of rounding of the terms involved"
                    if not ok:
                        add(what, dict(det, variant=var, got=got), vt)
            elif o["kind"] == "recurrence":
                n, n1, lam = (to_float(o[k], precision) for k in ("n", "n1", "lam"))
                l0 = call("poisson_logpdf", {"n": n, "lam": lam})
                l1 = call("poisson_logpdf", {"n": n1, "lam": lam})
                exact = mp.log(mp.mpf(lam)) - mp.log(mp.mpf(n1))
                mag = sum(abs(x) for x in (mp.mpf(n1) * mp.log(mp.mpf(lam)), mp.mpf(lam), mp.loggamma(mp.mpf(n1) + 1))) * 2
                if not (math.isfinite(l0) and math.isfinite(l1)) or abs(mp.mpf(l1) - mp.mpf(l0) - exact) > K * eps * (2 + mag):
                    add("Poisson recurrence log P(n+1|lam) - log P(n|lam) = ln lam - ln(n+1) fails",
                        {"obligation": o, "float_args": [n, n1, lam], "got": [l0, l1], "exact_difference": mp.nstr(exact, 20)}, tags + ["fn:poisson_logpdf"] + dtag([n, n1, lam]))
            elif o["kind"] == "reflection":
                z, mz = to_float(o["z"], precision), to_float(o["mz"], precision)
                a, b = call("normal_cdf.default", {"x": z}), call("normal_cdf.default", {"x": mz})
                if math.isnan(a) or math.isnan(b) or abs(a + b - 1.0) > 4 * K * eps:
                    add("Phi(z) + Phi(-z) != 1", {"obligation": o, "got": [a, b]}, tags + ["fn:normal_cdf"])
            elif o["kind"] == "monotone":
                zs = [to_float(z, precision) for z in o["chain"]]
                vals = [call("normal_cdf.default", {"x": z}) for z in zs]
                vec = [float(v) for v in tl.tolist(tl.normal_cdf(tl.astensor(zs)))]
                bad = [(zs[i], vals[i], vals[i + 1]) for i in range(len(zs) - 1) if not vals[i] <= vals[i + 1] + K * eps]
                if bad or any(not 0.0 <= v <= 1.0 for v in vals):
                    add("normal_cdf is not a non-decreasing map into [0, 1] along the ordered lattice", {"obligation": o, "values": vals, "bad": bad}, tags + ["fn:normal_cdf"])
                if any(abs(u - w) > K * eps for u, w in zip(vec, vals)):
                    add("normal_cdf of a vector differs from the element-by-element calls", {"obligation": o, "values": vals, "vector": vec}, tags + ["fn:normal_cdf"])
            elif o["kind"] == "equivariance":
                z, mu, sigma, x = (to_float(o[k], precision) for k in ("z", "mu", "sigma", "x"))
                if o["fn"] == "normal_cdf":
                    a, b = call("normal_cdf", {"x": x, "mu": mu, "sigma": sigma}), call("normal_cdf.default", {"x": z})
                    if math.isnan(a) or abs(a - b) > 2 * K * eps:
                        add("normal_cdf(x, mu, sigma) != normal_cdf((x - mu)/sigma) on an exactly representable triple",
                            {"obligation": o, "float_args": [x, mu, sigma, z], "got": [a, b]}, tags + ["fn:normal_cdf"])
                else:
                    a = call("normal_logpdf", {"x": x, "mu": mu, "sigma": sigma})
                    b = call("normal_logpdf", {"x": z, "mu": 0.0, "sigma": 1.0})
                    ex = -math.log(sigma)
                    mag = z * z / 2 + abs(math.log(sigma)) + 1
                    if math.isnan(a) or abs(a - (b + ex)) > 2 * K * eps * (1 + mag):
                        add("normal_logpdf(x, mu, sigma) != normal_logpdf((x - mu)/sigma, 0, 1) - ln sigma on an exactly representable triple",
                            {"obligation": o, "float_args": [x, mu, sigma, z], "got": [a, b]}, tags + ["fn:normal_logpdf"])
        except Exception as e:  # noqa: BLE001
            add(f"primitive raised {type(e).__name__}", {"obligation": o, "error": str(e)[:300]}, tags + ["exception"])
    return out
