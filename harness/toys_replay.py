"""Worker side of C14: EmpiricalDistribution.pvalue against Empirical.tla; sampled pseudo-data shape/integrality; toy
estimates of CLs+b / CLb against exactly enumerated tail probabilities on one-bin counting models."""
import json
import math

import leaf
from common import frac

mp = leaf.mp


def replay_empirical(pyhf, backend, precision, chunk, seed):
    out = {"n": 0, "nontrivial": 0, "findings": []}
    Emp = pyhf.infer.calculators.EmpiricalDistribution
    tl = pyhf.tensorlib
    for line in chunk:
        c = json.loads(line)
        out["n"] += 1
        # statistic values scaled by 3/4 to be non-integer floats; order is what matters
        samp = [0.75 * x for x in c["samples"]]
        v = 0.75 * c["v"]
        for shape in ("flat", "column"):
            t = tl.astensor(samp if shape == "flat" else [[x] for x in samp])
            try:
                p = float(tl.tolist(Emp(t).pvalue(tl.astensor(v) if shape == "column" else v)))
            except Exception as e:  # noqa: BLE001
                out["findings"].append(("C14", f"EmpiricalDistribution.pvalue raised {type(e).__name__}: {e}", {"case": c}, ["empirical", "exception"]))
                break
            exp = frac(c["p"])
            if abs(p - float(exp)) > 1e-12:
                if len(out["findings"]) < 20:
                    out["findings"].append(("C14", "empirical p-value is not the fraction of samples greater than or equal to the observed value",
                                            {"case": c, "got": p, "expected": str(exp)}, ["empirical", "fraction"]))
                break
        if len(set(c["samples"])) < len(c["samples"]) or c["v"] in c["samples"]:
            out["nontrivial"] += 1
    return out


def q_tilde(n, mu, s, b, hi=10.0):
    """closed form of qtilde_mu for the one-bin counting model (exact through mpmath)"""
    muhat = min(max((mp.mpf(n) - b) / s, 0), hi)
    if muhat > mu:
        return mp.mpf(0)
    lam_mu, lam_hat = mu * s + b, muhat * s + b
    return max(mp.mpf(0), -2 * (leaf.pois_logpmf(n, lam_mu) - leaf.pois_logpmf(n, lam_hat)))


def replay_tails(pyhf, backend, precision, chunk, seed, ntoys):
    """chunk: list of JSON dicts {s, b, n, mu}; toy CLs+b / CLb vs exact tail sums"""
    import numpy as np
    out = {"n": 0, "nontrivial": 0, "findings": [], "toys": 0}
    pyhf.set_backend(backend, "scipy", precision=precision)
    models = {}      # one model object per (s, b): reused for every observed count and tested mu that follows
    for ci, line in enumerate(chunk):
        c = json.loads(line)
        s, b, nobs, mu = c["s"], c["b"], c["n"], c["mu"]
        out["n"] += 1
        spec = {"channels": [{"name": "ch", "samples": [
            {"name": "sig", "data": [float(s)], "modifiers": [{"name": "mu", "type": "normfactor", "data": None}]},
            {"name": "bkg", "data": [float(b)], "modifiers": []}]}], "parameters": []}
        model = models.setdefault((s, b), pyhf.Model(spec, poi_name="mu"))
        data = [float(nobs)]
        qobs = q_tilde(nobs, mu, s, b)
        nmax = int(mu * s + b + 12 * math.sqrt(mu * s + b) + 30)
        # exact tail sets: q(n) >= q(n_obs) with a relative guard far below the spacing of distinct q values
        tail = [n for n in range(nmax) if q_tilde(n, mu, s, b) >= qobs * (1 - mp.mpf(10) ** -12) - mp.mpf(10) ** -12]
        clsb = float(sum(mp.exp(leaf.pois_logpmf(n, mu * s + b)) for n in tail))
        clb = float(sum(mp.exp(leaf.pois_logpmf(n, b)) for n in tail))
        np.random.seed(7919 * seed + ci)
        try:
            calc = pyhf.infer.calculators.ToyCalculator(data, model, ntoys=ntoys, track_progress=False, test_stat="qtilde")
            ts = calc.teststatistic(mu)
            sbd, bd = calc.distributions(mu)
            g_sb, g_b, g_s = (float(pyhf.tensorlib.tolist(x)) for x in calc.pvalues(ts, sbd, bd))
        except Exception as e:  # noqa: BLE001
            out["findings"].append(("C14", f"toy calculator raised {type(e).__name__}: {e}", {"case": c}, ["toys", "exception", f"exc:{type(e).__name__}"]))
            continue
        out["toys"] += 2 * ntoys
        det = {"case": c, "ntoys": ntoys, "toy": {"CLsb": g_sb, "CLb": g_b}, "exact": {"CLsb": clsb, "CLb": clb}, "tail_n": tail[:6]}
        for name, g, e in (("CLs+b", g_sb, clsb), ("CLb", g_b, clb)):
            sigma = math.sqrt(max(e * (1 - e), 1e-4) / ntoys)
            if abs(g - e) > 5 * sigma + 1e-9:
                out["findings"].append(("C14", f"toy estimate of {name} is more than 5 binomial sigma from the exact tail probability",
                                        dict(det, which=name, sigma=sigma), ["toys", "tails", name]))
                break
        if abs(float(pyhf.tensorlib.tolist(ts)) - float(qobs)) > 1e-4 * max(1.0, float(qobs)):
            out["findings"].append(("C14", "observed statistic of the toy calculator differs from its closed form", dict(det, ts=float(pyhf.tensorlib.tolist(ts)), q=float(qobs)), ["toys", "teststat"]))
        out["nontrivial"] += 1
    return out


def replay_sampling(pyhf, backend, precision, chunk, seed):
    """chunk: list of JSON model tags; shape, integrality, non-negativity; moments as exploration (6 sigma)"""
    import numpy as np
    from backend_replay import MODEL_SPECS, MODEL_KW
    out = {"n": 0, "nontrivial": 0, "findings": [], "samples": 0}
    tl = pyhf.tensorlib
    for ci, tag in enumerate(chunk):
        model = pyhf.Model(MODEL_SPECS[tag], poi_name="mu", **MODEL_KW[tag])
        cfg = model.config
        pars = [v * (1.0 + 0.125 * (i % 3)) for i, v in enumerate(cfg.suggested_init())]
        n = 4000
        np.random.seed(seed * 31 + ci)
        try:
            pdf = model.make_pdf(tl.astensor(pars))
            smp = np.asarray(tl.tolist(pdf.sample((n,))), dtype=float)
        except Exception as e:  # noqa: BLE001
            out["findings"].append(("C14", f"sampling raised {type(e).__name__}: {e}", {"model": tag}, ["sampling", "exception"]))
            continue
        out["n"] += 1
        out["samples"] += n
        nd = cfg.nmaindata + cfg.nauxdata
        det = {"model": tag, "backend": backend, "shape": list(smp.shape)}
        if smp.shape != (n, nd):
            out["findings"].append(("C14", f"sampled data has shape {smp.shape}, requested ({n}, {nd})", det, ["sampling", "shape"]))
            continue
        main = smp[:, : cfg.nmaindata]
        if (main < 0).any() or (main != np.round(main)).any():
            out["findings"].append(("C14", "sampled main counts are not non-negative integers", det, ["sampling", "integer"]))
        exp = np.asarray(tl.tolist(model.expected_data(pars)), dtype=float)
        m, va = smp.mean(axis=0), smp.var(axis=0)
        for i in range(cfg.nmaindata):      # Poisson: mean = variance = rate
            se = math.sqrt(exp[i] / n)
            if abs(m[i] - exp[i]) > 6 * se or abs(va[i] - exp[i]) > 6 * exp[i] * math.sqrt(2.0 / n + 1.0 / (n * max(exp[i], 1e-9))):
                out["findings"].append(("C14", "per-bin mean/variance of sampled main data is far (6 sigma) from the expected rate",
                                        dict(det, bin=i, mean=float(m[i]), var=float(va[i]), rate=float(exp[i])), ["sampling", "moments"]))
                break
        for j in range(cfg.nauxdata):       # auxiliary data are centred on the expected auxiliary data
            i = cfg.nmaindata + j
            sd_ = math.sqrt(max(va[i], 1e-300))
            if abs(m[i] - exp[i]) > 6 * sd_ / math.sqrt(n) + 1e-12:
                out["findings"].append(("C14", "mean of sampled auxiliary data is far (6 sigma) from the expected auxiliary data",
                                        dict(det, aux=j, mean=float(m[i]), expected=float(exp[i])), ["sampling", "auxmoments"]))
                break
        out["nontrivial"] += 1
    return out


def replay_aux_moments(pyhf, backend, precision, chunk, seed):
    """chunk: evaluated states of MC_HFModel.  Pseudo-data are drawn from the real model at the state's parameter point; every
    auxiliary component must be distributed as the constraint term the specification lists for it (DefTerms.cons): Normal(theta, var)
    -> mean theta, variance var; Poisson(theta tau) -> mean = variance = theta tau; main counts are Poisson(rate)."""
    import random
    import numpy as np
    import hfreplay
    import names
    from common import frac
    out = {"n": 0, "nontrivial": 0, "findings": [], "samples": 0, "aux_components": 0}
    tl = pyhf.tensorlib
    rng = random.Random(seed)
    n = 3000
    for ci, line in enumerate(chunk):
        case = json.loads(line)
        case["_chan_nbins"] = [(cr["name"], len(cr["rates"])) for cr in case["chan_rates"]]
        cons = case["terms"]["cons"]
        if not cons or any(frac(t["lam"]) <= 0 for t in case["terms"]["main"]):
            continue
        try:
            spec, poi = hfreplay.concrete_spec(case, rng)
            model = pyhf.Model(spec, poi_name=poi, **hfreplay.model_kwargs(case))
        except Exception:  # noqa: BLE001   (C20/C12 decide refusals)
            continue
        cfg = model.config
        pars = hfreplay.assemble_pars(model, case["theta"])
        np.random.seed(seed * 131 + ci)
        try:
            import torch
            torch.manual_seed(seed * 131 + ci)
        except Exception:  # noqa: BLE001
            pass
        try:
            import tensorflow as tf
            tf.random.set_seed(seed * 131 + ci)
        except Exception:  # noqa: BLE001
            pass
        try:
            smp = np.asarray(tl.tolist(model.make_pdf(tl.astensor(pars)).sample((n,))), dtype=float)
        except Exception as e:  # noqa: BLE001
            out["findings"].append(("C14", f"sampling raised {type(e).__name__}: {e}", {"case": {k: case[k] for k in ("spec", "setting", "theta")}}, ["sampling", "exception"]))
            continue
        out["n"] += 1
        out["samples"] += n
        det = {"case": {k: case[k] for k in ("spec", "setting", "theta")}, "backend": backend}
        if smp.shape != (n, cfg.nmaindata + cfg.nauxdata):
            out["findings"].append(("C14", f"sampled data has shape {smp.shape}, requested ({n}, {cfg.nmaindata + cfg.nauxdata})", det, ["sampling", "shape"]))
            continue
        m, va = smp.mean(axis=0), smp.var(axis=0)
        # the specification lists the constraint terms in ITS auxiliary order (by parameter name); the model reports its own order
        by_name, pos = {}, 0
        for a in case["aux_data"]:
            by_name[names.PARAMS[a["name"]]] = cons[pos:pos + len(a["vals"])]
            pos += len(a["vals"])
        terms = [t for nme in cfg.auxdata_order for t in by_name[nme]]
        for j, t in enumerate(terms):
            i = cfg.nmaindata + j
            if t["k"] == "norm":
                mu_, var_ = float(frac(t["mu"])), float(frac(t["var"]))
                kind = "Normal"
                se_m, se_v = math.sqrt(var_ / n), var_ * math.sqrt(2.0 / n)
            else:
                mu_ = var_ = float(frac(t["lam"]))
                kind = "Poisson"
                se_m, se_v = math.sqrt(var_ / n), var_ * math.sqrt(2.0 / n + 1.0 / (n * max(var_, 1e-9)))
            out["aux_components"] += 1
            if abs(m[i] - mu_) > 6.5 * se_m + 1e-12 or abs(va[i] - var_) > 6.5 * se_v + 1e-12:
                out["findings"].append(("C14", f"auxiliary data are not distributed according to their constraint term ({kind})",
                                        dict(det, aux=j, parameter=cfg.auxdata_order, sampled_mean=float(m[i]), sampled_var=float(va[i]), term_mean=mu_, term_var=var_),
                                        ["sampling", "auxdist", kind]))
                break
        if cons:
            out["nontrivial"] += 1
    return out
