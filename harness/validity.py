"""Worker side of the C20 replay: faulty specifications must be refused with a pyhf exception."""
import copy
import json

import hfreplay
import names


def _observations(spec):
    return [{"name": c["name"], "data": [1.0] * len(c["samples"][0]["data"])} for c in spec["channels"]]


def classify(pyhf, fn):
    try:
        fn()
    except Exception as e:  # noqa: BLE001
        mod = type(e).__module__ or ""
        own = mod.startswith("pyhf.exceptions") or any(k.__module__.startswith("pyhf.exceptions") for k in type(e).__mro__[:-2] if k is not Exception and k is not BaseException)
        return ("refused" if own else "foreign"), type(e).__name__, str(e)[:300]
    return "accepted", None, None


def replay(pyhf, backend, precision, chunk, seed):
    out = {"n": 0, "nontrivial": 0, "findings": [], "machinery": None, "kinds": {}, "outcomes": {}, "clean": 0}
    for line in chunk:
        case = json.loads(line)
        spec, poi = hfreplay.concrete_spec(case, None)
        kinds = [f["kind"] for f in case["fault"]]
        out["n"] += 1
        model_spec = {"channels": spec["channels"], "parameters": spec["parameters"]}
        ws = {"channels": spec["channels"], "observations": _observations(spec), "version": "1.0.0",
              "measurements": [{"name": "meas", "config": {"poi": poi or "", "parameters": spec["parameters"]}}]}
        paths = {
            "model": lambda: pyhf.Model(copy.deepcopy(model_spec), poi_name=poi),
            "workspace": lambda: pyhf.Workspace(copy.deepcopy(ws)).model(),
        }
        for pname, fn in paths.items():
            verdict, exc, msg = classify(pyhf, fn)
            if case["clean"]:
                out["clean"] += 1
                if verdict != "accepted":
                    out["machinery"] = f"well-formed control specification refused via {pname}: {exc}: {msg}\n{json.dumps(spec)[:1500]}"
                continue
            k = "+".join(kinds)
            out["kinds"][k] = out["kinds"].get(k, 0) + 1
            oc = f"{pname}:{k}:{verdict}:{exc}"
            out["outcomes"][oc] = out["outcomes"].get(oc, 0) + 1
            if verdict == "refused":
                continue
            what = ("accepted as a model" if verdict == "accepted" else f"only stopped by a non-pyhf exception {exc}")
            tags = [f"fault:{k}" for k in kinds] + [f"outcome:{verdict}", f"exc:{exc}", f"path:{pname}", f"nfaults:{len(kinds)}"]
            for f in case["fault"]:
                if "t" in f:
                    tags.append(f"ftype:{names.TYPES[f['t']]}")
            if len(out["findings"]) < 60:
                out["findings"].append(("C20", f"structurally inconsistent specification ({k}) {what} [{pname} path]",
                                        {"fault": case["fault"], "spec": model_spec, "poi": poi, "exception": exc, "message": msg}, tags))
            else:
                out["more"] = out.get("more", 0) + 1
                out.setdefault("more_tags", []).append(tags)
        if len(kinds) >= 1 and not case["clean"]:
            out["nontrivial"] += 1
    return out
