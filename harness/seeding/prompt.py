"""Print the prompt given to an independent seeding sub-agent (property text + scratch worktree only)."""
import json, sys
pid, wt = sys.argv[1], sys.argv[2]
variant = sys.argv[3] if len(sys.argv) > 3 else ""
if variant.startswith("@"):
    variant = json.load(open(variant[1:])).get(pid, "")
props = {json.loads(l)["id"]: json.loads(l) for l in open("/verif/properties.jsonl")}
p = props[pid]
print(f"""You are helping to evaluate a verification effort for the Python library scikit-hep/pyhf (a pure-Python HistFactory statistical-model library). Your job is to play the role of a developer who introduces a subtle regression.

You have your OWN scratch git worktree of the repository at: {wt}
Work ONLY inside that directory. Never read or modify /repo or /verif (they are off limits). There is no network access.
Python with all dependencies: /venv/bin/python. IMPORTANT: always run with PYTHONPATH={wt}/src so that YOUR copy of pyhf is imported (check with: PYTHONPATH={wt}/src /venv/bin/python -c "import pyhf; print(pyhf.__file__)").
Run tests like: cd {wt} && PYTHONPATH={wt}/src /venv/bin/python -m pytest -q -p no:cacheprovider --timeout=900 tests/test_pdf.py
The full suite (about 1300 tests): cd {wt} && PYTHONPATH={wt}/src /venv/bin/python -m pytest -q -p no:cacheprovider --timeout=900 --continue-on-collection-errors   -- it takes roughly 15-30 minutes, so run the relevant test files while iterating and the full suite once at the end (tests/test_optim.py is known not to collect in this environment, and a few toy-based tests are known to fail before any change because of a NumPy incompatibility; compare against an unmodified run only if something fails).

THE PROPERTY (a semantic property users of pyhf rely on):

Title: {p['title']}
Statement: {p['statement']}
It is meant to hold for: {p['quantifier']['text']}

YOUR TASK: write a change to the library source (files under {wt}/src/pyhf only; do not edit tests) that BREAKS this property while
  (a) the code still imports and works for ordinary use,
  (b) the existing test suite still passes exactly as before your change,
  (c) the breakage needs something specific to manifest -- e.g. an unusual but legitimate input (a particular model shape, parameter value region, option combination), a multi-step sequence of operations, a particular history, or two cooperating code sites that each look fine alone -- NOT something that ordinary use or the first obvious example would expose at once.
Make it realistic: the kind of slip a maintainer could make while refactoring or optimising (wrong index or offset, swapped or dropped argument, >= vs >, stale cache, wrong neutral element, mis-ordered list, missing copy, missing subscription, a fast path that is wrong for a corner of the input space ...). No sabotage keyed on magic constants, no random behaviour, no environment checks. {variant}

DELIVERABLES, all in {wt}/_seed/ :
  1. patch.diff   -- output of `git -C {wt} diff -- src` (the change; src only)
  2. demo.py      -- a small standalone program that exits 0 (prints OK) on the ORIGINAL code and exits non-zero (assertion error with a clear message) WITH your change applied. It must only use pyhf's public behaviour relevant to the property. Run it as: PYTHONPATH={wt}/src /venv/bin/python {wt}/_seed/demo.py . Verify both directions yourself. Do NOT use `git stash` (the stash is shared with other worktrees): save your change with `git -C {wt} diff -- src > {wt}/_seed/patch.diff`, test the original with `git -C {wt} apply -R {wt}/_seed/patch.diff`, then re-apply with `git -C {wt} apply {wt}/_seed/patch.diff`.
  3. NOTES.md     -- which clause of the property is broken, exactly what is needed for it to manifest, why the existing tests do not notice, the exact test commands you ran and their pass/fail counts.
Leave the change applied in the worktree when you finish. In your final answer give a 10-line summary (files changed, what breaks, trigger, test results).""")
