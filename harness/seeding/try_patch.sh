#!/bin/sh
# usage: try_patch.sh <patch.diff|-R:commit> <check id>... [-- tier]
# Runs the given checks against a scratch copy of /repo/src with the patch applied (PYHF_SRC), then removes the copy.
set -e
patch=$1; shift
d=$(mktemp -d /tmp/try.XXXXXX)
trap 'rm -rf "$d"' EXIT
mkdir -p "$d/src" && cp -r /repo/src/pyhf "$d/src/pyhf"
case "$patch" in
  -R:*) git -C /repo show "${patch#-R:}" -- src | patch -R -p1 -d "$d" >/dev/null ;;
  *) patch -p1 -d "$d" < "$patch" >/dev/null || { echo "PATCH DOES NOT APPLY: $patch"; exit 3; } ;;
esac
tier=${VERIF_TIER:-quick}
for c in "$@"; do
  echo "== $c on patched copy"
  PYHF_SRC="$d/src" /verif/vf check "$c" --tier "$tier" 2>&1 | grep -E "^(OK|VIOLATION|KNOWN-FINDING|MACHINERY|MODEL-DRIFT)|what:" | cut -c1-260 | head -${TRY_LINES:-8} || true
done
# evidence files were overwritten by the patched runs: restore the committed ones
git -C /verif checkout -- evidence 2>/dev/null || true
rm -rf /verif/replays
