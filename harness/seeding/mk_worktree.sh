#!/bin/sh
# usage: mk_worktree.sh <name>   -> /tmp/seed/<name> (detached worktree of /repo HEAD, with the generated _version.py)
set -e
d=/tmp/seed/$1
mkdir -p /tmp/seed
git -C /repo worktree add --detach "$d" HEAD -q
cp /repo/src/pyhf/_version.py "$d/src/pyhf/_version.py"
mkdir -p "$d/_seed"
echo "$d"
