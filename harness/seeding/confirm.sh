#!/bin/sh
# usage: confirm.sh <worktree name under /tmp/seed> <seeded id, e.g. C03a>
# Confirms an agent's seeded change: demo fails with it and passes without it; pinned suite (guard off) still
# matches BASELINE.json with it.  Copies patch/demo/notes to /verif/seeded/<id>/ and writes confirm.log there.
# (No git stash: worktrees share one stash.)
wt=/tmp/seed/$1; id=$2
out=/verif/seeded/$id; mkdir -p "$out"
cp "$wt/_seed/demo.py" "$out/" 2>/dev/null
cp "$wt/_seed/NOTES.md" "$out/agent_notes.md" 2>/dev/null
[ -f "$out/patch.diff" ] || cp "$wt/_seed/patch.diff" "$out/patch.diff"
{
echo "== $(date -u) confirm $id in $wt"
git -C "$wt" checkout -- src
echo "-- demo WITHOUT the change:"
( cd "$wt" && PYTHONPATH=$wt/src /venv/bin/python _seed/demo.py >/tmp/seed/$1.demo_without.log 2>&1; echo "exit=$?"; tail -2 /tmp/seed/$1.demo_without.log )
git -C "$wt" apply "$wt/_seed/patch.diff" || echo "!! own patch does not apply in its worktree"
echo "-- worktree diff: $(git -C "$wt" diff --stat -- src | tail -1)"
echo "-- demo WITH the change:"
( cd "$wt" && PYTHONPATH=$wt/src /venv/bin/python _seed/demo.py >/tmp/seed/$1.demo_with.log 2>&1; echo "exit=$?" ; tail -3 /tmp/seed/$1.demo_with.log )
echo "-- patch (as kept in /verif/seeded/$id) applies to /repo HEAD:"
( cd /repo && git apply --check "$out/patch.diff" && echo "applies cleanly" )
echo "-- pinned suite with the change (guard off), compared with BASELINE.json:"
/venv/bin/python /verif/harness/baseline.py "$wt" 2>&1 | tail -4
} > "$out/confirm.log" 2>&1
tail -14 "$out/confirm.log"
