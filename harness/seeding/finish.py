"""usage: finish.py <seeded id> <property> <caught_by comma list> <needs (free text)> [<what I strengthened>]
Writes /verif/seeded/<id>/meta.json from the confirm.log and the arguments."""
import json, re, sys
from pathlib import Path
sid, prop, caught, needs = sys.argv[1:5]
extra = sys.argv[5] if len(sys.argv) > 5 else ""
d = Path("/verif/seeded") / sid
log = (d / "confirm.log").read_text() if (d / "confirm.log").exists() else ""
def grab(after):
    m = re.search(re.escape(after) + r".*\n(?:(?!-- ).*\n)*?exit=(\d+)", log)
    return int(m.group(1)) if m else None
suite = re.search(r"baseline stable_pass: (\d+)\s+passed now: (\d+)\s+missing: (\d+)", log)
meta = {
    "id": sid, "breaks_property": prop, "needs_to_manifest": needs,
    "files": {"patch": "patch.diff", "demonstration": "demo.py", "agent_notes": "agent_notes.md", "confirmation_log": "confirm.log"},
    "confirmed_by_me": {
        "demo_exit_without_change": grab("-- demo WITHOUT the change"),
        "demo_exit_with_change": grab("-- demo WITH the change"),
        "patch_applies_to_repo_head": "applies cleanly" in log,
        "pinned_suite_with_change": ({"stable_pass": int(suite.group(1)), "passed_now": int(suite.group(2)), "missing": int(suite.group(3))} if suite else "see confirm.log"),
        "commands": ["harness/seeding/confirm.sh (demo without/with the change in the agent's scratch worktree; harness/baseline.py = pinned pytest command, guard off, compared with BASELINE.json)",
                     "harness/seeding/try_patch.sh seeded/%s/patch.diff %s (checks against a scratch copy of /repo/src with the patch, PYHF_SRC)" % (sid, " ".join(caught.split(",")))],
    },
    "caught_by_checks": [c for c in caught.split(",") if c],
    "strengthened_because_of_it": extra,
    "origin": "independent sub-agent given only the property text and a scratch worktree",
}
(d / "meta.json").write_text(json.dumps(meta, indent=1) + "\n")
print(json.dumps(meta["confirmed_by_me"]))
