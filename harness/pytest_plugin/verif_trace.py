"""pytest plugin (-p verif_trace): marks test boundaries in the pyhf._verif trace so that the repository's own tests
become a source of traces for TLC validation.  Lives in /verif; the repository is not modified."""
import pytest


def _emit(ev, **kw):
    try:
        import pyhf
        from pyhf import _verif
    except Exception:  # noqa: BLE001
        return
    if _verif.ON:
        _verif.emit(ev, **kw)


@pytest.hookimpl(hookwrapper=True)
def pytest_runtest_call(item):
    try:
        import pyhf
        ev = pyhf.events.__dict__["__events"].get("tensorlib_changed")
        n = len(ev._callbacks) if ev is not None else 0
        tl, opt = pyhf.get_backend()
        _emit("test.start", nodeid=item.nodeid, backend=tl.name, precision=tl.precision, optimizer=opt.name, registry=n)
    except Exception:  # noqa: BLE001
        _emit("test.start", nodeid=item.nodeid, backend="?", precision="?", optimizer="?", registry=-1)
    outcome = yield
    _emit("test.end", nodeid=item.nodeid, failed=outcome.excinfo is not None)
