"""pytest plugin (-p verif_trace): marks test boundaries in the pyhf._verif trace so that the repository's own tests
become a source of traces for TLC validation.  Lives in /verif; the repository is not modified."""
import pytest


def _emit(ev, **kw):
    try:
        import pyhf
        from pyhf import _verif
    except Exception:  # noqa: BLE001
        return
    if _verif.ON:
        _verif.emit(ev, **kw)


@pytest.hookimpl(hookwrapper=True)
def pytest_runtest_call(item):
    try:
        import pyhf
        ev = pyhf.events.__dict__["__events"].get("tensorlib_changed")
        n = len(ev._callbacks) if ev is not None else 0
        tl, opt = pyhf.get_backend()
        _emit("test.start", nodeid=item.nodeid, backend=tl.name, precision=tl.precision, optimizer=opt.name, registry=n)
    except Exception:  # noqa: BLE001
        _emit("test.start", nodeid=item.nodeid, backend="?", precision="?", optimizer="?", registry=-1)
    outcome = yield
    _emit("test.end", nodeid=item.nodeid, failed=outcome.excinfo is not None)


# ---- harness-side observer (H9/H6 of DESIGN 3.4): pyhf.infer.hypotest is wrapped so that every call a test makes is bracketed
# by ht.call / ht.return records and followed by the Asimov dataset recomputed through the model's own public API
def _install_hypotest_observer():
    try:
        import pyhf
        from pyhf import _verif
        import pyhf.infer as infer
    except Exception:  # noqa: BLE001
        return
    if not _verif.ON or getattr(infer.hypotest, "_verif_wrapped", False):
        return
    try:
        from htcodes import classify
    except Exception:  # noqa: BLE001
        return
    orig = infer.hypotest

    def hypotest(poi_test, data, pdf, init_pars=None, par_bounds=None, fixed_params=None, calctype="asymptotics",
                 return_tail_probs=False, return_expected=False, return_expected_set=False, return_calculator=False, **kwargs):
        buf = []
        try:
            tl = pyhf.tensorlib
            obs = [float(x) for x in tl.tolist(tl.astensor(data))]
            _verif.emit("ht.call", kind=kwargs.get("test_stat", "qtilde"), calc=calctype, ntoys=int(kwargs.get("ntoys", 2000)),
                        mu=float(tl.tolist(tl.astensor(poi_test))) if not isinstance(poi_test, (int, float)) else float(poi_test),
                        poi=pdf.config.poi_index, obs=obs, tail=bool(return_tail_probs), exp=bool(return_expected),
                        expset=bool(return_expected_set), calcflag=bool(return_calculator))
            _verif.set_sink(buf.append)
        except Exception:  # noqa: BLE001
            pass
        try:
            res = orig(poi_test, data, pdf, init_pars, par_bounds, fixed_params, calctype, return_tail_probs, return_expected,
                       return_expected_set, return_calculator, **kwargs)
        finally:
            _verif.set_sink(None)
        try:
            rets = [r["x"] for r in buf if r["ev"] == "fit.return"]
            asimov = []
            if calctype == "asymptotics" and len(rets) >= 3:
                tl = pyhf.tensorlib
                asimov = [float(x) for x in tl.tolist(pdf.expected_data(tl.astensor(rets[2])))]
            _verif.emit("ht.return", layout=classify(res)[0], asimov=asimov)
        except Exception:  # noqa: BLE001
            pass
        return res
    hypotest._verif_wrapped = True
    infer.hypotest = hypotest


# ---- harness-side observer for C06: the five test statistics are wrapped (in the module that defines them and in every module that
# imported them by name) so that every call a test makes is bracketed by ts.call / ts.return around the H4 records of its two fits
_TS = {"tmu": "t", "tmu_tilde": "ttilde", "qmu": "q", "qmu_tilde": "qtilde", "q0": "q0"}


def _install_teststat_observer():
    try:
        import sys
        import pyhf
        from pyhf import _verif
        import pyhf.infer.test_statistics as tsmod
    except Exception:  # noqa: BLE001
        return
    if not _verif.ON or getattr(tsmod.qmu, "_verif_wrapped", False):
        return

    def wrap(name, kind, orig):
        def stat(mu, data, pdf, init_pars, par_bounds, fixed_params, return_fitted_pars=False):
            ok = False
            try:
                tl = pyhf.tensorlib
                cfg = pdf.config
                init = [float(x) for x in tl.tolist(tl.astensor(init_pars if init_pars is not None else cfg.suggested_init()))]
                fixed = [bool(x) for x in (fixed_params if fixed_params is not None else cfg.suggested_fixed())]
                m = mu if isinstance(mu, (int, float)) else tl.tolist(tl.astensor(mu))
                while isinstance(m, list):
                    m = m[0]
                _verif.emit("ts.call", kind=kind, mu=float(m), poi=cfg.poi_index,
                            held=[[i, init[i]] for i in range(len(fixed)) if fixed[i] and i != cfg.poi_index])
                ok = True
            except Exception:  # noqa: BLE001
                pass
            res = orig(mu, data, pdf, init_pars, par_bounds, fixed_params, return_fitted_pars=return_fitted_pars)
            if ok:
                try:
                    tl = pyhf.tensorlib
                    val, pars = (res[0], res[1]) if return_fitted_pars else (res, None)
                    v = tl.tolist(val)
                    while isinstance(v, list):
                        v = v[0]
                    rec = {"result": float(v)}
                    if pars is not None:
                        rec["pars1"] = [float(x) for x in tl.tolist(pars[0])]
                        rec["pars2"] = [float(x) for x in tl.tolist(pars[1])]
                    _verif.emit("ts.return", **rec)
                except Exception:  # noqa: BLE001
                    pass
            return res
        stat._verif_wrapped = True
        stat.__name__ = name
        stat.__doc__ = orig.__doc__
        return stat

    for name, kind in _TS.items():
        orig = getattr(tsmod, name)
        w = wrap(name, kind, orig)
        for mod in list(sys.modules.values()):
            if mod is not None and getattr(mod, "__name__", "").startswith("pyhf") and getattr(mod, "__dict__", {}).get(name) is orig:
                setattr(mod, name, w)


def pytest_sessionstart(session):
    _install_hypotest_observer()
    _install_teststat_observer()
