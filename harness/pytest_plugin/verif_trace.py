"""pytest plugin (-p verif_trace): marks test boundaries in the pyhf._verif trace so that the repository's own tests
become a source of traces for TLC validation.  Lives in /verif; the repository is not modified."""
import pytest


def _emit(ev, **kw):
    try:
        import pyhf
        from pyhf import _verif
    except Exception:  # noqa: BLE001
        return
    if _verif.ON:
        _verif.emit(ev, **kw)


@pytest.hookimpl(hookwrapper=True)
def pytest_runtest_call(item):
    try:
        import pyhf
        ev = pyhf.events.__dict__["__events"].get("tensorlib_changed")
        n = len(ev._callbacks) if ev is not None else 0
        tl, opt = pyhf.get_backend()
        _emit("test.start", nodeid=item.nodeid, backend=tl.name, precision=tl.precision, optimizer=opt.name, registry=n)
    except Exception:  # noqa: BLE001
        _emit("test.start", nodeid=item.nodeid, backend="?", precision="?", optimizer="?", registry=-1)
    outcome = yield
    _emit("test.end", nodeid=item.nodeid, failed=outcome.excinfo is not None)


# ---- harness-side observer (H9/H6 of DESIGN 3.4): pyhf.infer.hypotest is wrapped so that every call a test makes is bracketed
# by ht.call / ht.return records and followed by the Asimov dataset recomputed through the model's own public API
def _install_hypotest_observer():
    try:
        import pyhf
        from pyhf import _verif
        import pyhf.infer as infer
    except Exception:  # noqa: BLE001
        return
    if not _verif.ON or getattr(infer.hypotest, "_verif_wrapped", False):
        return
    try:
        from htcodes import classify
    except Exception:  # noqa: BLE001
        return
    orig = infer.hypotest

    def hypotest(poi_test, data, pdf, init_pars=None, par_bounds=None, fixed_params=None, calctype="asymptotics",
                 return_tail_probs=False, return_expected=False, return_expected_set=False, return_calculator=False, **kwargs):
        buf = []
        try:
            tl = pyhf.tensorlib
            obs = [float(x) for x in tl.tolist(tl.astensor(data))]
            _verif.emit("ht.call", kind=kwargs.get("test_stat", "qtilde"), calc=calctype, ntoys=int(kwargs.get("ntoys", 2000)),
                        mu=float(tl.tolist(tl.astensor(poi_test))) if not isinstance(poi_test, (int, float)) else float(poi_test),
                        poi=pdf.config.poi_index, obs=obs, tail=bool(return_tail_probs), exp=bool(return_expected),
                        expset=bool(return_expected_set), calcflag=bool(return_calculator))
            _verif.set_sink(buf.append)
        except Exception:  # noqa: BLE001
            pass
        try:
            res = orig(poi_test, data, pdf, init_pars, par_bounds, fixed_params, calctype, return_tail_probs, return_expected,
                       return_expected_set, return_calculator, **kwargs)
        finally:
            _verif.set_sink(None)
        try:
            rets = [r["x"] for r in buf if r["ev"] == "fit.return"]
            asimov = []
            if calctype == "asymptotics" and len(rets) >= 3:
                tl = pyhf.tensorlib
                asimov = [float(x) for x in tl.tolist(pdf.expected_data(tl.astensor(rets[2])))]
            _verif.emit("ht.return", layout=classify(res)[0], asimov=asimov)
        except Exception:  # noqa: BLE001
            pass
        return res
    hypotest._verif_wrapped = True
    infer.hypotest = hypotest


def pytest_sessionstart(session):
    _install_hypotest_observer()
