"""Worker side of C08 / C14(protocol): real pyhf.infer.hypotest driven from Hypotest.tla cases (flags, statistics,
calculators, prerequisite faults) with full traces for TraceHypotest.tla, and from FitClosed.tla cases for the analytic
asymptotic CLs."""
import json
import math

import leaf
import lanes
from common import frac
from fit_replay import Tracer, counting_model, FUN_TOL

L = lanes.limbs


def nuis_spec():
    return {"channels": [{"name": "ch", "samples": [
        {"name": "sig", "data": [6.0, 9.0], "modifiers": [{"name": "mu", "type": "normfactor", "data": None}]},
        {"name": "bkg", "data": [55.0, 48.0], "modifiers": [{"name": "u", "type": "shapesys", "data": [6.0, 9.0]}]}]}],
        "parameters": []}


from htcodes import classify  # noqa: E402


def tofloat(pyhf, x):
    v = pyhf.tensorlib.tolist(x)
    return float(v[0] if isinstance(v, list) else v)


def fits_to_events(tr, pyhf, model, data_of_fit):
    """turn the buffered H4 records into order-lane events; data_of_fit(i) gives the dataset of the i-th fit for the
    honest-objective re-evaluation"""
    evs, returns = [], []
    i = -1
    cur_data = None
    for r in tr.buf:
        ev = r["ev"]
        if not ev.startswith("fit."):
            continue
        e = {"ev": ev}
        if ev == "fit.shim":
            i += 1
            cur_data = r["data"]
            e.update(npars=r["npars"], init=[L(x) for x in r["init"]], bounds=[[L(a), L(b)] for a, b in r["bounds"]],
                     fixed_vals=[[k, L(v)] for k, v in r["fixed_vals"]], do_grad=r["do_grad"], do_stitch=r["do_stitch"],
                     x0=[L(x) for x in r["x0"]], vbounds=[[L(a), L(b)] for a, b in r["vbounds"]],
                     mfixed=[[k, L(v)] for k, v in r["mfixed"]], data=[L(x) for x in r["data"]])
        elif ev == "fit.raw":
            e.update(x=[L(x) for x in r["x"]], fun=L(r["fun"]), success=r["success"])
        elif ev == "fit.return":
            tl = pyhf.tensorlib
            try:
                ref = float(tl.tolist(pyhf.infer.mle.twice_nll(tl.astensor(r["x"]), tl.astensor(cur_data), model))[0])
                u = lanes.ulps(r["fun"], ref)
                if abs(r["fun"] - ref) <= 1e-11 * max(1.0, abs(ref)):
                    u = min(u, 1)
            except Exception:  # noqa: BLE001
                u = 999999
            e.update(x=[L(x) for x in r["x"]], fun=L(r["fun"]), fun_ulps=u)
            returns.append(r["x"])
        evs.append(e)
    tr.buf.clear()
    return evs, returns


def replay_layout(pyhf, backend, precision, chunk, seed):
    import numpy as np
    out = {"n": 0, "nontrivial": 0, "findings": [], "hypotests": 0, "refusals": 0, "traces": [], "toy_fail": 0}
    tr = Tracer(pyhf)

    def add(key, detail, tags):
        if len(out["findings"]) < 30:
            out["findings"].append(("C08", key, detail, tags))
    pyhf.set_backend(backend, "scipy", precision=precision)
    spec = nuis_spec()
    # ONE model object per worker serves every case (different observations, flags, calculators in turn): a result must not
    # depend on what was computed earlier on the same model (stale per-model caches of fits or Asimov data would show here)
    shared = {True: pyhf.Model(spec, poi_name="mu"), False: pyhf.Model(spec, poi_name=None)}
    for ci, line in enumerate(chunk):
        case = json.loads(line)
        out["n"] += 1
        kind, calc, ntoys = case["kind"], case["calc"], case["ntoys"]
        flags = dict(return_tail_probs=case["tail"], return_expected=case["exp"], return_expected_set=case["expset"],
                     return_calculator=case["calcflag"])
        model = shared[bool(case["has_poi"])]
        cfg = model.config
        obs = [58.0 + (ci % 3), 61.0 - (ci % 2)]
        data = obs + list(cfg.auxdata)
        mu = 0.0 if kind == "q0" else 1.0
        fixed = cfg.suggested_fixed()
        if case["poi_fixed"]:
            fixed = list(fixed)
            fixed[cfg.poi_index] = True
        # the caller's own init / bounds / mask (not the model's suggestions): every other case pins one nuisance parameter and
        # narrows one bound; every fit of the test has to run under exactly these
        init, bounds = list(cfg.suggested_init()), [list(b) for b in cfg.suggested_bounds()]
        fixed = list(fixed)
        if ci % 2 and cfg.poi_index is not None:
            nuis = [i for i in range(cfg.npars) if i != cfg.poi_index]
            j = nuis[ci % len(nuis)]
            init[j], fixed[j] = 1.03, True
            k2 = nuis[(ci + 1) % len(nuis)]
            bounds[k2] = [bounds[k2][0], bounds[k2][1] - 0.5]
        held = [[i, float(init[i])] for i in range(cfg.npars) if fixed[i] and i != cfg.poi_index]
        kw = dict(test_stat=kind, calctype=calc, init_pars=init, par_bounds=bounds, fixed_params=fixed, **flags)
        if calc == "toybased":
            kw["ntoys"] = ntoys
            kw["track_progress"] = False
        tags = [f"kind:{kind}", f"calc:{calc}", "flags:" + "".join("1" if case[k] else "0" for k in ("tail", "exp", "expset", "calcflag"))]
        det = {"case": {k: case[k] for k in case if k != "plan"}, "obs": obs, "mu": mu}
        sd = 1000 * seed + ci
        np.random.seed(sd)
        tr.buf.clear()
        try:
            res = pyhf.infer.hypotest(mu, data, model, **kw)
        except Exception as e:  # noqa: BLE001
            tr.buf.clear()
            name = type(e).__name__
            if case["outcome"] and case["outcome"][0] in ("UnspecifiedPOI", "InvalidModel"):
                out["refusals"] += 1
                if name != case["outcome"][0]:
                    add(f"hypotest refused with {name}, expected {case['outcome'][0]}", det, tags + ["refusal"])
            elif name == "FailedMinimization" and calc == "toybased":
                out["toy_fail"] += 1      # a toy dataset the fit does not converge on: no success, no return
            else:
                add(f"hypotest raised {name}: {e}", det, tags + ["exception"])
            continue
        if case["outcome"] and case["outcome"][0] in ("UnspecifiedPOI", "InvalidModel"):
            add(f"hypotest accepted a model it must refuse ({case['outcome'][0]})", det, tags + ["refusal"])
            tr.buf.clear()
            continue
        out["hypotests"] += 1
        codes, items = classify(res)
        evs, returns = fits_to_events(tr, pyhf, model, None)
        tl = pyhf.tensorlib
        asimov, sig, bkg = [], [], []
        try:
            if calc == "asymptotics" and len(returns) >= 3:
                asimov = [float(x) for x in tl.tolist(model.expected_data(tl.astensor(returns[2])))]
            if calc == "toybased" and len(returns) >= 4:
                np.random.seed(sd)
                sig = [[float(x) for x in row] for row in tl.tolist(model.make_pdf(tl.astensor(returns[2])).sample((ntoys,)))]
                bkg = [[float(x) for x in row] for row in tl.tolist(model.make_pdf(tl.astensor(returns[3])).sample((ntoys,)))]
        except Exception:  # noqa: BLE001
            pass
        call = {"ev": "ht.call", "kind": kind, "calc": calc, "ntoys": ntoys, "mu": L(mu), "poi": cfg.poi_index,
                "obs": [L(x) for x in data], "asimov": [L(x) for x in asimov], "sig": [[L(x) for x in r] for r in sig],
                "bkg": [[L(x) for x in r] for r in bkg], "tail": case["tail"], "exp": case["exp"], "expset": case["expset"], "calcflag": case["calcflag"],
                "held": [[i, L(v)] for i, v in held], "bounds": [[L(a), L(b)] for a, b in bounds]}
        out["traces"].append({"id": 0, "label": f"{kind}/{calc}/{tags[-1]}", "events": [call] + evs + [{"ev": "ht.return", "layout": codes}]})
        # Binding A: identity of the entries with the calculator's own values (same seed => same toys)
        np.random.seed(sd)
        try:
            ref = pyhf.infer.hypotest(mu, data, model, **dict(kw, return_tail_probs=True, return_expected=True, return_expected_set=True, return_calculator=True))
        except Exception:  # noqa: BLE001
            tr.buf.clear()
            continue
        tr.buf.clear()
        r_obs, r_tail, r_med, r_band, r_calc = ref
        # the documented meaning of each entry, from the calculator's own API (asymptotics: deterministic)
        if calc == "asymptotics":
            try:
                tsv = r_calc.teststatistic(mu)
                sbd, bd = r_calc.distributions(mu)
                c_sb, c_b, c_s = r_calc.pvalues(tsv, sbd, bd)
                e_sb, e_b, e_s = r_calc.expected_pvalues(sbd, bd)
                tr.buf.clear()
                isq0 = kind == "q0"
                want = {"obs": c_sb if isq0 else c_s, "tail": [c_b] if isq0 else [c_sb, c_b],
                        "median": (e_sb if isq0 else e_s)[2], "band": list(e_sb if isq0 else e_s)}
                f = lambda x: tofloat(pyhf, x)  # noqa: E731
                close = lambda a, b: abs(f(a) - f(b)) <= 1e-9 * max(abs(f(b)), 1e-12) or (math.isnan(f(a)) and math.isnan(f(b)))  # noqa: E731
                okk = close(r_obs, want["obs"]) and len(r_tail) == len(want["tail"]) and all(close(a, b) for a, b in zip(r_tail, want["tail"])) \
                    and close(r_med, want["median"]) and len(r_band) == 5 and all(close(a, b) for a, b in zip(r_band, want["band"]))
                if not okk:
                    add("entries of the returned tuple are not (CLs | CLs+b for q0, [CLs+b, CLb] | [CLb], median expected, five-point band) as documented",
                        dict(det, got={"obs": f(r_obs), "tail": [f(x) for x in r_tail], "median": f(r_med), "band": [f(x) for x in r_band]},
                             calculator={"CLsb": f(c_sb), "CLb": f(c_b), "CLs": f(c_s)}), tags + ["layout", "meaning"])
                    continue
            except Exception as e:  # noqa: BLE001
                tr.buf.clear()
                add(f"calculator API failed: {type(e).__name__}: {e}", det, tags + ["exception"])
                continue
        exp_items = [("obs", r_obs)]
        if case["tail"]:
            exp_items.append(("tail", r_tail))
        if case["exp"]:
            exp_items.append(("median", r_med))
        if case["expset"]:
            exp_items.append(("band", r_band))
        if case["calcflag"]:
            exp_items.append(("calc", r_calc))
        if len(items) != len(exp_items):
            add("hypotest returns a different number of entries than requested", dict(det, got=codes), tags + ["layout"])
            continue
        for (name, e), g in zip(exp_items, items):
            try:
                if name == "calc":
                    okk = hasattr(g, "teststatistic")
                elif name in ("tail", "band"):
                    okk = isinstance(g, (list, tuple)) and len(g) == len(e) and all(
                        (tofloat(pyhf, a) == tofloat(pyhf, b)) or (math.isnan(tofloat(pyhf, a)) and math.isnan(tofloat(pyhf, b))) for a, b in zip(g, e))
                else:
                    okk = (not isinstance(g, (list, tuple))) and (tofloat(pyhf, g) == tofloat(pyhf, e) or (math.isnan(tofloat(pyhf, g)) and math.isnan(tofloat(pyhf, e))))
            except Exception:  # noqa: BLE001
                okk = False
            if not okk:
                add(f"entry '{name}' of the returned tuple is not the {name} value (wrong order / wrong extra)", dict(det, got=codes), tags + ["layout", name])
                break
        if sum(1 for k in ("tail", "exp", "expset", "calcflag") if case[k]) >= 2:
            out["nontrivial"] += 1
    tr.close()
    return out


def replay_closed(pyhf, backend, precision, chunk, seed):
    out = {"n": 0, "nontrivial": 0, "findings": [], "hypotests": 0, "traces": []}
    tr = Tracer(pyhf)

    def add(key, detail, tags):
        if len(out["findings"]) < 30:
            out["findings"].append(("C08", key, detail, tags))
    nll = lambda terms: -2 * sum(leaf.term_logp(t, frac) for t in terms)  # noqa: E731
    mp = leaf.mp
    for line in chunk:
        case = json.loads(line)
        lo = frac(case["lo"])
        if any(lo * frac(s) + frac(b) <= 0 for s, b in zip(case["sig"], case["bkg"])):
            continue
        mu = frac(case["mu"])
        if mu <= 0 or mu < lo:
            continue
        out["n"] += 1
        model, obs = counting_model(pyhf, case)
        data = obs + list(model.config.auxdata)
        muhat = frac(case["muhat"])
        for kind in (("qtilde",) if lo == 0 else ("q",)) + ("q0",):
            for opt in ("scipy",):
                pyhf.set_backend(backend, opt, precision=precision)
                tags = [f"kind:{kind}", f"fam:{case['fam']}", f"opt:{opt}"]
                det = {"case": {k: case[k] for k in ("fam", "s", "b", "n", "mu", "lo", "muhat")}, "kind": kind}
                if kind == "q0":
                    q = mp.mpf(0) if muhat < 0 else max(mp.mpf(0), nll(case["terms_0"]) - nll(case["terms_hat"]))
                    qA = max(mp.mpf(0), nll(case["a1_terms_0"]) - nll(case["a1_terms_hat"]))
                    if lo != 0:
                        continue
                    exp_obs = 1 - mp.ncdf(mp.sqrt(q))          # p0 = CLs+b of the discovery test
                    mu_t = 0.0
                else:
                    q = mp.mpf(0) if muhat > mu else max(mp.mpf(0), nll(case["terms_mu"]) - nll(case["terms_hat"]))
                    qA = max(mp.mpf(0), nll(case["a0_terms_mu"]) - nll(case["a0_terms_hat"]))
                    if qA <= 0:
                        continue
                    r, rA = mp.sqrt(q), mp.sqrt(qA)
                    if kind == "qtilde" and q > qA:
                        clsb = 1 - mp.ncdf((q + qA) / (2 * rA))
                        clb = 1 - mp.ncdf((q - qA) / (2 * rA))
                    else:
                        clsb = 1 - mp.ncdf(r)
                        clb = 1 - mp.ncdf(r - rA)
                    exp_obs = clsb / clb
                    exp_med = (1 - mp.ncdf(rA)) / mp.mpf("0.5")   # median expected: q = qA under background-only
                    mu_t = float(mu)
                try:
                    res = pyhf.infer.hypotest(mu_t, data, model, test_stat=kind, return_expected=True)
                    tr.buf.clear()
                except Exception as e:  # noqa: BLE001
                    tr.buf.clear()
                    add(f"hypotest raised {type(e).__name__}: {e}", det, tags + ["exception"])
                    continue
                out["hypotests"] += 1
                got_obs, got_med = tofloat(pyhf, res[0]), tofloat(pyhf, res[1])
                near = abs(float(muhat) - mu_t) <= 1e-3 * max(1.0, abs(mu_t))
                if not near and abs(got_obs - float(exp_obs)) > 1e-4 * max(float(exp_obs), 1e-3) + 1e-7:
                    add(f"observed {'p0' if kind == 'q0' else 'CLs'} differs from the analytic asymptotic value",
                        dict(det, got=got_obs, expected=float(exp_obs), q=float(q), qA=float(qA)), tags + ["value"])
                if kind != "q0" and abs(got_med - float(exp_med)) > 1e-4 * max(float(exp_med), 1e-3) + 1e-7:
                    add("median expected CLs differs from the analytic value Phi(-sqrt(qA))/0.5",
                        dict(det, got=got_med, expected=float(exp_med), qA=float(qA)), tags + ["expected"])
        if frac(case["n"]) > 0:
            out["nontrivial"] += 1
    tr.close()
    return out
