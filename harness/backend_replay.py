"""Worker side of the C11 replay: behaviours of Backend.tla stepped through the real pyhf.

After every step the projection of the implementation state (current backend/precision/optimiser, default,
raw length of the 'tensorlib_changed' callback list) is compared with the specification's post-state, and every
live object is evaluated and compared bit-exactly with a freshly built one under the now-current backend.
"""
import gc
import json
import math

MODEL_SPECS = {
    "model_a": {"channels": [
        {"name": "SR", "samples": [
            {"name": "sig", "data": [5.0, 7.5], "modifiers": [{"name": "mu", "type": "normfactor", "data": None},
                                                               {"name": "lumi", "type": "lumi", "data": None}]},
            {"name": "bkg", "data": [50.0, 62.5], "modifiers": [
                {"name": "shape", "type": "histosys", "data": {"lo_data": [45.0, 60.0], "hi_data": [57.0, 64.5]}},
                {"name": "norm", "type": "normsys", "data": {"lo": 0.8, "hi": 1.25}},
                {"name": "stat_SR", "type": "staterror", "data": [3.0, 4.5]}]}]},
        {"name": "CR", "samples": [
            {"name": "bkg", "data": [110.0], "modifiers": [
                {"name": "norm", "type": "normsys", "data": {"lo": 0.75, "hi": 1.5}},
                {"name": "uncorr", "type": "shapesys", "data": [10.0]},
                {"name": "free", "type": "shapefactor", "data": None}]}]}],
        "parameters": [{"name": "lumi", "auxdata": [1.0], "sigmas": [0.02], "bounds": [[0.5, 1.5]], "inits": [1.0]}]},
    "model_b": {"channels": [
        {"name": "c", "samples": [
            {"name": "s", "data": [3.0, 6.0, 9.0], "modifiers": [{"name": "mu", "type": "normfactor", "data": None}]},
            {"name": "b", "data": [30.0, 40.0, 50.0], "modifiers": [{"name": "u", "type": "shapesys", "data": [3.0, 5.0, 6.0]}]}]}],
        "parameters": []},
}
MODEL_KW = {"model_a": {"modifier_settings": {"histosys": {"interpcode": "code2"}, "normsys": {"interpcode": "code1"}}}, "model_b": {}}
INTERP = {"interp0": 0, "interp1": 1, "interp2": 2, "interp4": 4, "interp4p": "4p"}
HSET = [[[[8.0, 0.5], [10.0, 1.0], [13.0, 2.0]]], [[[9.0, 0.8], [10.0, 1.0], [11.5, 1.25]]]]


def make(pyhf, kind):
    if kind in MODEL_SPECS:
        return pyhf.Model(MODEL_SPECS[kind], poi_name="mu", **MODEL_KW[kind])
    if kind in INTERP:
        return pyhf.interpolators.get(INTERP[kind])(HSET)
    if kind == "viewer":
        import importlib
        return importlib.import_module("pyhf.tensor.common")._TensorViewer([[0, 3], [1], [2, 4]], names=["a", "b", "c"])
    raise KeyError(kind)


def evaluate(pyhf, kind, obj, k):
    """Deterministic evaluation; returns (python value, tensor for type check)."""
    tl = pyhf.tensorlib
    if kind in MODEL_SPECS:
        n = obj.config.npars
        init = obj.config.suggested_init()
        pars = [v * (1.0 + 0.125 * ((i + k) % 3)) + 0.25 * ((i + 2 * k) % 2) for i, v in enumerate(init)]
        data = [float(11 * i % 7 + 40) for i in range(obj.config.nmaindata)] + list(obj.config.auxdata)
        e = obj.expected_data(pars)
        lp = obj.logpdf(pars, data)
        return [tl.tolist(e), tl.tolist(lp)], e
    if kind in INTERP:
        # the shape of the alpha sets alternates between evaluations (what an interpolator precomputed for one shape must not leak)
        al = tl.astensor([[-1.5, 0.25 * (k % 5)], [2.0, -0.5]] if k % 2 == 0 else [[-1.5, 0.25 * (k % 5), 1.0], [2.0, -0.5, -1.0]])
        r = obj(al)
        return tl.tolist(r), r
    st = obj.stitch([tl.astensor([1.0, 4.0]), tl.astensor([2.0]), tl.astensor([3.0, 5.0])])
    sp = obj.split(tl.astensor([10.0, 20.0, 30.0, 40.0, 50.0]))
    return [tl.tolist(st), [tl.tolist(x) for x in sp]], st


def same(a, b):
    if isinstance(a, list):
        return isinstance(b, list) and len(a) == len(b) and all(same(x, y) for x, y in zip(a, b))
    if isinstance(a, float) and isinstance(b, float) and math.isnan(a) and math.isnan(b):
        return True
    return a == b


def raw_callbacks(pyhf):
    ev = pyhf.events.__dict__["__events"]
    c = ev.get("tensorlib_changed")
    return len(c._callbacks) if c is not None else 0


def replay(pyhf, backend, precision, chunk, seed, fit_every=0, sink=None):
    out = {"n": 0, "nontrivial": 0, "findings": [], "steps": 0, "evals": 0, "switches": 0, "fits": 0, "traces": []}

    def add(key, detail, tags):
        if len(out["findings"]) < 30:
            out["findings"].append(("C11", key, detail, tags))

    verif = getattr(pyhf, "_verif", None)
    for bi, line in enumerate(chunk):
        case = json.loads(line)
        hist = case["hist"]
        # fresh session state (no local may keep an object of the previous behaviour alive)
        o = fresh = t_old = v_old = v_new = None
        gc.collect()
        pyhf.set_backend("numpy", "scipy", precision="64b", default=True)
        gc.collect()
        pyhf.set_backend("numpy", "scipy", precision="32b")   # a firing switch flushes dead entries
        pyhf.set_backend("numpy", "scipy", precision="64b")
        base = raw_callbacks(pyhf)      # live entries that do not belong to the behaviour (none expected)
        extra_dead = 0                  # dead entries left by the harness's own fresh objects, flushed at the next fire
        trace = []
        if sink and verif is not None and verif.ON:
            verif.set_sink(trace.append)
        init_n = base
        objs = {}   # id -> (kind, object, nsub)
        nsub = {}
        out["n"] += 1
        bad = False
        for si, st in enumerate(hist):
            out["steps"] += 1
            op = st["op"]
            post = st["post"]
            det = {"behaviour": hist[: si + 1], "step": si}
            try:
                if op == "create":
                    before = raw_callbacks(pyhf)
                    o = make(pyhf, st["kind"])
                    nsub[st["id"]] = raw_callbacks(pyhf) - before
                    objs[st["id"]] = (st["kind"], o)
                    o = None
                    if nsub[st["id"]] <= 0:
                        add(f"{st['kind']} object does not subscribe to backend changes", det, ["nosubscribe", st["kind"]])
                        bad = True
                elif op == "drop":
                    del objs[st["id"]]
                    gc.collect()
                elif op == "refuse":
                    args = {"name": ("nonexistent_backend", None, None), "precision": ("numpy", None, "16b"),
                            "optimizer": ("numpy", "no_such_optimizer", None)}[st["what"]]
                    before = (pyhf.tensorlib.name, pyhf.tensorlib.precision, pyhf.optimizer.name)
                    try:
                        pyhf.set_backend(args[0], args[1], precision=args[2])
                    except Exception:  # noqa: BLE001
                        pass
                    else:
                        add("set_backend accepted an unsupported " + st["what"], det, ["refuse"])
                        bad = True
                    if before != (pyhf.tensorlib.name, pyhf.tensorlib.precision, pyhf.optimizer.name):
                        add("a refused set_backend changed the global state", det, ["refuse", "statechanged"])
                        bad = True
                elif op == "set_backend":
                    out["switches"] += 1
                    pyhf.set_backend(st["name"], st["optimizer"], precision=st["precision"], default=st["default"])
                elif op == "eval":
                    pass
            except Exception as e:  # noqa: BLE001
                add(f"step {op} raised {type(e).__name__}: {e}", det, ["exception", op])
                bad = True
            if bad:
                break
            # ---- projection of the implementation state vs the specification's post-state
            tl, optm = pyhf.get_backend()
            got = {"cur": [tl.name, tl.precision], "opt": optm.name,
                   "dflt": [pyhf.get_backend(default=True)[0].name, pyhf.get_backend(default=True)[0].precision, pyhf.get_backend(default=True)[1].name]}
            exp = {"cur": post["cur"], "opt": post["opt"], "dflt": post["dflt"]}
            if got != exp:
                add("global backend state differs from the specification after " + op, dict(det, got=got, expected=exp), ["state", op])
                bad = True
                break
            if op == "set_backend" and st["changed"]:
                extra_dead = 0
            exp_cb = base + extra_dead + sum(nsub[i] for i in post["subs"])
            if raw_callbacks(pyhf) != exp_cb:
                add("callback registry holds a different number of entries than the specification (dead entries not flushed / lost subscriptions)",
                    dict(det, got=raw_callbacks(pyhf), expected=exp_cb), ["registry", op])
                bad = True
                break
            # ---- every live object evaluates exactly like a fresh one, with tensors of the current backend
            ttype = type(tl.astensor([0.0]))
            raw_before = raw_callbacks(pyhf)
            for oid, (kind, o) in objs.items():
                out["evals"] += 1
                try:
                    v_old, t_old = evaluate(pyhf, kind, o, si)
                    fresh = make(pyhf, kind)
                    v_new, _ = evaluate(pyhf, kind, fresh, si)
                    del fresh
                except Exception as e:  # noqa: BLE001
                    add(f"evaluation of a live {kind} failed after the history: {type(e).__name__}: {e}", dict(det, object=oid), ["evalfail", kind])
                    bad = True
                    break
                if not isinstance(t_old, ttype):
                    add(f"{kind} returns a tensor of type {type(t_old).__name__}, current backend uses {ttype.__name__}", dict(det, object=oid), ["tensortype", kind])
                    bad = True
                    break
                if not same(v_old, v_new):
                    add(f"a {kind} created earlier evaluates differently from a fresh one after backend switches",
                        dict(det, object=oid, old=v_old, fresh=v_new), ["stale", kind])
                    bad = True
                    break
            o = fresh = t_old = None
            gc.collect()
            extra_dead += raw_callbacks(pyhf) - raw_before
            if bad:
                break
        # inference on a live model vs a fresh one at the end of the history
        if not bad and fit_every and bi % fit_every == 0:
            for oid, (kind, o) in objs.items():
                if kind != "model_b":
                    continue
                out["fits"] += 1
                data = [4.0, 47.0, 60.0] + list(o.config.auxdata)

                def _fit(m):
                    try:
                        return ("ok", float(pyhf.tensorlib.tolist(pyhf.infer.mle.fit(data, m, return_fitted_val=True)[1])))
                    except Exception as e:  # noqa: BLE001
                        return ("raised", type(e).__name__)
                r_old, r_new = _fit(o), _fit(make(pyhf, kind))
                if r_old[0] != r_new[0] or (r_old[0] == "raised" and r_old[1] != r_new[1]) or \
                   (r_old[0] == "ok" and not (abs(r_old[1] - r_new[1]) <= 1e-6 * max(1.0, abs(r_new[1])))):
                    add("inference on an old model differs from inference on a fresh model after backend switches",
                        {"behaviour": hist, "old": r_old, "fresh": r_new}, ["fit"])
                break
        objs.clear()
        if sink and verif is not None and verif.ON:
            verif.set_sink(None)
            out["traces"].append(to_trace(0, ("numpy", "64b"), init_n, trace))
        if len(hist) >= 4:
            out["nontrivial"] += 1
    return out


def to_trace(tid, init_cur, init_n, records, init_opt="scipy"):
    """Renumber Python ids (first-seen order) and keep only the fields the trace specification reads."""
    ids = {}

    def rid(x):
        if x is None:
            return 0
        if x not in ids:
            ids[x] = len(ids) + 1
        return ids[x]
    evs = []
    known = {"events.subscribe", "set_backend.swap", "events.trigger", "events.call", "events.flush", "set_backend.fired", "set_backend.done", "fit.shim"}
    for r in records:
        if r["ev"] not in known:       # records of other hooks (fit.*, ...) belong to other trace specifications
            continue
        e = {"ev": r["ev"]}
        if r["ev"] == "events.subscribe":
            e.update(event=r["event"], owner=rid(r.get("owner")), n=r["n"])
        elif r["ev"] == "set_backend.swap":
            e.update(name=r["name"], precision=r["precision"], optimizer=r["optimizer"],
                     tensorlib_changed=bool(r["tensorlib_changed"]), default=bool(r["default"]))
        elif r["ev"] == "events.trigger":
            e.update(event=r["event"], noop=bool(r["noop"]))
        elif r["ev"] == "events.call":
            e.update(callbacks=[[str(c[0]), rid(c[1]) if c[2] else 0, bool(c[2])] for c in r["callbacks"]])
        elif r["ev"] == "events.flush":
            e.update(removed=r["removed"], kept=r["kept"])
        elif r["ev"] == "fit.shim":
            e.update(backend=r["backend"], optimizer=r["optimizer"])
        evs.append(e)
    return {"id": tid, "init": {"cur": list(init_cur), "n": init_n, "opt": init_opt}, "events": evs}
