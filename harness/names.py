"""Order-preserving maps from the specification's natural-number names to strings.

Python sorts strings by code point; pyhf sorts channels, samples and (name, type) modifier
pairs, so the pools below are chosen such that numeric order == string order (asserted at
import).  They deliberately contain awkward strings: upper/lower case mixes, blanks, digits,
words pyhf uses internally.  The luminosity modifier must be called "lumi" (schema constant).
"""

CHANNELS = {1: "SR one", 2: "cr_2", 3: "z3"}
SAMPLES = {1: "Bkg", 2: "signal", 3: "ttbar", 4: "zjets"}
PARAMS = {
    1: "Alpha_sys",      # shared by a histosys and a normsys
    2: "Bkg-shape",
    3: "lumi",
    4: "mu",
    5: "nf 2",
    6: "sf",
    7: "t_ns",
    8: "tz8",
    9: "u0_undeclared",   # used by the undefined-POI fault
    10: "u10", 11: "u11", 12: "u12", 13: "u13", 14: "u14", 15: "u15", 16: "u16", 17: "u17", 18: "u18",
    21: "v_stat_1", 22: "v_stat_2", 23: "v_stat_3",
}
TYPES = {1: "histosys", 2: "lumi", 3: "normfactor", 4: "normsys", 5: "shapefactor", 6: "shapesys", 7: "staterror"}

for pool in (CHANNELS, SAMPLES, PARAMS, TYPES):
    ks = sorted(pool)
    assert [pool[k] for k in ks] == sorted(pool[k] for k in ks), pool

PARAMS_INV = {v: k for k, v in PARAMS.items()}
CHANNELS_INV = {v: k for k, v in CHANNELS.items()}
SAMPLES_INV = {v: k for k, v in SAMPLES.items()}
