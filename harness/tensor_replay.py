"""Worker side of the tensor-library contract (spec/Tensor.tla, MC_Tensor.tla): a program over one accumulator tensor
is run with native tensors of the worker's backend and compared with the specification's value (shape and data)."""
import json
from fractions import Fraction

LETTERS = "zabcdefgh"


def nested(sh, d):
    if not sh:
        return d[0]
    if len(sh) == 1:
        return list(d)
    step = len(d) // sh[0] if sh[0] else 0
    return [nested(sh[1:], d[i * step:(i + 1) * step]) for i in range(sh[0])]


def flat(x):
    if isinstance(x, (list, tuple)):
        out = []
        for y in x:
            out.extend(flat(y))
        return out
    return [x]


def native(tl, t, dtype="float"):
    return tl.astensor(nested(t["sh"], t["d"]), dtype=dtype)


def apply(tl, backend, acc, o):
    op = o["op"]
    if op == "reshape":
        return tl.reshape(acc, tuple(o["sh"]))
    if op == "ravel":
        return tl.ravel(acc)
    if op == "transpose":
        return tl.transpose(acc)
    if op in ("sum", "product"):
        return getattr(tl, op)(acc, axis=None if o["axis"] < 0 else o["axis"])
    if op in ("stack", "concatenate"):
        other = native(tl, o["other"])
        seq = [acc, other] if o["first"] else [other, acc, other]
        return getattr(tl, op)(seq, axis=o["axis"])
    if op == "tile":
        return tl.tile(acc, tuple(o["reps"]))
    if op == "outer":
        other = native(tl, o["other"])
        return tl.outer(acc, other) if o["first"] else tl.outer(other, acc)
    if op == "gather":
        return tl.gather(acc, native(tl, o["idx"], "int"))
    if op == "boolean_mask":
        return tl.boolean_mask(acc, native(tl, o["mask"], "bool"))
    if op == "where":
        m, other = native(tl, o["mask"], "bool"), native(tl, o["other"])
        return tl.where(m, acc, other) if o["first"] else tl.where(m, other, acc)
    if op == "clip":
        return tl.clip(acc, o["lo"], o["hi"])
    if op == "abs":
        return tl.abs(acc)
    if op == "power":
        return tl.power(acc, o["exp"])
    if op == "simple_broadcast":
        res = tl.simple_broadcast(acc, *[native(tl, t) for t in o["others"]])
        return res[o["pick"] - 1]
    if op == "einsum":
        subs = ",".join("".join(LETTERS[l] for l in lab) for lab in o["ins"]) + "->" + "".join(LETTERS[l] for l in o["out"])
        return tl.einsum(subs, acc, *[native(tl, t) for t in o["others"]])
    if op == "percentile":
        q = tl.astensor([float(x) for x in o["q"]]) if o["qvec"] else float(o["q"][0])
        return tl.percentile(acc, q, axis=None if o["axis"] < 0 else o["axis"], interpolation=o["method"])
    if op == "divide":
        other = native(tl, o["other"])
        return tl.divide(acc, other) if o["first"] else tl.divide(other, acc)
    raise ValueError(op)


def in_contract(backend, o):
    # documented in the backend's own docstring: "Not yet implemented in PyTorch" for every method but linear
    if backend == "pytorch" and o["op"] == "percentile" and o["method"] != "linear":
        return False
    return True


def replay(pyhf, backend, precision, chunk):
    out = {"n": 0, "ops": {}, "findings": [], "skipped_documented": 0}
    tl = pyhf.tensorlib
    tol = 1e-12 if precision == "64b" else 1e-5

    def add(key, detail, tags):
        if len(out["findings"]) < 30:
            out["findings"].append((key, detail, tags))
    for line in chunk:
        case = json.loads(line)
        if not all(in_contract(backend, o) for o in case["prog"]):
            out["skipped_documented"] += 1
            continue
        out["n"] += 1
        names = [o["op"] for o in case["prog"]]
        for nme in names:
            out["ops"][nme] = out["ops"].get(nme, 0) + 1
        tags = [f"backend:{backend}", "op:" + names[-1]]
        try:
            acc = native(tl, case["init"])
            for o in case["prog"]:
                acc = apply(tl, backend, acc, o)
            shape = tuple(int(x) for x in tl.shape(acc))
            vals = [float(x) for x in flat(tl.tolist(acc))]
        except Exception as e:  # noqa: BLE001
            add(f"{'>'.join(names)} raised {type(e).__name__}", {"case": case, "error": str(e)[:300]}, tags + ["exception"])
            continue
        exp_shape = tuple(case["result"]["sh"])
        exp = [Fraction(x[0], x[1]) if isinstance(x, list) else Fraction(x) for x in case["result"]["d"]]
        if shape != exp_shape:
            add(f"{'>'.join(names)}: shape differs from the contract", {"case": case, "got_shape": shape, "got": vals}, tags + ["shape"])
        elif len(vals) != len(exp) or any(abs(v - float(e)) > tol * max(1.0, abs(float(e))) for v, e in zip(vals, exp)):
            add(f"{'>'.join(names)}: values differ from the contract", {"case": case, "got": vals}, tags + ["values"])
    return out
