"""C07: Asymptotics.tla + MC_Asymptotics.tla (calculator protocol over the perfect-square (r, rA) grid, exact
Phi-arguments) checked by TLC; every emitted case replayed through the real AsymptoticCalculator / hypotest with the
two test-statistic evaluations substituted by TLC's (q, qA)."""
import json
import random

import tlc
from common import Machinery, Verdict, seed
from pool import run_chunks

INVARIANTS = ["ArgsEqual", "SeamContinuous", "Ordering", "BandEqualsPaper", "BandMonotone", "ClippedOnlyClips", "NeverNaN",
              "CacheIsAsimov", "Emit"]
ACTIONS = ["ChooseCase", "Rescan", "DistributionsEarly", "TestStatistic", "Distributions", "PValuesStep", "ExpectedPValuesStep"]
OTHERS = ["pytorch", "jax", "tensorflow"]

TIERS = {
    # r, rA in Quarters/4 u Thirds/3 u Larges
    "quick": dict(Quarters=set(range(13)), Thirds={1, 2, 4, 5, 7, 8}, Larges={4, 5, 6, 9, 15, 25, 36, 40}, EmitMod=1),
    "thorough": dict(Quarters=set(range(17)), Thirds={1, 2, 4, 5, 7, 8, 10, 11, 13, 20, 50}, Larges={5, 6, 7, 9, 12, 15, 20, 25, 30, 35, 36, 37, 38, 40},
                     EmitMod=1),
}
# per backend: (fraction of the cases replayed, hypotest every k-th case, harness-drawn float probes per chunk)
PLAN = {
    "quick": {"numpy": (1.0, 1, 12), "other": (0.06, 4, 4)},       # every backend in every run, each on a seeded share of the cases
    "thorough": {"numpy": (1.0, 1, 60), "other": (1.0, 2, 20)},
}


def run(prop, tier):
    v = Verdict("C07", tier, "model_checking")
    sd = seed()
    c = dict(TIERS[tier])
    consts = dict(c, EmitCases=True, EmitRes=sd % c["EmitMod"])
    cfg = tlc.make_cfg(consts, invariants=INVARIANTS)
    res = tlc.run("MC_Asymptotics", cfg, workers=16, timeout=3600, coverage=True)
    if not res.ok:
        raise Machinery("MC_Asymptotics / Asymptotics: an ASSUME or invariant of the specification fails:\n" + res.tail[-3000:])
    missing = [a for a in ACTIONS if res.coverage.get(a, {}).get("taken", 0) == 0]
    if missing:
        raise Machinery(f"MC_Asymptotics: vacuous run, actions never taken: {missing}")
    if not res.cases_path:
        raise Machinery("MC_Asymptotics printed no cases")
    cases = sorted(open(res.cases_path).read().splitlines())   # TLC's workers print in a run-dependent order
    rnd = random.Random(sd)
    rnd.shuffle(cases)
    backends = ["numpy"] + OTHERS
    tot = dict(n=0, nontrivial=0, calls=0, hypotests=0, seam_probes=0, float_probes=0, beyond_tail=0, compared=0, stub_calls=0,
               refused_early=0, branch2=0, seam=0, capped=0, rescans=0, own_bounds=0)
    maxrel, per_backend, kinds = 0.0, {}, {}
    for be in backends:
        share, hypo_every, probes = PLAN[tier]["numpy" if be == "numpy" else "other"]
        use = cases[: max(16, int(len(cases) * share))]
        # keep every seam / second-branch stratum present in a reduced sample
        nch = 32 if len(use) > 640 else 16
        chunks = [c_ for c_ in (use[i::nch] for i in range(nch)) if c_]
        n_be = 0
        for out in run_chunks("asymptotics_replay", "replay", chunks, backend=be, precision="64b", procs=16,
                              kwargs={"seed": sd, "hypo_every": hypo_every, "float_probes": probes}):
            if "machinery" in out:
                raise Machinery(out["machinery"])
            for k in tot:
                tot[k] += out.get(k, 0)
            n_be += out["n"]
            maxrel = max(maxrel, out["maxrel"])
            for k, n in out["by_kind"].items():
                kinds[k] = kinds.get(k, 0) + n
            for (p, key, detail, tags) in out["findings"]:
                v.violation(f"[{be}] {key}", detail, tags)
            if out.get("more"):
                v.violation(f"[{be}] (overflow of a worker's finding list: {out['more']} more)", {"backend": be}, [f"backend:{be}", "overflow"])
            for m, d in out["drift"]:
                v.model_drift(m, f"[{be}] {d}")
        per_backend[be] = n_be
    if not v.violations and not v.known_hits and (tot["stub_calls"] < 2 * tot["calls"] or tot["calls"] == 0):
        raise Machinery("C07 replay: the substituted test statistic was not consumed by AsymptoticCalculator.teststatistic")
    if tot["seam"] == 0 or tot["branch2"] == 0 or tot["capped"] == 0 or tot["rescans"] == 0:
        raise Machinery(f"C07 replay is vacuous: seam={tot['seam']} branch2={tot['branch2']} capped={tot['capped']} rescans={tot['rescans']}")
    for ln in cases[:3]:
        d = json.loads(ln)
        v.sample({k: d[k] for k in ("kind", "base", "r", "rA", "branch2", "def")})
    v.coverage.update(
        states=res.distinct, transitions=res.generated, depth=res.depth, tlc_cached=res.cached, tlc_wall_s=round(res.wall, 1),
        invariants=INVARIANTS[:-1], actions={a: res.coverage.get(a, {}).get("taken", 0) for a in ACTIONS},
        traces_validated_against_impl=tot["n"], evaluations=tot["calls"] + tot["hypotests"], distinct_nontrivial=tot["nontrivial"],
        cases_emitted=len(cases), cases_per_backend=per_backend, by_kind=kinds, second_branch_cases=tot["branch2"], seam_cases=tot["seam"],
        capped_band_entries=tot["capped"], calculators_with_caller_poi_bounds=tot["own_bounds"], second_scan_points_on_a_reused_calculator=tot["rescans"], calculator_runs=tot["calls"], hypotests=tot["hypotests"], seam_neighbour_probes=tot["seam_probes"],
        float_probes=tot["float_probes"], pvalues_compared=tot["compared"], pvalues_beyond_tail=tot["beyond_tail"],
        distributions_before_teststatistic_refused=tot["refused_early"], max_rel_error_seen=maxrel, rtol=1e-10,
        rule=("TLC enumerates the calculator protocol (ChooseCase, TestStatistic, Distributions, PValues, ExpectedPValues) for every "
              "(kind in q/qtilde/q0) x (base in normal/clipped_normal) x (r, rA) with r = sqrt q, rA = sqrt qA > 0 on a perfect-square grid "
              "(quarters, thirds, large values beyond the underflow boundary); every terminal state is replayed (numpy: all; other backends: "
              "seeded share) through the real AsymptoticCalculator (test-statistic evaluations substituted by q, qA), its distributions, "
              "pvalues, expected_pvalues and through hypotest; p-values compared with mpmath Phi(exact rational argument) where |argument| < 37; "
              "seam cases additionally at q = qA +- 1, 2 ulp; non-trivial = second qtilde branch, seam, or clipped base"),
        exhaustive=False)
    v.assumptions += ["mpmath ncdf (50 digits) is Phi", "relative tolerance 1e-10 on p-values with |argument| < 37 (largest error seen is recorded)",
                      "Phi(x - a)/Phi(x) is non-decreasing in x for a > 0 (log-concavity of Phi) -- used by BandMonotone, re-checked numerically in the replay",
                      "the Asimov fit runs on a real one-bin uncorrelated_background model; only the two test-statistic evaluations are substituted"]
    return v.finish()
