"""C14: Empirical.tla (TLC) + replay of EmpiricalDistribution.pvalue; toy protocol traces validated against TraceHypotest.tla
(pseudo-data drawn at the conditional best fit of the respective hypothesis, exact datasets); toy CLs+b/CLb against exactly
enumerated tails; sampling shape/integrality (moments: exploration only)."""
import json
import random

import tlc
import tracecheck
from common import Machinery, Verdict, seed
from pool import run_chunks

INV = ["ImplEqDef", "InUnit", "Monotone", "TiesCounted", "OutsideRange", "Emit"]
HINV = ["AsimovFromBkgFit", "StatisticsOnRightDataset", "ToyProtocol", "RefusedWithoutFits", "LayoutFacts", "Emit"]


def run(prop, tier):
    v = Verdict("C14", tier, "model_checking")
    sd = seed()
    emp = tlc.run("Empirical", tlc.make_cfg(dict(MaxSamples=4 if tier == "quick" else 5, Vals={0, 1, 2, 3}, EmitCases=True), invariants=INV), workers=8, timeout=1800)
    if not emp.ok:
        raise Machinery("Empirical.tla invariants fail:\n" + emp.tail[-3000:])
    hy = tlc.run("Hypotest", tlc.make_cfg(dict(MaxToys=2 if tier == "quick" else 3, EmitCases=True), invariants=HINV), workers=4, timeout=900)
    if not hy.ok:
        raise Machinery("Hypotest.tla invariants fail:\n" + hy.tail[-3000:])
    rnd = random.Random(sd)
    elines = open(emp.cases_path).read().splitlines()
    total = nontriv = 0
    backends = ["numpy", "pytorch"] + (["jax", "tensorflow"] if tier == "thorough" else [])
    for be in backends:
        lines = elines if be == "numpy" else rnd.sample(elines, min(len(elines), 400))
        chunks = [lines[i::8] for i in range(8)]
        for out in run_chunks("toys_replay", "replay_empirical", [c for c in chunks if c], backend=be, procs=8, kwargs={"seed": sd}):
            if "machinery" in out:
                raise Machinery(out["machinery"])
            total += out["n"]; nontriv += out["nontrivial"]
            for (p, key, detail, tags) in out["findings"]:
                v.violation(f"[{be}] {key}", detail, tags)
    # toy protocol: every toy-based hypotest of the Hypotest.tla case set, traced
    tlines = [ln for ln in open(hy.cases_path).read().splitlines() if '"calc":"toybased"' in ln and '"has_poi":true' in ln and '"poi_fixed":false' in ln]
    if tier == "quick":
        tlines = rnd.sample(tlines, min(len(tlines), 96))
    traces = []
    hts = 0
    chunks = [tlines[i::16] for i in range(16)]
    for out in run_chunks("hypotest_replay", "replay_layout", [c for c in chunks if c], backend="numpy", procs=16, kwargs={"seed": sd}, env={"PYHF_VERIF": "1"}):
        if "machinery" in out:
            raise Machinery(out["machinery"])
        hts += out["hypotests"]
        for (p, key, detail, tags) in out["findings"]:
            v.violation(f"[toy protocol] {key}", detail, tags + ["toys"])
        traces += out["traces"]
    for i, t in enumerate(traces):
        t["id"] = i + 1
    if not traces and not v.violations:
        raise Machinery("no toy-based hypotest traces recorded (hooks missing?)")
    accepted, rejected = tracecheck.check("TraceHypotest", traces, tag="c14trace", constants={"MaxUlps": 64}, spec="TraceSpecH")
    for tid, idx, reason in rejected:
        t = traces[tid - 1]
        ev = t["events"][idx] if idx < len(t["events"]) else {"ev": "end"}
        nf = sum(1 for e in t["events"][:idx] if e["ev"] == "fit.return")
        v.violation(f"toy-based hypotest ({t['label']}) deviates from the protocol at record {idx} ({ev['ev']}, after {nf} fits): pseudo-data are not "
                    "make_pdf(conditional best fit of the respective hypothesis).sample, in order, or a statistic ran on the wrong dataset",
                    {"label": t["label"], "index": idx, "fits_done": nf}, ["trace", "toys", ev["ev"]])
    # exact tails vs toys
    tails = [dict(s=5.0, b=3.0, n=6, mu=1.0), dict(s=4.0, b=8.0, n=9, mu=1.5), dict(s=6.0, b=2.0, n=3, mu=1.0), dict(s=3.0, b=10.0, n=14, mu=2.0),
             dict(s=5.0, b=3.0, n=2, mu=1.0), dict(s=8.0, b=5.0, n=12, mu=0.5), dict(s=2.0, b=6.0, n=6, mu=2.5), dict(s=7.0, b=4.0, n=9, mu=1.0)]
    ntoys = 500 if tier == "quick" else 4000
    if tier == "thorough":
        tails = tails + [dict(t, n=t["n"] + 2) for t in tails]
    toys = 0
    tchunks = [[json.dumps(t)] for t in tails]
    for out in run_chunks("toys_replay", "replay_tails", tchunks, backend="numpy", procs=min(16, len(tchunks)), kwargs={"seed": sd, "ntoys": ntoys}):
        if "machinery" in out:
            raise Machinery(out["machinery"])
        toys += out["toys"]; total += out["n"]; nontriv += out["nontrivial"]
        for (p, key, detail, tags) in out["findings"]:
            v.violation(key, detail, tags)
    # sampling
    nsamp = 0
    for be in backends:
        for out in run_chunks("toys_replay", "replay_sampling", [["model_a"], ["model_b"]], backend=be, procs=2, kwargs={"seed": sd}):
            if "machinery" in out:
                raise Machinery(out["machinery"])
            nsamp += out["samples"]; total += out["n"]
            for (p, key, detail, tags) in out["findings"]:
                v.violation(f"[{be}] {key}", detail, tags)
    # auxiliary data against the constraint terms of the HFModel specification (every backend)
    import hf
    import random as _random
    hres = hf.tlc_run("quick", sd)
    if not hres.ok or not hres.cases_path:
        raise Machinery("MC_HFModel (source of the constraint terms) did not run")
    hl = [ln for ln in open(hres.cases_path) if '"cons":[{' in ln.replace(" ", "")]
    _random.Random(sd).shuffle(hl)
    naux = 0
    for be, take in (("numpy", 160), ("pytorch", 60), ("jax", 40), ("tensorflow", 40)) if tier == "quick" else (("numpy", 1200), ("pytorch", 400), ("jax", 200), ("tensorflow", 200)):
        use = hl[:take]
        hl = hl[take:] + use
        for out in run_chunks("toys_replay", "replay_aux_moments", [use[i::8] for i in range(8) if use[i::8]], backend=be, procs=8, kwargs={"seed": sd}):
            if "machinery" in out:
                raise Machinery(out["machinery"])
            nsamp += out["samples"]; total += out["n"]; naux += out["aux_components"]
            for (p, key, detail, tags) in out["findings"]:
                v.violation(f"[{be}] {key}", detail, tags)
    if naux == 0:
        raise Machinery("C14: no auxiliary component was compared with its constraint term")
    v.sample(json.loads(elines[len(elines) // 2])); v.sample(tails[0])
    v.coverage.update(
        states=emp.distinct + hy.distinct, transitions=emp.generated + hy.generated,
        traces_validated_against_impl=len(accepted), hook_traces_rejected=len(rejected), toy_hypotests=hts, toys_for_tail_comparison=toys,
        pseudo_datasets_sampled=nsamp, auxiliary_components_compared_with_their_constraint_term=naux, evaluations=total, distinct_nontrivial=nontriv,
        rule=("Empirical.tla: all sample sequences of <= MaxSamples values over 4 levels x observed values inside, tied and outside the range; "
              "every state replayed on EmpiricalDistribution.pvalue (flat and column tensors, 2-4 backends); toy-based hypotests of the Hypotest.tla "
              "case set traced and validated by TLC (toys = make_pdf(conditional fit).sample re-generated under the same seed, exact); toy CLs+b/CLb on "
              "one-bin counting models against exactly enumerated tail sets within 5 binomial sigma; pseudo-data shape/integrality; "
              "non-trivial = ties present / n > 0"),
        exhaustive=False)
    v.assumptions += ["per-bin mean/variance and auxiliary distributions are a statement about the RNG libraries: 6-sigma smoke test only (exploration, DESIGN section 5)",
                      "exact tail enumeration uses the closed-form qtilde of the one-bin model evaluated with mpmath"]
    return v.finish()
