"""Extra (not one of the listed properties): the tensor-library contract of spec/Tensor.tla on every backend.
./vf extra tensor [--tier quick|thorough]; evidence in extras/evidence/X-TENSOR.json."""
import json

import tlc
from common import Machinery, Verdict, seed
from pool import run_chunks

TIERS = {"quick": dict(MaxSteps=1, EmitMod=1, sim=400), "thorough": dict(MaxSteps=2, EmitMod=3, sim=3000)}
ACTIONS = ["DoReshape", "DoRavel", "DoTranspose", "DoSum", "DoProduct", "DoStack", "DoConcat", "DoTile", "DoOuter", "DoGather", "DoMask",
           "DoWhere", "DoAbs", "DoPower", "DoBroadcast", "DoEinsum", "DoPercentile", "DoPercentileVec", "DoDivide"]


def run(prop, tier):
    v = Verdict("X-TENSOR", tier, "model_checking", extra=True)
    t = TIERS[tier]
    sd = seed()
    cfg = tlc.make_cfg(dict(MaxSteps=t["MaxSteps"], EmitCases=True, EmitMod=t["EmitMod"], EmitRes=sd % t["EmitMod"]),
                       invariants=["WellFormed", "Laws", "Emit"])
    res = tlc.run("MC_Tensor", cfg, workers=16, timeout=7200, coverage=True)
    if not res.ok:
        raise Machinery("MC_Tensor: an algebraic law of the contract fails in the specification itself:\n" + res.tail[-3000:])
    tlc.require_actions(res, ACTIONS)
    lines = open(res.cases_path).read().splitlines()
    # longer programs (3 operations) by simulation
    cfg3 = tlc.make_cfg(dict(MaxSteps=3, EmitCases=True, EmitMod=1, EmitRes=0), invariants=["WellFormed", "Laws", "Emit"])
    sim = tlc.run("MC_Tensor", cfg3, workers=8, timeout=3600, simulate=f"num={t['sim']}", depth=4, rseed=sd + 1, tag="sim")
    if not sim.ok:
        raise Machinery("MC_Tensor (simulation): a law of the contract fails in the specification itself:\n" + sim.tail[-3000:])
    lines = sorted(set(lines) | set(open(sim.cases_path).read().splitlines()))
    # every depth-1 program is always replayed; deeper ones as sampled by the specification's hash
    total, ops, per, skipped = 0, {}, {}, 0
    for be, prec in (("numpy", "64b"), ("jax", "64b"), ("pytorch", "64b"), ("tensorflow", "64b"), ("numpy", "32b"), ("pytorch", "32b")):
        nproc = 8
        chunks = [lines[i::nproc] for i in range(nproc)]
        nb = 0
        for out in run_chunks("tensor_replay", "replay", chunks, backend=be, precision=prec, procs=nproc):
            if "machinery" in out:
                raise Machinery(out["machinery"])
            nb += out["n"]; skipped += out["skipped_documented"]
            for k, c in out["ops"].items():
                ops[k] = ops.get(k, 0) + c
            for (key, detail, tags) in out["findings"]:
                v.violation(f"[{be}/{prec}] {key}", detail, tags)
        per[f"{be}/{prec}"] = nb
        total += nb
    v.sample(json.loads(lines[0]))
    v.coverage.update(states=res.distinct, transitions=res.generated, depth=res.depth, tlc_cached=res.cached, tlc_wall_s=round(res.wall, 1),
                      programs_emitted=len(lines), traces_validated_against_impl=total, programs_per_backend=per, op_applications=ops,
                      skipped_documented_limitations=skipped,
                      rule=("MC_Tensor explores every program of <= MaxSteps operations of Tensor.tla from 11 base tensors, checks the algebraic laws "
                            "(Laws, WellFormed) in every state and prints a seeded 1/EmitMod of the states with the definitional result; each program is "
                            "run with native tensors on numpy, jax, pytorch, tensorflow (64b) and numpy, pytorch (32b): shape equal, values equal (1e-12 "
                            "relative, 1e-5 at 32b).  Out of contract, as the backend documents: percentile methods other than linear on pytorch; "
                            "'nearest' at an exactly half-way index; negative gather indices"),
                      exhaustive=(t["EmitMod"] == 1))
    return v.finish()
