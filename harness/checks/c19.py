"""C19: Cli.tla (sub-commands as functions option record -> library call, definition layer and transcription of
src/pyhf/cli/*.py) + MC_Cli.tla (ChooseCommand -> ChooseOption* -> ChooseIO -> Run) checked by TLC; the Run states
are replayed as real command lines (click CliRunner in-process, a seeded sample as subprocesses) against the direct
library call the DEFINITION names (harness/cli_replay.py)."""
import json
import random
import re
import shutil
from concurrent.futures import ThreadPoolExecutor

import tlc
from common import Machinery, Verdict, seed
from pool import run_chunks

INVARIANTS = ["WellFormed", "DefSensitive", "DefaultsAreDefaults", "ExitIffLibrary", "OutputPlanAgrees",
              "ImplForwardsAllButInspectMeasurement", "DivergenceIsIgnoredMeasurement", "Emit"]

# The implementation-shaped layer transcribes the tree as read: cli/spec.py:inspect accepts --measurement and calls
# ws.get_measurement() / ws.model() without it.  Once the option is forwarded in /repo (proposed fix
# c19_inspect_measurement.diff) set this to True: ImplForwardsAll and ImplSensitive are then asserted everywhere.
INSPECT_FORWARDS_MEASUREMENT = True


def S(*xs):
    return {f'"{x}"' for x in xs}


ALL_CMDS = ("cls", "fit", "inspect", "prune", "rename", "combine", "sort", "digest", "ps_extract", "ps_apply", "ps_verify", "ps_inspect",
            "json2xml", "xml2json")
TIERS = {
    # ~0.5 M states; 150 invocations
    "quick": dict(Cmds=S(*ALL_CMDS), MeasKinds=S("unset", "first", "second", "bogus"), PatchSel={1, 2, 3, 5, 6}, PoiSel=S("", "0.5"),
                  CalcSel=S("", "asymptotics", "toybased"), Backends=S("", "numpy", "pytorch", "jax"), Optimizers=S("", "scipy", "minuit"),
                  ConfSel={1, 2, 3, 5, 7}, SelSel=set(range(1, 10)), AlgSel=set(range(1, 7)), EmitMod=1, EmitModInfer=97),
    # 3.1 M states; ~3 000 invocations
    "thorough": dict(Cmds=S(*ALL_CMDS), MeasKinds=S("unset", "first", "second", "bogus"), PatchSel={1, 2, 3, 4, 5, 6}, PoiSel=S("", "1.0", "0.5", "2.0"),
                     CalcSel=S("", "asymptotics", "toybased"), Backends=S("", "numpy", "np", "pytorch", "torch", "jax"),
                     Optimizers=S("", "scipy", "minuit"), ConfSel={1, 2, 3, 4, 5, 6, 7}, SelSel=set(range(1, 10)), AlgSel=set(range(1, 7)),
                     EmitMod=1, EmitModInfer=151),
}
# option records replayed per sub-command (every --output-file record costs a second invocation, 2 % a third)
QUOTA = {
    "quick": {"cls": 22, "fit": 12, "inspect": 10, "prune": 8, "rename": 7, "combine": 11, "sort": 4, "digest": 8, "ps_extract": 7, "ps_apply": 6,
              "ps_verify": 4, "ps_inspect": 3, "json2xml": 5, "xml2json": 4},
    "thorough": {"cls": 760, "fit": 330, "inspect": 60, "prune": 54, "rename": 42, "combine": 180, "sort": 12, "digest": 108, "ps_extract": 72,
                 "ps_apply": 48, "ps_verify": 6, "ps_inspect": 3, "json2xml": 90, "xml2json": 36},
}
SUBPROCESS_FRAC = {"quick": 0.03, "thorough": 0.02}
# the smallest model on which the two layers are compared everywhere
CEX = dict(TIERS["quick"], Cmds=S("inspect", "sort"), EmitCases=False, EmitRes=0)


def _counterexample(tail):
    steps = []
    for block in re.split(r"\nState \d+: ", "\n" + tail)[1:]:
        head = block.split("\n", 1)[0].strip()
        g = lambda pat: (re.search(pat, block) or [None, None])[1]  # noqa: E731
        steps.append({"action": re.sub(r" line .*", "", head).strip("<>"), "cmd": g(r'/\\ cmd = "(\w*)"'),
                      "ws": g(r'ws \|-> "(\w*)"'), "meas": g(r'meas \|-> "(\w*)"'),
                      "defc": g(r"/\\ defc = (\[.*?\])\n"), "implc": g(r"/\\ implc = (\[.*?\])\n")})
    return steps


def _features(case):
    """(option, value) pairs of a case: the greedy selection below wants each of them replayed at least once"""
    o = case["opt"]
    f = {("in", case["io"]["in"]), ("out", case["io"]["out"]), ("differs", case["differs"]), ("expect", case["defexpect"])}
    for k, v in o.items():
        f.add((k, json.dumps(v, sort_keys=True)))
    for a, b in (("meas", "patches"), ("meas", "stat"), ("backend", "optimizer"), ("optimizer", "optconf"), ("calc", "stat"), ("join", "merge"),
                 ("ws2", "join"), ("pname", "meta"), ("algs", "fmt"), ("ws", "meas")):
        f.add((a, b, json.dumps(o[a], sort_keys=True), json.dumps(o[b], sort_keys=True)))
    return f


def _greedy(pool, want, rnd):
    if len(pool) <= want:
        return list(pool)
    rnd.shuffle(pool)
    cand = [(ln, _features(json.loads(ln))) for ln in pool[: max(40 * want, 400)]]
    seen, picked = set(), []
    while len(picked) < want and cand:
        if len(picked) < (want * 2 + 2) // 3:         # two thirds greedily for coverage, the rest as the seed draws them
            best = max(range(len(cand)), key=lambda i: len(cand[i][1] - seen))
        else:
            best = 0
        ln, f = cand.pop(best)
        seen |= f
        picked.append(ln)
    return picked


def select(lines, quota, rnd):
    """seeded choice of <= quota[cmd] option records per sub-command covering as many option values and pairs as possible;
    about two thirds of them from the records the world does not already doom to fail (a refused command shows no values)"""
    by_cmd = {}
    for ln in lines:
        by_cmd.setdefault(json.loads(ln)["cmd"], []).append(ln)
    chosen = []
    for cmd in sorted(by_cmd):
        want = quota.get(cmd, 0)
        pool = by_cmd[cmd]
        if len(pool) <= want:
            chosen += pool
            continue
        doomed = [ln for ln in pool if '"defexpect":"fail"' in ln]
        alive = [ln for ln in pool if '"defexpect":"fail"' not in ln]
        n_doomed = min(len(doomed), want // 3)
        part = _greedy(alive, want - n_doomed, rnd)
        chosen += part + _greedy(doomed, want - len(part), rnd)
    return chosen


def run(prop, tier):
    v = Verdict("C19", tier, "exploration")
    sd = seed()
    rnd = random.Random(sd)
    c = dict(TIERS[tier], InspectForwardsMeasurement=INSPECT_FORWARDS_MEASUREMENT)
    invs = INVARIANTS + (["ImplForwardsAll", "ImplSensitive"] if INSPECT_FORWARDS_MEASUREMENT else [])

    def main_run():
        consts = dict(c, EmitCases=True, EmitRes=sd % (c["EmitMod"] * c["EmitModInfer"]))
        return tlc.run("MC_Cli", tlc.make_cfg(consts, invariants=invs), workers=4, timeout=1500, tag=tier)

    def cex_run(flag):
        return tlc.run("MC_Cli", tlc.make_cfg(dict(CEX, InspectForwardsMeasurement=flag), invariants=["ImplForwardsAll", "ImplSensitive"]),
                       workers=1, timeout=300, tag=f"ImplForwardsAll{flag}")

    with ThreadPoolExecutor(max_workers=3) as ex:
        f_main, f_asread, f_fixed = ex.submit(main_run), ex.submit(cex_run, False), ex.submit(cex_run, True)
        res, cex, cex_fixed = f_main.result(), f_asread.result(), f_fixed.result()
    if not cex.ok and not cex.cached:
        shutil.rmtree(cex.run_dir, ignore_errors=True)
    if not res.ok:
        raise Machinery("MC_Cli / Cli: an invariant of the specification fails:\n" + res.tail[-3000:])
    if not cex_fixed.ok:
        raise Machinery("MC_Cli: ImplForwardsAll fails although inspect forwards --measurement:\n" + cex_fixed.tail[-2000:])
    if cex.ok:
        impl_vs_def = {"ImplForwardsAll": "holds on the small model with inspect as read (the transcription forwards every option)"}
    elif any("ImplForwardsAll is violated" in e or "ImplSensitive is violated" in e for e in cex.errors):
        impl_vs_def = {"ImplForwardsAll": "violated with cli/spec.py:inspect as read (not asserted; explanation of findings tagged cmd:inspect "
                                          "ignored_arg:measurement)",
                       "counterexample": _counterexample(cex.tail),
                       "holds_instead": ["ImplForwardsAllButInspectMeasurement", "DivergenceIsIgnoredMeasurement"],
                       "with_measurement_forwarded": f"ImplForwardsAll and ImplSensitive hold ({cex_fixed.distinct} states)"}
    else:
        raise Machinery("MC_Cli (ImplForwardsAll run) failed for another reason:\n" + cex.tail[-2000:])

    header, lines = None, []
    if not res.cases_path:
        raise Machinery("MC_Cli printed no cases")
    for ln in open(res.cases_path):
        ln = ln.rstrip("\n")
        if '"header":true' in ln:
            header = json.loads(ln)
        else:
            lines.append(ln)
    if header is None or not lines:
        raise Machinery("MC_Cli printed no header / no cases")
    emitted = len(lines)
    chosen = select(lines, QUOTA[tier], rnd)
    missing = set(ALL_CMDS) - {json.loads(ln)["cmd"] for ln in chosen}
    if missing:
        raise Machinery(f"vacuous run: no case of sub-command(s) {sorted(missing)}")

    # cases of one backend next to each other (a worker imports torch / jax once), slow ones spread over the chunks
    def weight(ln):
        n = json.loads(ln)["ndef"]
        e = n.get("env", {})
        return (3 if e.get("backend") == "jax" else 2 if e.get("backend") == "pytorch" else 1) * (3 if n.get("calctype") == "toybased" else 1) \
            * (2 if e.get("optimizer") == "minuit" else 1) if "env" in n else 0.2
    chosen.sort(key=weight, reverse=True)
    nch = 8 if tier == "quick" else 32
    chunks = [chosen[i::nch] for i in range(nch)]
    chunks = [ch for ch in chunks if ch]
    tot = dict(n=0, nontrivial=0, invocations=0, subprocesses=0, twins=0, env_observed=0, impl_agree=0, toy_cases=0)
    by_cmd, routes, exits, classes = {}, {}, {"ok": 0, "fail": 0}, {}
    for out in run_chunks("cli_replay", "replay", chunks, procs=8,
                          kwargs={"seed": sd, "header": header, "subprocess_frac": SUBPROCESS_FRAC[tier], "tier": tier}):
        if out.get("machinery"):
            raise Machinery(out["machinery"])
        for key in tot:
            tot[key] += out[key]
        for src, dst in ((out["by_cmd"], by_cmd), (out["routes"], routes), (out["exit"], exits)):
            for kk, n in src.items():
                dst[kk] = dst.get(kk, 0) + n
        for (p, key, detail, tags) in out["findings"]:
            cls = "|".join(t for t in tags if not t.startswith("expect:"))
            classes[cls] = classes.get(cls, 0) + 1
            if classes[cls] <= 2:
                v.violation(key, detail, tags)
        for msg in out["drift"]:
            v.model_drift("Cli.tla", msg)
        for s in out["samples"]:
            v.sample(s)
    if exits["ok"] == 0 or exits["fail"] == 0:
        raise Machinery(f"vacuous replay: library outcomes {exits}")
    if tot["env_observed"] == 0:
        raise Machinery("vacuous replay: the state fits run under was never observed (OptimizerMixin.minimize not found?)")
    v.coverage.update(
        states=res.distinct, transitions=res.generated, depth=res.depth, tlc_cached=res.cached, tlc_wall_s=round(res.wall, 1),
        invariants=invs[:-1] if invs[-1] == "Emit" else [i for i in invs if i != "Emit"], impl_vs_def=impl_vs_def,
        run_states_emitted=emitted, traces_validated_against_impl=tot["impl_agree"], evaluations=tot["invocations"],
        option_records_replayed=tot["n"], distinct_nontrivial=tot["nontrivial"], subprocess_invocations=tot["subprocesses"],
        file_vs_stdout_pairs=tot["twins"], backend_optimizer_state_observed=tot["env_observed"], toybased_cases=tot["toy_cases"],
        by_subcommand=by_cmd, by_route=routes, library_outcomes=exits, finding_classes=classes,
        rule=("TLC explores ChooseCommand -> ChooseOption (one option of the sub-command at a time: workspace of the world, measurement unset / "
              "first / second / unknown, patch lists incl. both orders and an inapplicable one, test POI, test statistic, calculator, backend incl. "
              "aliases, optimiser, --optconf lists incl. settings of the other optimiser and an unknown one, prune / rename selections incl. missing "
              "names and a swap, join x merge flag, digest algorithm lists x output format, patch names x metadata flag, export roots, progress / "
              "validation flags) -> ChooseIO (document from file | '-' | omitted argument | second document from stdin | patch from stdin; result "
              "to stdout | --output-file) -> Run.  Invariants: the definition's call changes with every option given (DefSensitive), explicit "
              "defaults change nothing, exit status is a function of the normalised call, the code's output plan is the definition's, and the "
              "transcription of the click functions forwards what the definition names (ImplForwardsAll: refuted by TLC for inspect "
              "--measurement, asserted elsewhere).  A seeded selection of the Run states (quota per sub-command, greedy for coverage of option "
              "values and pairs) is executed: argv from the OPTION record through click's CliRunner (and ~2-3 % as real processes), oracle = the "
              "DEFINITION's call made directly on the library with the same documents, backend state and seed; exit 0 iff it returns; JSON / "
              "text carries its values (1e-6); --output-file text = stdout text of the twin run; fits ran under the state the options name. "
              "non-trivial = a successful call with at least one option given or a non-default route"),
        exhaustive=False)
    v.assumptions += [f"`pyhf cls --calctype toybased` offers no option for the number of toys: ToyCalculator's default is lowered to a few toys "
                      "for the command-line run and the direct call alike (in-process only; toy cases are not sampled as subprocesses)",
                      "the real process is `python -c 'from pyhf.cli import cli; sys.exit(cli())'` = the console script `pyhf` (pyhf.cli has no __main__)",
                      "the text of `patchset verify` is unspecified (only its status); `inspect` prints a table whose rows are compared token-wise "
                      "and writes the JSON summary to --output-file in addition (by design not the same text)",
                      "`--measurement` is taken to be documented by its name and by its meaning in cls / fit: the measurement whose model is built "
                      "(and, for inspect, the one marked in the listing); an unknown name has to be refused",
                      "backend / optimiser / settings are observed at OptimizerMixin.minimize in both runs, not in the global state the command leaves behind"]
    return v.finish()
