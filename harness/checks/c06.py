"""C06: TestStat.tla (full case table, TLC) + closed-form scenarios (FitClosed.tla) realised on the real test statistics;
every call traced and validated by TLC against TraceTestStat.tla."""
import json
import random

import tlc
import tracecheck
from common import Machinery, Verdict, seed
from pool import run_chunks

# Binding B, source (ii): repository tests whose test-statistic calls are traced (observer in the pytest plugin)
SUITE = {"quick": (["tests/test_teststats.py", "tests/test_infer.py"], ["-k", "not toy"]),
         "thorough": (["tests/test_teststats.py", "tests/test_infer.py", "tests/test_calculator.py", "tests/test_validation.py",
                       "tests/test_regression.py"], [])}

INV = ["ImplEqDef", "NonNeg", "TestsRightValue", "ZeroWhenAbove", "ZeroWhenNegative", "NoZeroingTwoSided", "Emit"]


def run(prop, tier):
    v = Verdict("C06", tier, "model_checking")
    sd = seed()
    ts = tlc.run("TestStat", tlc.make_cfg(dict(EmitCases=True), invariants=INV), workers=4, timeout=600)
    if not ts.ok:
        raise Machinery("TestStat.tla invariants fail:\n" + ts.tail[-3000:])
    table = [json.loads(x) for x in open(ts.cases_path)]
    closed = tlc.run("FitClosed", tlc.make_cfg(dict(Tier=1 if tier == "quick" else 2, EmitCases=True),
                                                invariants=["Feasible", "ScoreZeroWhenInterior", "Emit"]), workers=4, timeout=1800)
    if not closed.ok:
        raise Machinery("FitClosed.tla invariants fail:\n" + closed.tail[-3000:])
    clines = open(closed.cases_path).read().splitlines()
    rnd = random.Random(sd)
    rnd.shuffle(clines)
    backends = [("numpy", "64b")] + ([("pytorch", "64b"), ("jax", "64b")] if tier == "thorough" else [])
    total = nontriv = stats = 0
    hit = {}
    traces = []
    for be, prec in backends:
        lines = clines if be == "numpy" else clines[::6]
        nproc = 16
        chunks = [lines[i::nproc] for i in range(nproc)]
        for out in run_chunks("teststat_replay", "replay", [c for c in chunks if c], backend=be, precision=prec, procs=nproc,
                              kwargs={"seed": sd, "table": table}, env={"PYHF_VERIF": "1"}):
            if "machinery" in out:
                raise Machinery(out["machinery"])
            total += out["n"]; nontriv += out["nontrivial"]; stats += out["stats"]
            for k, n in out["cases_hit"].items():
                hit[k] = hit.get(k, 0) + n
            for (p, key, detail, tags) in out["findings"]:
                v.violation(f"[{be}] {key}", detail, tags)
            traces += out["traces"]
    for i, t in enumerate(traces):
        t["id"] = i + 1
    if not traces:
        raise Machinery("no test-statistic traces recorded (hooks missing?)")
    accepted, rejected = tracecheck.check("TraceTestStat", traces, tag="c06trace", constants={"MaxUlps": 64}, spec="TraceSpec2")
    for tid, idx, reason in rejected:
        t = traces[tid - 1]
        ev = t["events"][idx]["ev"] if idx < len(t["events"]) else "end"
        v.violation(f"recorded call of {t['label']} is not explained by the specification: record {idx} ({ev}) "
                    "(wiring of the two fits / exact case value / returned parameters / fit protocol)",
                    {"trace": t["events"][max(0, idx - 1): idx + 1], "index": idx}, ["trace", ev, t["label"]])
    import suite_traces
    files, extra = SUITE[tier]
    recs, summary = suite_traces.run_tests(files, "c06suite", extra=extra)
    stests = suite_traces.split(recs)
    st = suite_traces.teststat_traces(stests)
    for i, t_ in enumerate(st):
        t_["id"] = i + 1
    if not st:
        raise Machinery(f"no test-statistic records from the repository tests {files} ({summary})")
    sacc, srej = tracecheck.check("TraceTestStat", st, tag="c06suite", constants={"MaxUlps": 64}, spec="TraceSpec2")
    for tid, idx, reason in srej:
        t_ = st[tid - 1]
        ev = t_["events"][idx] if idx < len(t_["events"]) else {"ev": "end"}
        v.violation(f"repository test {t_['label'].split('#')[0]}: recorded call of {t_['events'][0]['kind']} is not explained by the specification "
                    f"at record {idx} ({ev['ev']}) (wiring of the two fits / exact case value / returned parameters / fit protocol)",
                    {"label": t_["label"], "index": idx, "trace": t_["events"][max(0, idx - 1): idx + 1]}, ["trace", "suite", ev["ev"]])
    # binding self-check (negative controls): a recorded value moved by one unit of the order lane, a fit removed, the tested value of
    # the conditional fit changed -- each must be REJECTED, otherwise the trace specification constrains nothing
    import copy
    neg = []
    base_ = [t_ for t_ in st if t_["id"] in sacc][:3]
    for j, t_ in enumerate(base_):
        c_ = copy.deepcopy(t_)
        if j % 3 == 0:
            c_["events"][-1]["result"][2] += 1
        elif j % 3 == 1:
            k_ = max(i for i, e in enumerate(c_["events"]) if e["ev"] == "fit.shim")
            c_["events"] = c_["events"][:k_] + [c_["events"][-1]]
        else:
            sh = next(e for e in c_["events"] if e["ev"] == "fit.shim")
            for fv in sh["fixed_vals"]:
                if fv[0] == c_["events"][0]["poi"]:
                    fv[1] = [fv[1][0], fv[1][1], fv[1][2] + 1]
        c_["id"] = len(neg) + 1
        neg.append(c_)
    nacc, nrej = tracecheck.check("TraceTestStat", neg, tag="c06neg", constants={"MaxUlps": 64}, spec="TraceSpec2")
    if len(nrej) != len(neg):
        raise Machinery(f"binding self-check: {len(neg) - len(nrej)} of {len(neg)} corrupted repository traces were accepted by TraceTestStat")
    skinds = {}
    for t_ in st:
        skinds[t_["events"][0]["kind"]] = skinds.get(t_["events"][0]["kind"], 0) + 1
    v.sample(table[0]); v.sample(json.loads(clines[0]))
    v.coverage.update(
        states=ts.distinct + closed.distinct, transitions=ts.generated + closed.generated,
        case_table_rows=len(table), realised_case_classes=len(hit), realised=hit,
        traces_validated_against_impl=len(accepted) + len(sacc), hook_traces_rejected=len(rejected) + len(srej), statistic_calls=stats,
        driver_teststat_traces=len(accepted), repository_tests_traced=len(stests), repository_teststat_traces_validated=len(sacc),
        repository_teststat_kinds=skinds, corrupted_traces_rejected=len(nrej),
        evaluations=stats, distinct_nontrivial=nontriv,
        rule=("TestStat.tla enumerates the complete case table (5 statistics x consistent order facts x sign of the likelihood-ratio "
              "difference) and proves the coded branch structure equals the definition; FitClosed.tla scenarios (counts above/at/below the "
              "tested hypothesis, zero counts, zero or negative POI lower bound) are run through the real statistics and compared with the exact "
              "closed-form value; every call (closed-form and a nuisance model) is traced and TLC decides wiring and exact case semantics on the "
              "observed floats (order lane); the same trace specification also validates every test-statistic call the repository's own tests make "
              "(64b sessions; observer in the pytest plugin brackets the H4 fit records); non-trivial = observed count > 0"),
        exhaustive=False)
    v.assumptions += ["value comparison skipped within 1e-3 of muhat = mu (branch decided by fit noise there; the trace check still decides the branch exactly on observed values)"]
    return v.finish()
