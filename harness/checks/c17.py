"""C17: PatchSet.tla (JSON trees, canonical form, RFC-6902, definition layer with two maps, implementation layer
with pyhf's single dictionary) + MC_PatchSet.tla (Register* -> Seal -> Lookup | Verify | Apply) checked by TLC in
three foci of one state machine; every emitted state replayed on pyhf.PatchSet / pyhf.utils.digest."""
import json
import random
import re
import shutil
from concurrent.futures import ThreadPoolExecutor

import tlc
from common import Machinery, Verdict, seed
from pool import run_chunks

INVARIANTS = ["RegisterIsAccept", "TwoMapsExact", "LookupExact", "VariantsClassified", "VerifyIffRecorded", "ApplyPure",
              "ImplEqDefOutsideInternal", "CollisionExplains", "Emit"]

# The implementation-shaped layer transcribes the tree as read: _patches_by_key = {'name': {}, 'values': {}}.  Once the
# dictionary starts empty in /repo (proposed fix c17_patchset.diff) set this to False: ImplEqDef is then asserted.
IMPL_SHARED_BOOKKEEPING = False

# AllNames == <<"name", "values", "metadata", "patches", "Sig_A", "sig_a", "p_3">>;  AllGrid == <<0, 1, 3/2, -2>>
BASE = dict(NameSel={1, 2, 3, 4, 5, 6}, LabelCounts={1, 2}, GridSel={1, 2, 3}, MaxPatches=2, DigestCfgs={1},
            DoLookup=False, DoVerify=False, DoApply=False, MaxOps=0, ApplyVariantKinds=set(), EmitMod=1,
            SharedBookkeeping=IMPL_SHARED_BOOKKEEPING)
ALLDIG = set(range(1, 11))
TIERS = {
    "quick": {
        "lookup": dict(BASE, DoLookup=True, EmitMod=2),
        "verify": dict(BASE, NameSel={3, 6}, LabelCounts={1}, GridSel={2}, MaxPatches=1, DigestCfgs=ALLDIG, DoVerify=True),
        "apply": dict(BASE, NameSel={3, 6}, LabelCounts={1}, GridSel={1, 3}, DigestCfgs={2, 5}, DoApply=True, MaxOps=2,
                      ApplyVariantKinds={'"same"', '"permall"', '"swap"'}, EmitMod=8),
    },
    "thorough": {
        "lookup": dict(BASE, NameSel={1, 2, 3, 4, 5, 6, 7}, GridSel={1, 2, 3, 4}, DoLookup=True, EmitMod=2),
        "lookup3": dict(BASE, NameSel={1, 2, 3, 5, 6}, GridSel={1, 2, 3}, MaxPatches=3, DoLookup=True, EmitMod=24),
        "verify": dict(BASE, NameSel={1, 3, 6}, LabelCounts={1, 2}, GridSel={2, 3}, MaxPatches=1, DigestCfgs=ALLDIG, DoVerify=True),
        "apply": dict(BASE, NameSel={2, 3, 6}, LabelCounts={1}, GridSel={1, 3}, DigestCfgs={1, 2, 5, 9}, DoApply=True, MaxOps=2,
                      ApplyVariantKinds={'"same"', '"permall"', '"swap"', '"perm"'}, EmitMod=32),
        "apply3": dict(BASE, NameSel={3, 6}, LabelCounts={1}, GridSel={1, 3}, DigestCfgs={2, 5}, DoApply=True, MaxOps=3,
                       ApplyVariantKinds={'"same"', '"permall"', '"swap"'}, EmitMod=32),
    },
}
# the smallest model on which the implementation-shaped layer is compared with the definition layer everywhere
CEX = dict(BASE, NameSel={1, 6}, LabelCounts={1}, GridSel={2}, MaxPatches=1, DoLookup=True, EmitCases=False, EmitRes=0)

_DOCKEY = re.compile(r'"nl":.*?"defstatus"')


def _counterexample(tail):
    """the state sequence TLC prints for the (expected) violation of ImplEqDef, reduced to the telling variables"""
    steps = []
    for block in re.split(r"\nState \d+: ", "\n" + tail)[1:]:
        head = block.split("\n", 1)[0].strip()
        m_doc = re.findall(r'name \|-> "(\w+)"', block.split("/\\ doc =", 1)[1].split("/\\", 1)[0]) if "/\\ doc =" in block else []
        m_impl = re.search(r'/\\ impl = \[.*?status \|-> "([^"]+)"', block, re.S)
        m_def = re.search(r'/\\ def = \[.*?status \|-> "([^"]+)"', block, re.S)
        m_ph = re.search(r'/\\ phase = "(\w+)"', block)
        steps.append({"action": head[:60], "phase": m_ph.group(1) if m_ph else None, "patch_names": m_doc,
                      "def_status": m_def.group(1) if m_def else None, "impl_status": m_impl.group(1) if m_impl else None})
    return steps


def run(prop, tier):
    v = Verdict("C17", tier, "model_checking")
    sd = seed()
    rnd = random.Random(sd)
    runs = {}
    header = None
    lines = []
    def model_check(item):
        focus, c = item
        consts = dict(c, EmitCases=True, EmitRes=sd % c["EmitMod"])
        invs = INVARIANTS + ([] if IMPL_SHARED_BOOKKEEPING else ["ImplEqDef"])
        return focus, tlc.run("MC_PatchSet", tlc.make_cfg(consts, invariants=invs), workers=8, timeout=3000, tag=focus)

    def model_check_cex(shared):
        return f"ImplEqDef:{shared}", tlc.run("MC_PatchSet", tlc.make_cfg(dict(CEX, SharedBookkeeping=shared), invariants=["ImplEqDef"]),
                                              workers=1, timeout=600, tag=f"ImplEqDef{shared}")

    # the foci are independent TLC runs of one module: run them side by side
    with ThreadPoolExecutor(max_workers=6) as ex:
        futs = [ex.submit(model_check, it) for it in TIERS[tier].items()] + [ex.submit(model_check_cex, b) for b in (True, False)]
        results = dict(f.result() for f in futs)
    cex, cex_fixed = results.pop("ImplEqDef:True"), results.pop("ImplEqDef:False")
    if not cex.ok and not cex.cached:
        shutil.rmtree(cex.run_dir, ignore_errors=True)      # tlc.run keeps the directory of a run that found an error
    if not cex_fixed.ok:
        raise Machinery("MC_PatchSet: ImplEqDef fails although the dictionary starts empty:\n" + cex_fixed.tail[-2000:])
    for focus, res in results.items():
        if not res.ok:
            raise Machinery(f"MC_PatchSet ({focus}): an invariant of the specification fails:\n" + res.tail[-3000:])
        n = 0
        for ln in open(res.cases_path):
            ln = ln.rstrip("\n")
            if '"header":true' in ln:
                header = json.loads(ln)
            else:
                lines.append(ln)
                n += 1
        if n == 0:
            raise Machinery(f"MC_PatchSet ({focus}) printed no cases")
        runs[focus] = dict(states=res.distinct, transitions=res.generated, depth=res.depth, cases=n, wall_s=round(res.wall, 1), cached=res.cached)
    if header is None:
        raise Machinery("MC_PatchSet printed no header (KeyOrder / recorded documents)")

    # TLC itself shows where the implementation-shaped layer leaves the definition: ImplEqDef is violated
    if cex.ok:
        impl_vs_def = {"ImplEqDef": "holds on the small model (implementation layer = definition layer)"}
    elif any("ImplEqDef is violated" in e for e in cex.errors):
        impl_vs_def = {"ImplEqDef": "violated (not asserted; explanation of findings on patches/keys named 'name'/'values')",
                       "counterexample": _counterexample(cex.tail),
                       "holds_instead": ["ImplEqDefOutsideInternal", "CollisionExplains"],
                       "with_empty_initial_dictionary": f"ImplEqDef holds ({cex_fixed.distinct} states)"}
    else:
        raise Machinery("MC_PatchSet (ImplEqDef run) failed for another reason:\n" + cex.tail[-2000:])

    # one document's cases next to each other (the worker builds each PatchSet once), documents spread over the chunks
    def dockey(ln):
        m = _DOCKEY.search(ln)
        return m.group(0) if m else ln[:200]
    lines.sort(key=dockey)
    nch = 64
    size = (len(lines) + nch - 1) // nch
    chunks = [lines[i:i + size] for i in range(0, len(lines), size)]
    total = nontriv = agree = blocked = digest_checks = applied_valid = applied_invalid = doc_mutated = 0
    classes, phases, drifts, tolerated = {}, {}, {}, {}
    reported = {}
    for out in run_chunks("patchset_replay", "replay", chunks, procs=16, kwargs={"header": header, "seed": sd}):
        if out.get("machinery"):
            raise Machinery(out["machinery"])
        total += out["n"]; nontriv += out["nontrivial"]; agree += out["impl_agree"]; blocked += out["blocked"]
        doc_mutated += out["doc_mutated"]
        digest_checks += out["digest_checks"]; applied_valid += out["applied_valid"]; applied_invalid += out["applied_invalid_ws"]
        for src, dst in ((out["classes"], classes), (out["phases"], phases), (out["drift"], drifts), (out["tolerated"], tolerated)):
            for k, n in src.items():
                dst[k] = dst.get(k, 0) + n
        for (p, key, detail, tags) in out["findings"]:
            cls = "|".join(tags)
            reported[cls] = reported.get(cls, 0) + 1
            if reported[cls] <= 2:
                v.violation(key, detail, tags)
    missing = {"sealed", "looked", "verified", "reverified", "applied", "reapplied"} - {k for k, n in phases.items() if n > 0}
    if missing:
        raise Machinery(f"vacuous run: no replayed case in phase(s) {sorted(missing)}")
    for what, n in sorted(drifts.items()):
        v.model_drift("PatchSet.tla implementation layer", f"{what} [{n} cases]")
    for ln in rnd.sample(lines, min(4, len(lines))):
        c = json.loads(ln)
        v.sample({"phase": c["phase"], "patches": [[p["name"], p["values"]] for p in c["patches"]], "key": c["key"], "variant": c["vd"],
                  "ops": c["opidx"], "def": [c["defstatus"], c["def"]["status"], c["def"]["i"], c["def"]["errs"]],
                  "impl": [c["implstatus"], c["impl"]["status"], c["impl"]["i"], c["impl"]["errs"]]})
    v.coverage.update(
        states=sum(r["states"] for r in runs.values()), transitions=sum(r["transitions"] for r in runs.values()),
        tlc_runs=runs, invariants=INVARIANTS[:-1], impl_vs_def=impl_vs_def,
        evaluations=total, distinct_nontrivial=nontriv, cases_by_phase=phases,
        traces_validated_against_impl=agree, blocked_by_refused_constructor=blocked,
        digest_checks=digest_checks, applied_valid_workspace=applied_valid, applied_result_not_a_workspace=applied_invalid,
        patchset_document_modified_by_apply=doc_mutated, finding_classes=classes, tolerated=tolerated,
        rule=("TLC explores Register* -> Seal -> (Lookup | Verify | Apply) in three foci of MC_PatchSet.tla: (lookup) all documents of <= MaxPatches "
              "patches over a name pool containing 'name', 'values', 'metadata', 'patches' and ordinary names x value tuples over a rational grid with "
              "1-2 labels incl. wrong lengths and duplicates, x all keys (names present/absent, tuples and lists present/absent/too short/too long, "
              "scalar, None, tuple of a name, nested tuple, nested list); (verify) all digest lists (sha256/md5, each right or stale, both orders) x "
              "the background workspace, every single-leaf corruption (bump, 2^-10, retype) of its 13 leaves, every key reversal/rotation, all-keys "
              "reversal, array swaps; (apply) keys x workspace variants x all RFC-6902 lists of <= MaxOps operations from 13 atoms (add front/append, "
              "replace, remove, move, copy, test, conflicting and workspace-destroying ones). Every sealed/verified state and a seeded 1/EmitMod of the "
              "looked/applied states is replayed: accept/refuse, len/iter/metadata, the patch found, lookup error, verification iff, digest equal "
              "iff canonically equal under six hashlib algorithms, apply result = the specification's JsonPatch (validity of the result as a "
              "workspace judged by pyhf.Workspace), inputs unchanged. non-trivial = document of >= 2 patches, lookup that finds a patch, "
              "verification of a variant, apply of a non-empty list"),
        exhaustive=False)
    v.assumptions += ["hashlib digests are injective on the canonical forms of the explored documents (a collision would show as digest:insensitive)",
                      "an unhashable key (list of lists) may raise Python's TypeError instead of InvalidPatchLookup (counted under 'tolerated')",
                      "which error apply raises when both verification and lookup fail is left open (either is accepted)",
                      "whether a patched document is a workspace is judged by pyhf.Workspace (schema validation is not part of C17)"]
    return v.finish()
