"""C13: HFGrad.tla / MC_HFGrad.tla (exact derivative pieces, TLC) replayed against shim(..., do_grad=True) on jax, pytorch, tensorflow."""
import json
import random

import tlc
from common import Machinery, Verdict, seed
from pool import run_chunks
from hf import group_chunks, spec_ainv

TIERS = {"quick": dict(MaxPlace=2, Settings={1, 2, 3}, NPts=3, EmitMod=40, backends=[("pytorch", 16, 1.0), ("jax", 8, 0.12), ("tensorflow", 8, 0.06)]),
         "thorough": dict(MaxPlace=3, Settings={1, 2, 3}, NPts=3, EmitMod=120, backends=[("pytorch", 16, 1.0), ("jax", 12, 0.3), ("tensorflow", 12, 0.15)])}


def run(prop, tier):
    v = Verdict("C13", tier, "model_checking")
    sd = seed()
    t = TIERS[tier]
    consts = dict(MaxPlace=t["MaxPlace"], MaxChan=2, MaxSamp=2, BinChoices={1, 2}, NPts=t["NPts"], Settings=t["Settings"], Overrides={0}, EmitCases=True,
                  EmitMod=t["EmitMod"], EmitRes=sd % t["EmitMod"])
    res = tlc.run("MC_HFGrad", tlc.make_cfg(consts, invariants=["GradLocal", "GEmit"]), workers=16, timeout=7200)
    if not res.ok:
        raise Machinery("MC_HFGrad invariants fail:\n" + res.tail[-3000:])
    lines = open(res.cases_path).read().splitlines()
    rnd = random.Random(sd)
    total = nontriv = grads = symb = 0
    ainv = spec_ainv()
    per = {}
    for be, nproc, fr in t["backends"]:
        use = lines if fr >= 1.0 else [ln for ln in lines if rnd.random() < fr]
        chunks, _ = group_chunks(use, nproc)
        nb = 0
        for out in run_chunks("grad_replay", "replay", chunks, backend=be, precision="64b", procs=nproc, kwargs={"seed": sd, "ainv": ainv}):
            if "machinery" in out:
                raise Machinery(out["machinery"])
            symb += out.get("symbolic", 0); total += out["n"]; nontriv += out["nontrivial"]; grads += out["grads"]; nb += out["n"]
            for (p, key, detail, tags) in out["findings"]:
                v.violation(f"[{be}] {key}", detail, tags)
        per[be] = nb
    c = json.loads(lines[0])
    v.sample({"spec": c["spec"], "setting": c["setting"], "theta": c["theta"], "dlambda": c["dlambda"]})
    v.coverage.update(states=res.distinct, transitions=res.generated, tlc_cached=res.cached, tlc_wall_s=round(res.wall, 1),
                      traces_validated_against_impl=total, cases_per_backend=per, gradient_evaluations=grads, symbolic_lane_points=symb, evaluations=total, distinct_nontrivial=nontriv,
                      rule=("MC_HFGrad emits, for a seeded 1/EmitMod of the specifications of the MC_HFModel space at differentiable points with positive "
                            "rates, the exact d lambda/d theta of every bin for every parameter component (rational + ln atoms); the leaf evaluator forms "
                            "d(2NLL)/d theta; shim(twice_nll, do_grad=True) is evaluated on pytorch/jax/tensorflow x do_stitch x fixed masks (none, first, "
                            "last parameter): value equals the plain path, gradient equals the exact one (1e-8 relative); non-trivial = >= 2 parameters; "
                            "symbolic lane: the same at a point with every normsys alpha non-integer (code 1 away from 0, code 4 inside and outside its core: "
                            "atoms [lo, hi, alpha, derivative?] evaluated by the leaf evaluator with the specification's A_inverse)"),
                      exhaustive=False)
    if symb == 0:
        raise Machinery("C13: the symbolic lane evaluated no point")
    v.assumptions += ["kinks of codes 0/1 at alpha = 0 excluded (the derivative does not exist there); exact lane has normsys at integer alpha != 0, symbolic lane at non-integer alpha"]
    return v.finish()
