"""C01 / C02 / C10 / C12: HFModel.tla checked by TLC and replayed into pyhf.Model."""
from __future__ import annotations

import random

import tlc
from common import Machinery, Verdict, seed
from pool import run_chunks

INVARIANTS = ["TypeOK", "Refines", "RowIndep", "TermsRefine", "Layout", "Untouched", "SymConsistent", "Emit"]

TIERS = {
    # constants of MC_HFModel per tier; emit = fraction of specifications printed for replay
    "quick": dict(MaxPlace=2, MaxChan=2, MaxSamp=2, BinChoices={1, 2}, NPts=2, Settings={1, 2, 3, 4}, Overrides={0, 2}, EmitMod=12),
    # thorough = two exhaustive runs (one run with everything at once exhausts the JVM heap): deeper specifications with the core
    # settings, and every setting / override / point on the quick shape bound
    "thorough": dict(MaxPlace=3, MaxChan=2, MaxSamp=2, BinChoices={1, 2}, NPts=2, Settings={1, 2, 4}, Overrides={0}, EmitMod=30),
    "thorough_wide": dict(MaxPlace=2, MaxChan=2, MaxSamp=2, BinChoices={1, 2}, NPts=3, Settings={1, 2, 3, 4, 5, 6}, Overrides={0, 1, 2}, EmitMod=12),
}

WHAT = {
    "C01": "expected rates = HistFactory formula",
    "C02": "log-likelihood = HistFactory template",
    "C10": "batched = row by row",
    "C12": "configuration is a consistent partition with defaults/overrides",
}


def tlc_run(tier, res_index):
    c = dict(TIERS[tier])
    mod = c.pop("EmitMod")
    consts = dict(c, EmitCases=True, EmitMod=mod, EmitRes=res_index % mod)
    cfg = tlc.make_cfg(consts, invariants=INVARIANTS)
    # no -coverage here: TLC's coverage instrumentation of this specification (deeply nested LET/recursive definitions) does not
    # get past start-up within the heap at MaxPlace = 3; the vacuity guard is the depth of the search and the printed Eval states
    res = tlc.run("MC_HFModel", cfg, workers=16, timeout=7200, jvm_opts=("-Xmx24g",) if tier.startswith("thorough") else ())
    if res.ok and (res.depth < 4 or not res.ncases):
        raise Machinery(f"MC_HFModel: vacuous run (depth {res.depth}, {res.ncases} evaluated states printed)")
    return res


SIM = {"quick": dict(num=150, depth=14, MaxPlace=7), "thorough": dict(num=1500, depth=16, MaxPlace=9)}


def tlc_sim(tier, sd):
    """random walks beyond the exhaustive bound: large specifications (up to MaxPlace placements), every state checked
    against the same invariants, every evaluated state printed"""
    c = dict(TIERS[tier])
    c.pop("EmitMod")
    t = SIM[tier]
    # the random walks also leave the exhaustive shape bound: 3 channels x 3 samples x up to 3 bins
    consts = dict(c, MaxPlace=t["MaxPlace"], MaxChan=3, MaxSamp=3, BinChoices={1, 2, 3}, EmitCases=True, EmitMod=1, EmitRes=0)
    cfg = tlc.make_cfg(consts, invariants=INVARIANTS)
    return tlc.run("MC_HFModel", cfg, workers=4, simulate=f"num={t['num']}", depth=t["depth"], timeout=3600, tag=f"sim{sd}", rseed=2000 + sd)


def spec_ainv():
    """the code-4 inverse boundary matrix as the SPECIFICATION has it (HFInterp.tla, A*AInv = Id proved by TLC)"""
    import json
    from common import frac
    cfg = tlc.make_cfg(dict(Codes={0, 1, 2, 4, 44}, MaxDepth=1, Backends={'"numpy"'}, EmitCases=True, EmitMod=1000000, EmitRes=999999),
                       invariants=["CachesMatchAtUse", "ImplEqDef", "Emit"])
    r = tlc.run("MC_HFInterp", cfg, workers=2, timeout=600)
    out = {}
    if r.cases_path:
        for ln in open(r.cases_path):
            if ln.startswith('{"ainv"'):
                d = json.loads(ln)
                out[str(frac(d["a0"]))] = d["ainv"]
    if len(out) != 3:
        raise Machinery("could not obtain AInv from HFInterp.tla")
    return out


def group_chunks(lines, nchunks):
    """cases of one (spec, setting) stay together and adjacent"""
    import json
    groups = {}
    for ln in lines:
        c = json.loads(ln)
        groups.setdefault(json.dumps([c["spec"], c["sid"]], sort_keys=True), []).append(ln)
    keys = list(groups)
    chunks = [[] for _ in range(nchunks)]
    for i, k in enumerate(keys):
        chunks[i % nchunks] += groups[k]
    return [c for c in chunks if c], len(keys)


def run(prop: str, tier: str) -> int:
    v = Verdict(prop, tier, "model_checking")
    sd = seed()
    res = tlc_run(tier, sd)
    if not res.ok:
        raise Machinery("MC_HFModel: the specification's own invariants fail (Impl layer does not refine Def layer):\n" + res.tail[-3000:])
    if not res.cases_path:
        raise Machinery("MC_HFModel printed no cases")
    lines = open(res.cases_path).read().splitlines()
    wide = None
    if tier == "thorough":
        wide = tlc_run("thorough_wide", sd)
        if not wide.ok:
            raise Machinery("MC_HFModel (all settings and overrides): the specification's own invariants fail:\n" + wide.tail[-3000:])
        lines += open(wide.cases_path).read().splitlines()
    sim = tlc_sim(tier, sd)
    if not sim.ok and sim.errors:
        raise Machinery("MC_HFModel (simulation beyond the exhaustive bound): invariant fails:\n" + sim.tail[-3000:])
    sim_lines = list(dict.fromkeys(open(sim.cases_path).read().splitlines())) if sim.cases_path else []
    lines = lines + sim_lines
    rnd = random.Random(sd)
    backends = [("numpy", "64b")]
    if tier == "thorough":
        backends += [("jax", "64b"), ("pytorch", "64b"), ("tensorflow", "64b"), ("numpy", "32b"), ("pytorch", "32b")]
    else:   # every backend in every run (small seeded samples + every rare case, see below)
        backends += [("pytorch", "64b"), ("jax", "64b"), ("tensorflow", "64b")]
    # C01's text covers "batched or not": its replay includes the batched rows as well
    props = {"C01": ["C01", "C10"], "C02": ["C02"], "C10": ["C10"], "C12": ["C12", "C01"]}[prop]
    accept = {"C01": {"C01", "C10"}, "C02": {"C02"}, "C10": {"C10"}, "C12": {"C12"}}[prop]
    ainv = spec_ainv() if "C01" in props else None
    total = nontriv = specs = 0
    per_backend = {}
    for bi, (be, prec) in enumerate(backends):
        use = lines
        if bi > 0:   # secondary backends get a seeded sample (import + per-model compile cost)
            frac_keep = {"quick": 0.05, "thorough": 0.25}[tier] * (0.3 if be in ("jax", "tensorflow") else 1.0)
            import json
            keep = {}
            sel = []
            rare = 0
            for ln in lines:
                c = json.loads(ln)
                k = (json.dumps(c["spec"], sort_keys=True), c["sid"])
                if k not in keep:
                    keep[k] = rnd.random() < frac_keep
                # rare strata go to every backend: an expected rate that is exactly zero (the limit cases of the Poisson term)
                is_rare = any(t["lam"][0] == 0 for t in c["terms"]["main"]) and rare < 400
                rare += is_rare
                if keep[k] or is_rare:
                    sel.append(ln)
            use = sel
        chunks, nspecs = group_chunks(use, 64 if bi == 0 else 16)
        n_be = 0
        for out in run_chunks("hfworker", "replay", chunks, backend=be, precision=prec, procs=16,
                              kwargs={"props": props, "seed": sd * 1000 + bi, "extra_batch": tier == "thorough", "ainv": ainv}):
            if "machinery" in out:
                raise Machinery(out["machinery"])
            total += out["n"]
            n_be += out["n"]
            nontriv += out["nontrivial"]
            for (p, key, detail, tags) in out["findings"]:
                if p in accept:
                    v.violation(f"[{be}/{prec}] {key}", detail, tags)
            for m, d in out["drift"]:
                v.model_drift(m, d)
        specs += nspecs
        per_backend[f"{be}/{prec}"] = n_be
    import json
    for ln in rnd.sample(lines, min(3, len(lines))):
        c = json.loads(ln)
        v.sample({"spec": c["spec"], "setting": c["setting"], "theta": c["theta"], "chan_rates": c["chan_rates"],
                  "terms": c["terms"] if prop == "C02" else "...", "impl_layout": c["impl"]})
    v.coverage.update(
        states=res.distinct + (wide.distinct if wide else 0), transitions=res.generated + (wide.generated if wide else 0), depth=res.depth, tlc_cached=res.cached, tlc_wall_s=round(res.wall + (wide.wall if wide else 0), 1),
        tlc_invariants=INVARIANTS, tlc_constants={k: (sorted(x) if isinstance(x, set) else x) for k, x in TIERS[tier].items()},
        traces_validated_against_impl=total, cases_emitted=len(lines), simulated_large_spec_cases=len(sim_lines), simulated_states=sim.generated, replayed_per_backend=per_backend,
        spec_setting_groups=specs, evaluations=total, distinct_nontrivial=nontriv,
        rule=("TLC enumerates every well-formed spec reachable by <= MaxPlace modifier placements from the pool "
              "(2 channels x 2 samples x 10 modifier identities of all 7 types, bins in BinChoices) x settings x points; "
              "invariants Refines/RowIndep/TermsRefine/Layout/Untouched hold in every state; a seeded 1/EmitMod of the "
              "specifications (all their settings and points) is printed and replayed into pyhf.Model with shuffled listing "
              f"order; property under replay: {WHAT[prop]}; non-trivial = at least 2 modifiers or 2 parameter components"),
        exhaustive=False,
    )
    v.assumptions += ["TLC 1.8 evaluates the specification faithfully; rationals are exact (overflow aborts)",
                      "mpmath (50 digits) evaluates log Poisson / log Normal leaves",
                      "replay tolerance 1e-12 relative (64b) / 3e-5 (32b) on rates, 1e-10 / 1e-4 on log-densities"]
    return v.finish()
