"""C11: Backend.tla (exhaustive TLC) + simulated behaviours replayed into pyhf (+ hook traces validated by TLC)."""
import json
import random

import tlc
from common import Machinery, Verdict, seed
from pool import run_chunks

EXH = dict(BNames={'"numpy"', '"pytorch"', '"jax"', '"tensorflow"'}, Precs={'"64b"', '"32b"'}, Opts={'"scipy"', '"minuit"'},
           MaxObjs=3, Kinds={'"model"'}, MaxHist=8, EmitCases=False, Defaults={True, False})
INV = ["TypeOK", "StaleFree", "DeadNeverCalled", "EventIffChanged", "AllLiveCalled", "NoDeadAfterFire"]
TIERS = {
    "quick": dict(num=40, depth=60, MaxHist=10, backends={'"numpy"', '"pytorch"', '"jax"'}, procs=8),
    "thorough": dict(num=150, depth=120, MaxHist=18, backends={'"numpy"', '"pytorch"', '"jax"', '"tensorflow"'}, procs=12),
}
SUITE = {"quick": ["tests/test_interpolate.py", "tests/test_events.py", "tests/test_backends.py"],
         "thorough": ["tests/test_interpolate.py", "tests/test_events.py", "tests/test_backends.py", "tests/test_public_api.py", "tests/test_pdf.py",
                      "tests/test_tensor.py", "tests/test_infer.py", "tests/test_constraints.py", "tests/test_paramviewer.py"]}
KINDS = {'"model_a"', '"model_b"', '"interp0"', '"interp1"', '"interp2"', '"interp4"', '"interp4p"', '"viewer"'}


def run(prop, tier):
    v = Verdict("C11", tier, "model_checking")
    sd = seed()
    # 1. exhaustive: all interleavings of create / drop / three-step set_backend with <= 3 objects
    cfg = tlc.make_cfg(EXH, invariants=INV, spec="HSpec", properties=["DefaultUntouchedUnlessAsked"], view="NoHist")
    exh = tlc.run("MC_Backend", cfg, workers=16, timeout=3600, coverage=(tier == "thorough"))
    if tier == "thorough":
        tlc.require_actions(exh, ["HCreate", "HDrop", "HSwap", "HFire", "HSetup"], "MC_Backend")
    if not exh.ok:
        raise Machinery("Backend.tla: an invariant of the specification fails:\n" + exh.tail[-3000:])
    # 2. simulated behaviours for replay
    t = TIERS[tier]
    consts = dict(EXH, BNames=t["backends"], Kinds=KINDS, MaxHist=t["MaxHist"], EmitCases=True, MaxObjs=3, Defaults={False})
    cfg2 = tlc.make_cfg(consts, invariants=INV + ["Emit"], spec="HSpec")
    sim = tlc.run("MC_Backend", cfg2, workers=4, simulate=f"num={t['num']}", depth=t["depth"], timeout=1800, tag=f"seed{sd}", rseed=1000 + sd,
                  jvm_opts=(), env_extra=None)
    if not sim.cases_path:
        raise Machinery("MC_Backend simulation printed no behaviours:\n" + sim.tail[-2000:])
    lines = list(dict.fromkeys(open(sim.cases_path).read().splitlines()))
    rnd = random.Random(sd)
    rnd.shuffle(lines)
    nproc = t["procs"]
    chunks = [lines[i::nproc] for i in range(nproc)]
    total = nontriv = steps = evals = switches = fits = 0
    traces = []
    for out in run_chunks("backend_replay", "replay", [c for c in chunks if c], procs=nproc, kwargs={"seed": sd, "fit_every": 5, "sink": True},
                          env={"PYHF_VERIF": "1"}):
        if "machinery" in out:
            raise Machinery(out["machinery"])
        total += out["n"]; nontriv += out["nontrivial"]; steps += out["steps"]; evals += out["evals"]
        switches += out["switches"]; fits += out["fits"]
        for (p, key, detail, tags) in out["findings"]:
            v.violation(key, detail, tags)
        traces += out["traces"]
    # Binding B: the hook traces of the same executions validated by TLC against TraceBackend.tla
    import tracecheck
    for i, tr in enumerate(traces):
        tr["id"] = i + 1
    nev = sum(len(tr["events"]) for tr in traces)
    if not traces or nev == 0:
        raise Machinery("hooks H1/H2 produced no trace events (PYHF_VERIF hooks missing from the tree under test?)")
    accepted, rejected = tracecheck.check("TraceBackend", traces, invariants=["StaleFree"], tag="c11trace")
    for tid, idx, reason in rejected:
        tr = traces[tid - 1]
        v.violation(f"recorded execution is not a behaviour of Backend.tla: record {idx} ({tr['events'][idx]['ev'] if idx < len(tr['events']) else 'end'}) unexplained: {reason}",
                    {"trace_prefix": tr["events"][max(0, idx - 6): idx + 1], "init": tr["init"], "index": idx}, ["trace", tr["events"][idx]["ev"] if idx < len(tr["events"]) else "end"])
    # Binding B, source (ii): backend/event records of the repository's own tests (one trace per test)
    import suite_traces
    files = SUITE[tier]
    recs, summary = suite_traces.run_tests(files, "c11suite")
    tests = suite_traces.split(recs)
    bt = suite_traces.backend_traces(tests)
    for i, tr in enumerate(bt):
        tr["id"] = i + 1
    if not bt:
        raise Machinery(f"no backend records from the repository tests {files} ({summary})")
    sacc, srej = tracecheck.check("TraceBackend", bt, invariants=["StaleFree"], tag="c11suite")
    for tid, idx, reason in srej:
        tr = bt[tid - 1]
        v.violation(f"repository test {tr['label']}: recorded execution is not a behaviour of Backend.tla at record {idx}: {reason}",
                    {"trace_prefix": tr["events"][max(0, idx - 6): idx + 1], "init": tr["init"], "index": idx}, ["trace", "suite"])
    for ln in lines[:2]:
        h = json.loads(ln)["hist"]
        v.sample([{k: s[k] for k in s if k != "post"} for s in h])
    v.coverage.update(
        states=exh.distinct, transitions=exh.generated, depth=exh.depth, tlc_wall_s=round(exh.wall + sim.wall, 1),
        tlc_invariants=INV + ["DefaultUntouchedUnlessAsked"], simulated_states=sim.generated,
        traces_validated_against_impl=total, behaviours_replayed=total, steps_replayed=steps, object_evaluations=evals,
        set_backend_calls=switches, fits_compared=fits, hook_traces_validated=len(accepted), hook_trace_events=nev, hook_traces_rejected=len(rejected) + len(srej),
        repository_tests_traced=len(tests), repository_test_files=files, repository_backend_traces_validated=len(sacc),
        repository_backend_events=sum(len(t_["events"]) for t_ in bt), evaluations=total, distinct_nontrivial=nontriv,
        rule=("exhaustive TLC over all interleavings of object creation, deletion and three-step set_backend (swap, fire, setup) for 4 backends x "
              "2 precisions x 2 optimisers x default flag with <= 3 objects; TLC -simulate behaviours (distinct, seeded) of MaxHist library-level "
              "steps over 8 object kinds (two models, five interpolators, a tensor viewer) are replayed in a long-lived process: after each step "
              "global state and callback-registry size are compared with the specification and every live object is evaluated and compared "
              "bit-exactly with a fresh one, tensor type checked; fits compared at the end; non-trivial = behaviours of >= 4 steps"),
        exhaustive=False)
    v.assumptions += ["object kinds of the replay are representative of 'every model, interpolator and viewer'", "gc.collect() makes dropped objects' weak references dead"]
    return v.finish()
