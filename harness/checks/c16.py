"""C16: WorkspaceOps.tla (definition layer + transcription of workspace.py) + MC_WorkspaceOps.tla (pairs of
workspaces x join modes x merge flag; op sequences combine / prune / rename / sorted) checked by TLC; the
emitted behaviours are replayed on the real pyhf.Workspace (harness/wsops_replay.py)."""
import json
import random

import tlc
from common import Machinery, Verdict, seed
from pool import run_chunks

INVARIANTS = ["InputsWF", "DisjointKeepsAll", "DisjointAccepted", "Refusals", "PrimaryWins", "OuterKeepsBoth", "PruneExact",
              "PruneRefusesMissing", "RenameInverse", "SortedLaws", "OutputsValid", "ImplEqDef", "DivergenceIsSilentAccept", "Emit"]

# option codes: channels 100*name + 10*content variant + observation variant; measurements 100*name + 10*poi + config variant
TIERS = {
    # 31 752 pairs x 9 combines; 25 deep pairs x all sequences of <= 2 operations
    "quick": dict(Chans={1, 2}, ChOpts={111, 121, 131, 141, 112, 211, 221}, MeasNames={1, 2}, MeasOpts={110, 111, 112, 121, 211},
                  VersR={1, 2}, DeepChOpts={111, 131, 141, 211}, DeepMeasOpts={111}, MaxDepth=2, MaxSel=1, SwapRenames=True, EmitMod=30),
    # 468 512 pairs x 9 combines; 9 deep pairs x all sequences of <= 3 operations with selections of <= 2 names
    "thorough": dict(Chans={1, 2, 3}, ChOpts={111, 121, 131, 141, 112, 211, 221, 311, 321}, MeasNames={1, 2},
                     MeasOpts={110, 111, 112, 113, 121, 211}, VersR={1, 2}, DeepChOpts={111, 141, 211}, DeepMeasOpts={111},
                     MaxDepth=3, MaxSel=2, SwapRenames=True, EmitMod=100),
}


def run(prop, tier):
    v = Verdict("C16", tier, "model_checking")
    sd = seed()
    c = dict(TIERS[tier])
    consts = dict(c, EmitCases=True, EmitRes=sd % c["EmitMod"])
    cfg = tlc.make_cfg(consts, invariants=INVARIANTS)
    res = tlc.run("MC_WorkspaceOps", cfg, workers=16, timeout=1500 if tier == "thorough" else 600)
    if not res.ok:
        raise Machinery("MC_WorkspaceOps / WorkspaceOps: an invariant of the specification fails:\n" + res.tail[-3000:])
    if not res.cases_path:
        raise Machinery("MC_WorkspaceOps printed no cases")
    lines = open(res.cases_path).read().splitlines()
    rnd = random.Random(sd)
    rnd.shuffle(lines)
    nchunks = 128
    chunks = [lines[i::nchunks] for i in range(nchunks)]
    chunks = [c_ for c_ in chunks if c_]
    total = nontriv = steps = 0
    like, outcomes, skipped = {}, {}, {}
    for out in run_chunks("wsops_replay", "replay", chunks, backend="numpy", precision="64b", procs=16, kwargs={"seed": sd}):
        if out.get("machinery"):
            raise Machinery(out["machinery"])
        total += out["n"]
        nontriv += out["nontrivial"]
        steps += out["steps"]
        for src, dst in ((out["like"], like), (out["outcomes"], outcomes), (out["skipped"], skipped)):
            for k, n in src.items():
                dst[k] = dst.get(k, 0) + n
        for (p, key, detail, tags) in out["findings"]:
            v.violation(key, detail, tags)
        for tags in out.get("more_tags", []):
            v.violation("(overflow of the per-worker finding list)", {"tags": tags}, tags)
        for msg in out["drift"]:
            v.model_drift("WorkspaceOps", msg)
    missing = [k for k in ("combine-disjoint", "prune", "rename", "sorted") if not like.get(k)]
    if missing:
        raise Machinery(f"vacuous replay: no likelihood clause evaluated for {missing}")
    # workspaces with a two-typed parameter name get the structural clauses only, by design: not part of the vacuity ratio
    if sum(n for k, n in skipped.items() if "two modifier types" not in k) > 0.5 * max(1, sum(like.values())):
        raise Machinery(f"vacuous replay: too many likelihood clauses skipped: {skipped}")
    for ln in lines[:3]:
        cse = json.loads(ln)
        v.sample({"left": cse["left"], "right": cse["right"],
                  "hist": [{k: s[k] for k in ("op", "join", "merge", "kind", "sel", "pairs")} | {"def": s["def"]["st"]} for s in cse["hist"]]})
    v.coverage.update(
        states=res.distinct, transitions=res.generated, depth=res.depth, tlc_cached=res.cached, tlc_wall_s=round(res.wall, 1),
        invariants=INVARIANTS[:-1], traces_validated_against_impl=total, evaluations=steps, distinct_nontrivial=nontriv,
        likelihood_clauses=like, likelihood_skipped=skipped, outcomes=outcomes,
        rule=("TLC enumerates every pair (left, right) of workspaces over the channel / observation / measurement / version pools with one "
              "Combine(join in 4 modes + an invalid one, merge_channels on/off), and for the pairs of the Deep sub-pool all sequences of "
              "<= MaxDepth operations Combine / Prune(kind, selection incl. a missing name) / Rename(kind, fresh | swap | missing) / Sorted; "
              "all property clauses are invariants of the definition layer and ImplEqDef bounds where the transcription of workspace.py "
              "differs; a seeded 1/EmitMod of the behaviours (layer-divergent ones 8x denser) is replayed on pyhf.Workspace: result JSON "
              "or refusal vs the definition, inputs untouched, no aliasing, schema validity, and the likelihood clauses with the real "
              "model at 3 parameter points; non-trivial = a likelihood clause was evaluated, a refusal at equal versions, or >= 2 steps"),
        exhaustive=False)
    v.assumptions += ["listing order inside an item is data: 'same definition' = equal JSON value (as Python compares the dicts)",
                      "a refusal must be an exception of pyhf.exceptions, or the ValueError documented for a bad join / merge with 'none'",
                      "prune by modifier type removes the modifiers only; measurement parameter configs of their names are left alone",
                      "constraint oracle is closed-form (normsys: N(0|alpha,1); staterror: N(1|gamma_b, sqrt(sum unc^2)/sum nom)); it is checked "
                      "against pyhf on the INPUT workspaces of every combine case; tolerance 1e-9 relative",
                      "renamings are injective (fresh target or swap); colliding renamings are outside the property"]
    return v.finish()
