"""C04: Prob.tla / MC_Prob.tla (case structure, error-budget terms and relations of the probability primitives; TLC)
discharged on every backend x precision by prob_replay."""
import json

import tlc
from common import Machinery, Verdict
from pool import run_chunks

BACKENDS = ["numpy", "jax", "pytorch", "tensorflow"]
PRECS = ["64b", "32b"]
NEEDED_CASES = ["poisson_logpdf:limit_one", "poisson_logpdf:limit_zero", "poisson_logpdf:regular", "normal_logpdf:regular",
                "normal_cdf:standard", "normal_cdf:located"]
NEEDED_KINDS = ["value", "recurrence", "reflection", "monotone", "equivariance"]


def run(prop, tier):
    v = Verdict("C04", tier, "exploration")
    consts = dict(Backends={f'"{b}"' for b in BACKENDS}, Precs={f'"{p}"' for p in PRECS}, Dense=(tier == "thorough"), EmitCases=True)
    res = tlc.run("MC_Prob", tlc.make_cfg(consts, invariants=["ArgsInFormat", "CaseSplitOK", "SigmaPositive", "ChainOK", "EquivarianceOK", "Emit"]),
                  workers=8, timeout=3600, coverage=True)
    if not res.ok:
        raise Machinery("MC_Prob invariants fail:\n" + res.tail[-3000:])
    tlc.require_actions(res, ["SetBackend", "SwitchPrecision", "CallValue", "CallRelation"])
    groups = {}
    for ln in open(res.cases_path):
        d = json.loads(ln)
        groups.setdefault((d["backend"], d["prec"], d["first"]["backend"], d["first"]["prec"]), []).append(ln)
    if len(groups) != 2 * len(BACKENDS) * len(PRECS):
        raise Machinery(f"MC_Prob: obligations for {sorted(groups)} only")
    total = calls = 0
    per, cases, kinds = {}, {}, {}
    switched = 0
    for (be, prec, fb, fp), lines in sorted(groups.items()):
        nproc = 4 if fb == "none" else 2
        chunks = [lines[i::nproc] for i in range(nproc)]
        nb = 0
        # a switched session starts its worker processes on the FIRST segment's backend/precision
        kw = dict(backend=be, precision=prec) if fb == "none" else dict(backend=fb, precision=fp, kwargs={"switch_to": (be, prec)})
        switched += len(lines) if fb != "none" else 0
        for out in run_chunks("prob_replay", "replay", chunks, procs=nproc, **kw):
            if "machinery" in out:
                raise Machinery(out["machinery"])
            nb += out["n"]; calls += out["calls"]
            for k, c in out["cases"].items():
                cases[k] = cases.get(k, 0) + c
            for k, c in out["kinds"].items():
                kinds[k] = kinds.get(k, 0) + c
            for (key, detail, tags) in out["findings"]:
                v.violation(f"[{be}/{prec}] {key}", detail, tags)
        per[f"{be}/{prec}" + ("" if fb == "none" else f" after {fb}/{fp}")] = nb
        total += nb
    missing = [c for c in NEEDED_CASES if not cases.get(c)] + [k for k in NEEDED_KINDS if not kinds.get(k)]
    if missing:
        raise Machinery(f"C04: vacuous run, never exercised: {missing}")
    v.sample(json.loads(next(iter(groups.values()))[0]))
    v.coverage.update(states=res.distinct, transitions=res.generated, depth=res.depth, tlc_cached=res.cached, tlc_wall_s=round(res.wall, 1),
                      traces_validated_against_impl=total, obligations_per_backend_precision=per, primitive_calls=calls, obligations_after_a_precision_switch=switched,
                      cases_exercised=cases, obligation_kinds=kinds, evaluations=total, distinct_nontrivial=sum(c for k, c in cases.items() if "regular" in k or "located" in k),
                      rule=("MC_Prob is the call-session machine SetBackend [-> SwitchPrecision: same process, every primitive family used at the other precision first] -> Call over the decimal argument lattice of each precision (counts 0..1e8 integer "
                            "and real, rates 0, smallest denormal .. 1e8, sigma over 20 orders of magnitude, cdf arguments -38..38); TLC checks the case "
                            "split (limits exactly at rate 0), that every argument is inside the selected format, the ordered/symmetric cdf chain and the "
                            "exact representability of the equivariance triples, and prints every Call state as an obligation.  The harness discharges each "
                            "on numpy/jax/pytorch/tensorflow x 64b/32b: VALUE (every variant - function, non-log form, distribution object, "
                            "pyhf.probability class - against the mpmath value of the term tree at the binary arguments passed, within 32 eps (1 + sum|terms|)), "
                            "RECURRENCE, REFLECTION, MONOTONE (+ vector = elementwise) and EQUIVARIANCE relations"),
                      exhaustive=False)
    v.assumptions += ["mpmath (60 digits) is the oracle of the real-number values; the specification carries the case split, the terms of the error budget "
                      "and the relations only", "'a few units of rounding' is taken as 32 eps (1 + sum |terms|): the check demands no more than the property",
                      "arguments are lattice points, not all reals: accuracy between lattice points is not decided"]
    return v.finish()
