"""C03: HFInterp.tla (ASSUMEs: anchors, continuity, smoothness, A*AInv = I) + MC_HFInterp.tla
(call-shape / backend-switch histories) checked by TLC; every emitted history replayed on the real classes."""
import json
import random

import tlc
from common import Machinery, Verdict, seed
from pool import run_chunks

TIERS = {
    "quick": dict(Codes={0, 1, 2, 4, 44}, MaxDepth=3, Backends={'"numpy"', '"pytorch"'}, EmitMod=3),
    "thorough": dict(Codes={0, 1, 2, 4, 44}, MaxDepth=4, Backends={'"numpy"', '"pytorch"', '"jax"', '"tensorflow"'}, EmitMod=12),
}


def run(prop, tier):
    v = Verdict("C03", tier, "model_checking")
    sd = seed()
    c = dict(TIERS[tier])
    consts = dict(c, EmitCases=True, EmitRes=sd % c["EmitMod"])
    cfg = tlc.make_cfg(consts, invariants=["CachesMatchAtUse", "ImplEqDef", "Emit"])
    res = tlc.run("MC_HFInterp", cfg, workers=16, timeout=3600)
    if not res.ok:
        raise Machinery("MC_HFInterp / HFInterp: an ASSUME or invariant of the specification fails:\n" + res.tail[-3000:])
    lines = open(res.cases_path).read().splitlines()
    from common import frac
    ainv = {}
    cases = []
    for ln in lines:
        if ln.startswith('{"ainv"'):
            d = json.loads(ln)
            ainv[str(frac(d["a0"]))] = d["ainv"]
        else:
            cases.append(ln)
    if len(ainv) != 3 or not cases:
        raise Machinery("MC_HFInterp printed no cases / no AInv")
    rnd = random.Random(sd)
    rnd.shuffle(cases)
    total = nontriv = calls = switches = 0
    precs = ["64b"] + (["32b"] if tier == "thorough" else [])
    for prec in precs:
        use = cases if prec == "64b" else cases[: len(cases) // 4]
        chunks = [use[i::16] for i in range(16)]
        for out in run_chunks("interp", "replay", [c_ for c_ in chunks if c_], backend="numpy", precision=prec, procs=16,
                              kwargs={"ainv": ainv, "seed": sd}):
            if "machinery" in out:
                raise Machinery(out["machinery"])
            total += out["n"]; nontriv += out["nontrivial"]; calls += out["calls"]; switches += out["switches"]
            for (p, key, detail, tags) in out["findings"]:
                v.violation(f"[{prec}] {key}", detail, tags)
    for ln in cases[:3]:
        v.sample(json.loads(ln))
    v.coverage.update(
        states=res.distinct, transitions=res.generated, depth=res.depth, tlc_cached=res.cached, tlc_wall_s=round(res.wall, 1),
        assumes_checked=["A4Inverse", "Anchors", "AnchorsMul", "SeamContinuity", "Code2Slopes", "Code4pSmooth", "PiecesAreTheFormulas"],
        traces_validated_against_impl=total, evaluations=total, distinct_nontrivial=nontriv, interpolator_calls=calls, backend_switches=switches,
        rule=("TLC enumerates all histories (<= MaxDepth steps) of calls with alpha-set shapes (n,1),(n,2),(n,3) and backend switches on one "
              "interpolator per (code, down/nominal/up triple from a 12-triple grid incl. inverted, one-sided, null, non-dyadic); a seeded "
              "1/EmitMod of the call states is replayed on the real class: last call vs the exact/symbolic published value, every call vs a "
              "fresh interpolator (bit-exact) and vs the scalar reference class, breakpoint neighbours (nextafter, +-0, subnormals) for "
              "continuity; non-trivial = history of >= 2 steps"),
        exhaustive=False)
    v.assumptions += ["mpmath evaluates pow/log leaves; the code-4 core is evaluated from the specification's AInv (proved A*AInv=I by TLC)",
                      "tolerance 1e-12 relative (64b), 2e-5 (32b); continuity bound 1e-9 at float neighbours"]
    return v.finish()
