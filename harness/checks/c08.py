"""C08: Hypotest.tla (protocol, layout, prerequisites; TLC) + real hypotests for every flag set / statistic / calculator /
fault (Binding A: identity of entries, refusals; Binding B: every fit of every hypotest validated against the plan by TLC)
+ analytic asymptotic CLs on the closed-form families."""
import json
import random

import tlc
import tracecheck
from common import Machinery, Verdict, seed
from pool import run_chunks

INV = ["AsimovFromBkgFit", "StatisticsOnRightDataset", "ToyProtocol", "RefusedWithoutFits", "LayoutFacts", "Emit"]


SUITE = {"quick": (["tests/test_infer.py"], ["-k", "hypotest and not toybased and not pytorch and not tensorflow and not jax"]),
         "thorough": (["tests/test_infer.py", "tests/test_validation.py", "tests/test_calculator.py", "tests/test_regression.py"], ["-k", "not toybased"])}


def run(prop, tier, only_toys=False, pid="C08"):
    v = Verdict(pid, tier, "model_checking")
    sd = seed()
    hy = tlc.run("Hypotest", tlc.make_cfg(dict(MaxToys=2 if tier == "quick" else 3, EmitCases=True), invariants=INV), workers=4, timeout=900)
    if not hy.ok:
        raise Machinery("Hypotest.tla invariants fail:\n" + hy.tail[-3000:])
    closed = tlc.run("FitClosed", tlc.make_cfg(dict(Tier=1 if tier == "quick" else 2, EmitCases=True),
                                                invariants=["Feasible", "ScoreZeroWhenInterior", "Emit"]), workers=4, timeout=1800)
    if not closed.ok:
        raise Machinery("FitClosed.tla invariants fail:\n" + closed.tail[-3000:])
    rnd = random.Random(sd)
    hlines = open(hy.cases_path).read().splitlines()
    if tier == "quick":      # all asymptotic cases, a seeded third of the toy cases (each toy costs 4 fits)
        hlines = [ln for ln in hlines if '"calc":"asymptotics"' in ln or rnd.random() < 0.34]
    clines = open(closed.cases_path).read().splitlines()
    rnd.shuffle(clines)
    if tier == "quick":
        clines = clines[:96]
    total = nontriv = hts = refus = toyfail = 0
    traces = []
    backends = [("numpy", "64b")] + ([("pytorch", "64b")] if tier == "thorough" else [])
    for be, prec in backends:
        for fn, lines in (("replay_layout", hlines), ("replay_closed", clines)):
            if be != "numpy" and fn == "replay_layout":
                lines = [ln for ln in lines if '"calc":"asymptotics"' in ln]
            chunks = [lines[i::16] for i in range(16)]
            for out in run_chunks("hypotest_replay", fn, [c for c in chunks if c], backend=be, precision=prec, procs=16,
                                  kwargs={"seed": sd}, env={"PYHF_VERIF": "1"}):
                if "machinery" in out:
                    raise Machinery(out["machinery"])
                total += out["n"]; nontriv += out["nontrivial"]; hts += out["hypotests"]
                refus += out.get("refusals", 0); toyfail += out.get("toy_fail", 0)
                for (p, key, detail, tags) in out["findings"]:
                    v.violation(f"[{be}] {key}", detail, tags)
                traces += out["traces"]
    for i, t in enumerate(traces):
        t["id"] = i + 1
    if not traces and not v.violations:
        raise Machinery("no hypotest traces recorded (hooks missing?)")
    accepted, rejected = tracecheck.check("TraceHypotest", traces, tag="c08trace", constants={"MaxUlps": 64}, spec="TraceSpecH")
    for tid, idx, reason in rejected:
        t = traces[tid - 1]
        ev = t["events"][idx] if idx < len(t["events"]) else {"ev": "end"}
        nf = sum(1 for e in t["events"][:idx] if e["ev"] == "fit.return")
        v.violation(f"recorded hypotest ({t['label']}) deviates from the protocol at record {idx} ({ev['ev']}, after {nf} completed fits): "
                    "wrong POI treatment / wrong dataset (Asimov data not the expectation at the background-only conditional fit, toys not drawn "
                    "at the conditional best-fit of the respective hypothesis) / fit protocol / result layout",
                    {"label": t["label"], "index": idx, "fits_done": nf, "record": {k: ev[k] for k in ev if k not in ("init", "bounds", "x0", "vbounds")}},
                    ["trace", ev["ev"], t["label"].split("/")[1]])
    # Binding B, source (ii): every asymptotic hypotest call the repository's own tests make (observer in the pytest plugin)
    import suite_traces
    files, extra = SUITE[tier]
    recs, summary = suite_traces.run_tests(files, "c08suite", extra=extra)
    stests = suite_traces.split(recs)
    ht = suite_traces.hypotest_traces(stests)
    for i, t_ in enumerate(ht):
        t_["id"] = i + 1
    if not ht:
        raise Machinery(f"no hypotest records from the repository tests {files} ({summary})")
    sacc, srej = tracecheck.check("TraceHypotest", ht, tag="c08suite", constants={"MaxUlps": 64}, spec="TraceSpecH")
    for tid, idx, reason in srej:
        t_ = ht[tid - 1]
        ev = t_["events"][idx] if idx < len(t_["events"]) else {"ev": "end"}
        v.violation(f"repository test {t_['label']}: recorded hypotest deviates from the protocol at record {idx} ({ev['ev']})",
                    {"label": t_["label"], "index": idx}, ["trace", "suite", ev["ev"]])
    v.sample(json.loads(hlines[0])); v.sample(json.loads(clines[0]))
    v.coverage.update(
        states=hy.distinct + closed.distinct, transitions=hy.generated + closed.generated,
        traces_validated_against_impl=len(accepted) + len(sacc), hook_traces_rejected=len(rejected) + len(srej), driver_hypotest_traces=len(accepted),
        repository_tests_traced=len(stests), repository_hypotest_traces_validated=len(sacc), hypotests_run=hts, refusals_checked=refus,
        toy_runs_without_convergence=toyfail, evaluations=total, distinct_nontrivial=nontriv,
        rule=("Hypotest.tla: all 16 flag sets x {q, qtilde, q0} x {asymptotics, toybased with 1..MaxToys toys} x prerequisite faults; invariants "
              "AsimovFromBkgFit, StatisticsOnRightDataset, ToyProtocol, RefusedWithoutFits, LayoutFacts. Each case is run through the real "
              "hypotest on a nuisance model: refusals, identity of every returned entry with the all-flags call (same seed), and the full hook trace "
              "is validated by TLC against the plan (dataset of every fit exact in the order lane; Asimov data recomputed through "
              "Model.expected_data from the recorded Asimov fit; toys regenerated by re-seeding). FitClosed.tla cases: observed CLs / p0 and median "
              "expected CLs against the analytic asymptotic formulae; non-trivial = at least two flags set / n > 0"),
        exhaustive=False)
    v.assumptions += ["toy reproduction relies on numpy's global generator being consumed only by the two sample() calls",
                      "analytic comparison rtol 1e-4 (fit tolerance), skipped within 1e-3 of muhat = mu"]
    return v.finish()
