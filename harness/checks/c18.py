"""C18: XmlIO.tla + MC_XmlIO.tla checked by TLC (conversion layer: RoundTripDef and the characterisation of the
implementation-shaped layer; history layer: ImportReadsCurrentFile and the characterisation of the path-keyed
cache), every emitted workspace / behaviour replayed through pyhf.writexml.writexml and pyhf.readxml.parse on
the real file system (harness/xmlio_replay.py)."""
import json
import random
import shutil

import tlc
from common import Machinery, Verdict, seed
from pool import run_chunks

ALL_KINDS = {'"mu"', '"nf2"', '"lumi"', '"normsysA"', '"normsysB"', '"histosys"', '"shapesys"', '"staterror"', '"shapefactor"'}

# ImplLumiAbs / ImplCacheStale describe the tree as read (DESIGN section 6 rows 3 and 4); flip them when the
# implementation-shaped layer has to follow a repaired tree (until then a repaired tree shows up as MODEL-DRIFT).
IMPL = dict(ImplLumiAbs=False, ImplCacheStale=False)

TIERS = {
    "quick": dict(
        conv=dict(MaxChan=2, ShapeCodes={12, 21}, MaxPlace=2, Kinds=ALL_KINDS, MaxFixed=1, MaxMeas=2, AllowZero=True, Lean=True),
        hist=dict(Dirs={1, 2}, Versions={1, 2}, MaxDepth=5),
        conv_mod=32, hist_mod=3),
    "thorough": dict(
        conv=dict(MaxChan=2, ShapeCodes={11, 12, 21, 22}, MaxPlace=2, Kinds=ALL_KINDS, MaxFixed=2, MaxMeas=2, AllowZero=True, Lean=True),
        hist=dict(Dirs={1, 2}, Versions={1, 2}, MaxDepth=6),
        conv_mod=25, hist_mod=1),
}

CONV_INV = ["FamilyExportable", "RoundTripDef", "ImplOnlyLumiSigma", "ImplLumiPrediction", "ImplAgreesIffLumiOne", "ImplXmlSameButRelErr"]
HIST_INV = ["ImportReadsCurrentFile", "ImplCacheCharacterised"]


def run(prop, tier):
    v = Verdict("C18", tier, "model_checking")
    sd = seed()
    t = TIERS[tier]
    base = dict(t["conv"], **t["hist"], **IMPL, EmitCases=True)

    # 1. conversion layer
    c_conv = dict(base, EmitMod=t["conv_mod"], EmitRes=sd % t["conv_mod"])
    conv = tlc.run("MC_XmlIO", tlc.make_cfg(c_conv, invariants=CONV_INV + ["ConvEmit"], spec="ConvSpec"), workers=16, timeout=7200)
    if not conv.ok:
        raise Machinery("MC_XmlIO/ConvSpec: an invariant of the specification fails (definition layer or the transcription is wrong):\n" + conv.tail[-3000:])
    # 2. history layer: definition invariant + characterisation of the implementation-shaped cache
    c_hist = dict(base, EmitMod=t["hist_mod"], EmitRes=sd % t["hist_mod"])
    hist = tlc.run("MC_XmlIO", tlc.make_cfg(c_hist, invariants=HIST_INV + ["HistEmit"], spec="HistSpec"), workers=8, timeout=3600)
    if not hist.ok:
        raise Machinery("MC_XmlIO/HistSpec: an invariant of the specification fails:\n" + hist.tail[-3000:])
    # 3. the implementation-shaped cache against the definition: expected to fail exactly while ImplCacheStale
    c_neg = dict(base, EmitCases=False, EmitMod=1, EmitRes=0)
    neg = tlc.run("MC_XmlIO", tlc.make_cfg(c_neg, invariants=["ImplImportReadsCurrentFile"], spec="HistSpec"), workers=1, timeout=3600)
    neg_violated = any("ImplImportReadsCurrentFile is violated" in e for e in neg.errors)
    if neg_violated != IMPL["ImplCacheStale"] or (not neg.ok and not neg_violated):
        raise Machinery(f"MC_XmlIO/HistSpec: ImplImportReadsCurrentFile violated={neg_violated} but ImplCacheStale={IMPL['ImplCacheStale']}:\n" + neg.tail[-2000:])
    if not neg.ok and not neg.cached:
        shutil.rmtree(neg.run_dir, ignore_errors=True)

    conv_cases = open(conv.cases_path).read().splitlines() if conv.cases_path else []
    hist_cases = open(hist.cases_path).read().splitlines() if hist.cases_path else []
    if not conv_cases or not hist_cases:
        raise Machinery(f"MC_XmlIO printed no cases (conv {len(conv_cases)}, hist {len(hist_cases)})")
    # the replay must contain the strata the property names: lumi != 1, fixed parameters, two measurements, custom normfactor
    strata = {"lumi!=1": 0, "lumi=1": 0, "fixed": 0, "two_measurements": 0, "normfactor_custom": 0, "zero_yield": 0,
              "staterror": 0, "shapesys": 0, "two_channels": 0}
    for ln in conv_cases:
        w = json.loads(ln)["w"]
        lum = [p["auxdata"][0] for m in w["meas"] for p in m["pars"] if p["name"] == "lumi"]
        if lum:
            strata["lumi!=1" if any(x != [1, 1] for x in lum) else "lumi=1"] += 1
        strata["fixed"] += any(p["fixed"] for m in w["meas"] for p in m["pars"])
        strata["two_measurements"] += len(w["meas"]) == 2
        strata["normfactor_custom"] += any(p["bounds"] for m in w["meas"] for p in m["pars"] if p["name"] != "lumi")
        strata["zero_yield"] += any(x == [0, 1] for c in w["channels"] for s in c["samples"] for x in s["data"])
        types = {m["type"] for c in w["channels"] for s in c["samples"] for m in s["mods"]}
        strata["staterror"] += "staterror" in types
        strata["shapesys"] += "shapesys" in types
        strata["two_channels"] += len(w["channels"]) == 2
    empty = [k for k, n in strata.items() if n == 0]
    if empty:
        raise Machinery(f"vacuous replay sample: no conversion case in the strata {empty} (EmitMod too coarse)")
    stale_predicted = sum(any(e["op"] == "import" and e["impl"] != e["demand"] for e in json.loads(ln)["hist"]) for ln in hist_cases)
    if IMPL["ImplCacheStale"] and not stale_predicted:
        raise Machinery("vacuous replay sample: no history in which the implementation-shaped cache deviates from the definition")

    rnd = random.Random(sd)
    rnd.shuffle(conv_cases)
    rnd.shuffle(hist_cases)
    nch = 64
    chunks = [conv_cases[i::nch] for i in range(nch)] + [hist_cases[i::16] for i in range(16)]
    chunks = [c for c in chunks if c]
    tot = dict(n=0, nontrivial=0, cycles=0, evaluations=0, exports=0, imports=0, clears=0, stale_predicted=0, conv=0, hist=0)
    fields = {}
    found = {}
    for out in run_chunks("xmlio_replay", "replay", chunks, backend="numpy", precision="64b", procs=16, kwargs={"seed": sd}):
        if "machinery" in out:
            raise Machinery(out["machinery"])
        for k in tot:
            tot[k] += out[k]
        for k, n in out["fields"].items():
            fields[k] = fields.get(k, 0) + n
        for (p, key, detail, tags) in out["findings"]:
            found.setdefault(key, []).append((key, detail, tags))
        for key, tags in out["more_tags"]:
            found.setdefault(key, []).append((key + " (overflow of the per-worker finding list)", {"tags": tags}, tags))
        for mod, det in out["drift"]:
            v.model_drift(mod, det)
    # Verdict prints the first 20 violations: interleave the kinds so that each of them is shown
    queues = [found[k] for k in sorted(found)]
    while any(queues):
        for q in queues:
            if q:
                v.violation(*q.pop(0))
    for ln in conv_cases[:2]:
        c = json.loads(ln)
        v.sample({"layer": "conv", "w": c["w"], "xml_meas": c["xml"]["meas"], "impl": c["impl"]})
    for ln in hist_cases[:2]:
        v.sample(json.loads(ln))
    v.coverage.update(
        states=conv.distinct + hist.distinct, transitions=conv.generated + hist.generated,
        conv_states=conv.distinct, hist_states=hist.distinct, hist_depth=hist.depth,
        tlc_cached=conv.cached and hist.cached, tlc_wall_s=round(conv.wall + hist.wall + neg.wall, 1),
        invariants=CONV_INV + HIST_INV, impl_cache_violates_definition_in_spec=neg_violated,
        traces_validated_against_impl=tot["cycles"], evaluations=tot["evaluations"], distinct_nontrivial=tot["nontrivial"],
        conv_cases=tot["conv"], histories=tot["hist"], exports=tot["exports"], imports=tot["imports"], clear_filecache_calls=tot["clears"],
        histories_where_impl_cache_is_stale=stale_predicted, strata=strata, failing_fields=fields,
        rule=("ConvSpec: TLC builds every exportable workspace of the family (1-2 channels x {samples x bins} shapes, <= MaxPlace placements of "
              "histosys/normsys(shared name)/second normsys/normfactors/shapesys/staterror/shapefactor/lumi in canonical listing order, lumi "
              "central value {1/2,1,2} x sigma {1/10,1/5}, normfactor settings default/inits+bounds/inits, <= MaxFixed fixed scalar parameters, "
              "1-2 measurements with different POI/lumi/fixed flags, optional zero-yield bin) and proves RoundTripDef on each; a seeded 1/EmitMod "
              "of them is written with writexml and read back with readxml.parse (absolute and relative output directories), compared with "
              "DefImport(DefExport(w)) field by field (1e-9 relative; TH1D and repr(float) are doubles) and by logpdf of the original vs the "
              "re-imported model at 3 parameter points x 2 datasets per measurement assembled by name.  HistSpec: all export/import/clear_filecache "
              "behaviours over 2 directories x 2 content versions of length MaxDepth ending in an import, each import compared with the version "
              "the definition says is on disk; non-trivial = workspace with >= 2 modifiers / history of >= 4 steps"),
        exhaustive=False)
    v.assumptions += [
        "exportable fragment = Exportable(w) of XmlIO.tla: one staterror name per channel, no constant bin-wise parameters, normfactor settings equal in all "
        "measurements, lumi inits = auxdata, parameter names without blanks; lumi bounds and the listing order of parameters are dictated by the format/reader",
        "the written document is compared with DefExport only as MODEL-DRIFT (the property speaks about the round trip)",
        "tolerance 1e-9 relative on data and on logpdf",
    ]
    return v.finish()
