"""C09: UpperLimit.tla + MC_UpperLimit.tla (dispatch, cached bracket-extension loops, six root searches, np.interp on the
reversed arrays, over abstract piecewise-linear CLs curves) checked by TLC; every emitted case replayed through the real
upper_limit / toms748_scan / linear_grid_scan / deprecated upperlimit with `hypotest` (as seen by upper_limits.py) replaced by
a stub serving TLC's curves; plus a few real scans on real models (CLs at each returned limit = level)."""
import json
import random

import tlc
from common import Machinery, Verdict, seed
from pool import run_chunks

INVARIANTS = ["LevelUsedIsLevelPassed", "TomsOK", "BracketValid", "ResultInCrossingCell", "GridOK", "BandOrdered",
              "ResultsAreEvaluations", "Emit"]
ACTIONS = ["DeprecatedForward", "Dispatch", "DirectToms", "DirectGrid", "EvalLo", "LoHalve", "LoDone", "EvalHi", "HiDouble", "HiDone",
           "Bisect", "Converge", "GridEval", "GridInterp"]

TIERS = {
    "quick": dict(Shapes={1, 2, 3}, Scales={1, 2, 3, 4, 5}, LevelIdx={1, 2, 3, 4, 5}, BoundsIdx={1, 2, 3, 4, 5, 6, 7}, GridIdx={1, 2, 3, 4, 5, 6, 7},
                  MaxBisect=1, MaxTotalBisect=1, EmitMod=1),
    "thorough": dict(Shapes={1, 2, 3}, Scales={1, 2, 3, 4, 5}, LevelIdx={1, 2, 3, 4, 5}, BoundsIdx={1, 2, 3, 4, 5, 6, 7}, GridIdx={1, 2, 3, 4, 5, 6, 7},
                     MaxBisect=2, MaxTotalBisect=3, EmitMod=1),
}
REAL = {"quick": 6, "thorough": 60}

MODELS = [
    dict(signal=[12.0, 11.0], bkg=[50.0, 52.0], unc=[3.0, 7.0], obs=[55.0, 57.0]),
    dict(signal=[12.0, 11.0], bkg=[50.0, 52.0], unc=[3.0, 7.0], obs=[60.0, 58.0]),
    dict(signal=[5.0, 10.0], bkg=[40.0, 60.0], unc=[5.0, 6.0], obs=[44.0, 66.0]),
    dict(signal=[20.0], bkg=[100.0], unc=[10.0], obs=[110.0]),
    dict(signal=[3.0, 6.0, 9.0], bkg=[30.0, 30.0, 30.0], unc=[3.0, 4.0, 5.0], obs=[33.0, 34.0, 38.0]),
    dict(signal=[12.0, 11.0], bkg=[50.0, 52.0], unc=[3.0, 7.0], obs=[51.0, 48.0]),
]


def real_cases(n, rnd):
    """seeded real scans; the first six cover each level in the automatic mode through upper_limit"""
    out = []
    levels = [0.1, 0.2, 0.05]
    for i in range(n):
        m = MODELS[i % len(MODELS)] if i < len(MODELS) else rnd.choice(MODELS)
        if i >= len(MODELS):
            m = dict(m, obs=[float(max(1, round(b + rnd.gauss(0, b ** 0.5)))) for b in m["bkg"]])
        if i < 4 or i % 5 != 4:
            entry = "upper_limit" if i < 4 else rnd.choice(["upper_limit", "upper_limit", "upperlimit", "toms748_scan"])
            out.append(dict(m, mode="real", scan_mode="toms748", entry=entry, level=levels[i % 3]))
        else:
            out.append(dict(m, mode="real", scan_mode="grid", entry="upper_limit", level=levels[i % 3], grid=[0.0, 6.0, rnd.choice([13, 25, 31])]))
    return [json.dumps(c) for c in out]


def run(prop, tier):
    v = Verdict("C09", tier, "model_checking")
    sd = seed()
    c = dict(TIERS[tier])
    # (a) the definition: level forwarded in both modes -- all invariants must hold, cases are emitted
    consts = dict(c, ForwardLevel=True, EmitCases=True, EmitRes=sd % c["EmitMod"])
    cfg = tlc.make_cfg(consts, invariants=INVARIANTS)
    res = tlc.run("MC_UpperLimit", cfg, workers=16, timeout=3600, coverage=True)
    if not res.ok:
        raise Machinery("MC_UpperLimit / UpperLimit: an ASSUME or invariant of the specification fails:\n" + res.tail[-3000:])
    missing = [a for a in ACTIONS if res.coverage.get(a, {}).get("taken", 0) == 0]
    if missing:
        raise Machinery(f"MC_UpperLimit: vacuous run, actions never taken: {missing}")
    if not res.cases_path:
        raise Machinery("MC_UpperLimit printed no cases")
    # (b) self-test of the invariants: the dispatch with `level` omitted (toms748_scan falls back to its default) must be rejected
    consts_b = dict(c, ForwardLevel=False, EmitCases=False, EmitRes=0, MaxBisect=1, MaxTotalBisect=0)
    res_b = tlc.run("MC_UpperLimit", tlc.make_cfg(consts_b, invariants=INVARIANTS[:-1]), workers=4, timeout=1800)
    if res_b.ok or not any("LevelUsedIsLevelPassed" in e for e in res_b.errors):
        raise Machinery("MC_UpperLimit: the instance that drops `level` in the automatic mode is NOT rejected by LevelUsedIsLevelPassed "
                        f"(errors: {res_b.errors}) -- the invariant is vacuous")
    cases = sorted(open(res.cases_path).read().splitlines())   # TLC's workers print in a run-dependent order
    rnd = random.Random(sd)
    rnd.shuffle(cases)
    reals = real_cases(REAL[tier], rnd)
    nch = 16 if tier == "quick" else 32
    chunks = [c_ for c_ in (cases[i::nch] for i in range(nch)) if c_]
    # real scans: a few per worker chunk of their own (they are slow)
    per = 1 if tier == "quick" else 2
    chunks += [reals[i:i + per] for i in range(0, len(reals), per)]
    tot = dict(n=0, nontrivial=0, calls=0, stub_evals=0, toms_calls=0, grid_calls=0, real_scans=0, real_hypotests=0, limits_compared=0,
               nondefault_level_toms=0, real_discarded_nan_at_mu0=0, extended_lo=0, extended_hi=0, unbracketed_curves=0, results_checked=0)
    edge, maxrel_toms, maxrel_real = {}, 0.0, 0.0
    for out in run_chunks("upperlimit_replay", "replay", chunks, backend="numpy", precision="64b", procs=16, kwargs={"seed": sd}):
        if "machinery" in out:
            raise Machinery(out["machinery"])
        for k in tot:
            tot[k] += out[k]
        for k, n in out["edge"].items():
            edge[k] = edge.get(k, 0) + n
        maxrel_toms = max(maxrel_toms, out["maxrel_toms"])
        maxrel_real = max(maxrel_real, out["maxrel_real"])
        for (p, key, detail, tags) in out["findings"]:
            v.violation(key, detail, tags)
        if out.get("more"):
            v.violation(f"(overflow of a worker's finding list: {out['more']} more)", {}, ["overflow"])
        for m, d in out["drift"]:
            v.model_drift(m, d)
    if not v.violations and not v.known_hits and (tot["toms_calls"] == 0 or tot["grid_calls"] == 0 or tot["stub_evals"] == 0):
        raise Machinery(f"C09 replay is vacuous: {tot}")
    for ln in cases[:2]:
        d = json.loads(ln)
        v.sample({k: d[k] for k in ("mode", "kx", "ky", "scales", "level", "bounds", "scan", "crossings")})
    v.sample(json.loads(reals[0]))
    v.coverage.update(
        states=res.distinct, transitions=res.generated, depth=res.depth, tlc_cached=res.cached, tlc_wall_s=round(res.wall, 1),
        invariants=INVARIANTS[:-1], actions={a: res.coverage.get(a, {}).get("taken", 0) for a in ACTIONS},
        level_dropping_instance_rejected_by=[e for e in res_b.errors if "violated" in e][:2],
        traces_validated_against_impl=tot["n"], evaluations=tot["calls"] + tot["real_scans"], distinct_nontrivial=tot["nontrivial"],
        cases_emitted=len(cases), stubbed_toms748_runs=tot["toms_calls"], stubbed_grid_runs=tot["grid_calls"], stub_hypotest_evaluations=tot["stub_evals"],
        real_scans=tot["real_scans"], real_scans_discarded_hypotest_nan_at_mu0=tot["real_discarded_nan_at_mu0"], real_hypotests_at_limits=tot["real_hypotests"], limits_compared=tot["limits_compared"],
        automatic_scans_ok_at_nondefault_level=tot["nondefault_level_toms"], lower_bound_extended=tot["extended_lo"],
        upper_bound_extended=tot["extended_hi"], unbracketed_grid_curves_skipped=tot["unbracketed_curves"],
        return_results_checked=tot["results_checked"], edge_cases_crossing_on_a_scan_bound=edge,
        max_toms_deviation_in_units_of_rtol=maxrel_toms, max_real_cls_rel_deviation=maxrel_real,
        rule=("TLC enumerates every call (entry point upper_limit / deprecated upperlimit / toms748_scan / linear_grid_scan) x 3 curve shapes x "
              "4 scale sets (six ordered piecewise-linear CLs curves, rational knots) x 5 levels x 7 POI bounds (bracketing, too low, too high) "
              "or 7 grids (3-7 points, uniform and not, dyadic and not), step by step through the dispatch, the cached extension loops, the six "
              "root searches / the np.interp of the reversed arrays; every terminal state is replayed on the real functions through all "
              "applicable entry points with hypotest stubbed by the curves; toms748: |limit - exact crossing| <= 1.5 rtol x (default 1e-4 "
              "and forwarded 1e-5); grid: inside the crossing cell; plus real scans on real models with hypotest(limit) = level within 1e-3; "
              "non-trivial = non-default level or extended bounds or real model"),
        exhaustive=False)
    v.assumptions += ["numpy backend only (the quantifier of C09 does not range over backends; on this tree the scans fail on the other backends)",
                      "a crossing exactly on the (extended) upper bound is outside the property (best_bracket raises ValueError there); counted, not judged",
                      "a real scan that fails because hypotest(0) itself is NaN (q_A = 0 exactly, q = optimiser noise) is discarded and counted: the CLs curve is undefined there",
                      "toms748 ends with a bracket of width <= xtol + rtol*|x| containing the root"]
    return v.finish()
