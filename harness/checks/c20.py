"""C20: fault enumeration from MC_HFValidity.tla replayed into pyhf.Model / Workspace.model."""
import json
import random

import tlc
from common import Machinery, Verdict, seed
from pool import run_chunks

TIERS = {
    "quick": dict(MaxPlace=2, MaxChan=2, MaxSamp=2, BinChoices={1, 2}, NPts=1, Settings={1}, Overrides={0}, EmitMod=24, Pairs=False),
    "thorough": dict(MaxPlace=2, MaxChan=2, MaxSamp=2, BinChoices={1, 2}, NPts=1, Settings={1}, Overrides={0}, EmitMod=8, Pairs=True),
}


def run(prop, tier):
    v = Verdict("C20", tier, "fault_enumeration")
    sd = seed()
    c = dict(TIERS[tier])
    consts = dict(c, EmitCases=True, EmitRes=sd % c["EmitMod"])
    cfg = tlc.make_cfg(consts, invariants=["CleanIsWF", "FaultBreaksWF", "VEmit"], spec="VSpec")
    # no -coverage (see hf.py: the coverage instrumentation of the HFModel family does not get past start-up); vacuity guard below
    res = tlc.run("MC_HFValidity", cfg, workers=16, timeout=7200, jvm_opts=("-Xmx24g",) if tier == "thorough" else ())
    if not res.ok:
        raise Machinery("MC_HFValidity invariants fail (fault injector or WF definition is wrong):\n" + res.tail[-3000:])
    lines = open(res.cases_path).read().splitlines()
    chunks = [lines[i::64] for i in range(64)]
    chunks = [c_ for c_ in chunks if c_]
    total = nontriv = clean = 0
    kinds, outcomes = {}, {}
    for out in run_chunks("validity", "replay", chunks, procs=16, kwargs={"seed": sd}):
        if out.get("machinery"):
            raise Machinery(out["machinery"])
        total += out["n"]
        nontriv += out["nontrivial"]
        clean += out["clean"]
        for k, n in out["kinds"].items():
            kinds[k] = kinds.get(k, 0) + n
        for k, n in out["outcomes"].items():
            outcomes[k] = outcomes.get(k, 0) + n
        for (p, key, detail, tags) in out["findings"]:
            v.violation(key, detail, tags)
        for tags in out.get("more_tags", []):
            v.violation("(overflow of the per-worker finding list)", {"tags": tags}, tags)
    if clean == 0 or len(kinds) < 6:
        raise Machinery(f"C20: vacuous run (clean controls {clean}, fault kinds {sorted(kinds)})")
    rnd = random.Random(sd)
    for ln in rnd.sample(lines, min(3, len(lines))):
        cse = json.loads(ln)
        v.sample({"fault": cse["fault"], "spec": cse["spec"]})
    v.coverage.update(
        states=res.distinct, transitions=res.generated, tlc_cached=res.cached, tlc_wall_s=round(res.wall, 1),
        evaluations=total, distinct_nontrivial=nontriv, clean_controls=clean, fault_kinds=kinds, outcomes=outcomes,
        traces_validated_against_impl=total,
        rule=("every single structural fault (thorough: and pairs) of the classes listed in the property, injected by MC_HFValidity.tla at "
              "every applicable position of every well-formed specification with <= MaxPlace modifier placements; TLC proves each faulty "
              "spec violates WF and each clean one satisfies it; a seeded 1/EmitMod of the specifications is replayed through pyhf.Model and "
              "Workspace.model; distinct = distinct (spec, fault) states; all faulty cases are non-trivial"),
        exhaustive=False)
    v.assumptions += ["WF in MC_HFValidity.tla is the property's notion of structural consistency", "an exception counts as pyhf's own iff its class (or a base) is defined in pyhf.exceptions"]
    return v.finish()
