"""C05: Fit.tla (protocol, exhaustive) + FitClosed.tla (exact optima) checked by TLC; real fits replayed (Binding A) and
every fit's H4 trace validated by TLC against TraceFit.tla (Binding B)."""
import json
import random

import tlc
import tracecheck
from common import Machinery, Verdict, seed
from pool import run_chunks

FIT_INV = ["InBounds", "FixedHeld", "FreeFromMinimiser", "NoSuccessNoReturn", "RefusedOnlyOutside", "Emit"]
TIERS = {"quick": dict(tier=1, emitmod=300, backends=[("numpy", "64b"), ("pytorch", "64b"), ("jax", "64b"), ("tensorflow", "64b")], closed_frac=0.5),
         "thorough": dict(tier=2, emitmod=30, backends=[("numpy", "64b"), ("pytorch", "64b"), ("jax", "64b"), ("tensorflow", "64b")], closed_frac=1.0)}


SUITE = {"quick": ["tests/test_teststats.py", "tests/test_calculator.py"],
         "thorough": ["tests/test_teststats.py", "tests/test_calculator.py", "tests/test_infer.py", "tests/test_pdf.py", "tests/test_validation.py",
                      "tests/test_jit.py", "tests/test_backend_consistency.py", "tests/test_simplemodels.py"]}


def validate_traces(v, traces, what):
    for i, t in enumerate(traces):
        t["id"] = i + 1
    if not traces:
        raise Machinery("hook H4 produced no fit traces (PYHF_VERIF hooks missing from the tree under test?)")
    cfgtxt_consts = {"MaxUlps": 64}
    import tlc as _t
    # tracecheck builds its own cfg without constants: pass them through a tiny wrapper
    accepted, rejected = tracecheck.check("TraceFit", traces, invariants=[], tag="c05trace", constants=cfgtxt_consts)
    for tid, idx, reason in rejected:
        t = traces[tid - 1]
        ev = t["events"][idx]["ev"] if idx < len(t["events"]) else "end"
        v.violation(f"recorded fit ({t.get('label')}) is not a behaviour of Fit.tla: record {idx} ({ev}) violates the protocol "
                    "(bounds / fixed values / stitch inverse / honest objective / success discipline)",
                    {"trace": t["events"][max(0, idx - 2): idx + 1], "index": idx, "what": what}, ["trace", ev])
    return len(accepted), len(rejected)


def run(prop, tier):
    v = Verdict("C05", tier, "model_checking")
    sd = seed()
    t = TIERS[tier]
    # 1. the protocol state machine, exhaustively (3 parameters, 3-point grid): strip/stitch algebra for every mask
    cfg = tlc.make_cfg(dict(N=3, G=2, EmitCases=True, EmitMod=t["emitmod"], EmitRes=sd % t["emitmod"]), invariants=FIT_INV)
    fit = tlc.run("Fit", cfg, workers=16, timeout=3600, coverage=(tier == "thorough"))
    if tier == "thorough":
        tlc.require_actions(fit, ["Validate", "Shim", "Minimise", "Post"], "Fit")
    if not fit.ok:
        raise Machinery("Fit.tla invariants fail:\n" + fit.tail[-3000:])
    # 2. closed-form families with exact optima
    cfg2 = tlc.make_cfg(dict(Tier=t["tier"], EmitCases=True), invariants=["Feasible", "ScoreZeroWhenInterior", "Emit"])
    closed = tlc.run("FitClosed", cfg2, workers=4, timeout=1800)
    if not closed.ok:
        raise Machinery("FitClosed.tla invariants fail:\n" + closed.tail[-3000:])
    rnd = random.Random(sd)
    plines = open(fit.cases_path).read().splitlines()
    clines = open(closed.cases_path).read().splitlines()
    rnd.shuffle(clines)
    clines = clines[: max(8, int(len(clines) * t["closed_frac"]))]
    total = nontriv = fits = comps = refusals = 0
    traces = []
    for be, prec in t["backends"]:
        nproc = 16 if be in ("numpy", "pytorch") else 8
        pl = plines if be == "numpy" else plines[:: (4 if be != "tensorflow" or tier == "thorough" else 12)]
        cl = clines if be in ("numpy", "pytorch") else clines[:: (8 if tier == "quick" else 4)]
        if be == "tensorflow" and tier == "quick":
            cl = cl[:4]
        for fn, lines in (("replay_protocol", pl), ("replay_closed", cl)):
            chunks = [lines[i::nproc] for i in range(nproc)]
            for out in run_chunks("fit_replay", fn, [c for c in chunks if c], backend=be, precision=prec, procs=nproc,
                                  kwargs={"seed": sd}, env={"PYHF_VERIF": "1"}):
                if "machinery" in out:
                    raise Machinery(out["machinery"])
                total += out["n"]; nontriv += out["nontrivial"]; fits += out["fits"]
                comps += out.get("competitors", 0); refusals += out.get("refusals", 0)
                for (p, key, detail, tags) in out["findings"]:
                    v.violation(f"[{be}/{prec}] {key}", detail, tags + [f"backend:{be}"])
                traces += out["traces"]
    nacc, nrej = validate_traces(v, traces, "C05 drivers")
    # Binding B, source (ii): the repository's own tests under the tracer -- every fit they execute is validated
    import suite_traces
    files = SUITE[tier]
    recs, summary = suite_traces.run_tests(files, "c05suite")
    tests = suite_traces.split(recs)
    st = suite_traces.fit_traces(tests)
    suite_fit_events = sum(len(x["events"]) for x in st)
    if not st:
        raise Machinery(f"no fit records from the repository tests {files} ({summary})")
    sacc, srej = validate_traces(v, st, "repository tests " + " ".join(files))
    for ln in clines[:2] + plines[:1]:
        v.sample(json.loads(ln))
    v.coverage.update(
        states=fit.distinct + closed.distinct, transitions=fit.generated + closed.generated, tlc_wall_s=round(fit.wall + closed.wall, 1),
        tlc_invariants=FIT_INV + ["Feasible", "ScoreZeroWhenInterior"],
        traces_validated_against_impl=nacc + sacc, hook_traces_rejected=nrej + srej, driver_fit_traces=nacc,
        repository_tests_traced=len(tests), repository_test_files=files, repository_fit_traces_validated=sacc, repository_fit_events=suite_fit_events, fits_run=fits, refusals_seen=refusals, competitor_points=comps,
        evaluations=total, distinct_nontrivial=nontriv,
        rule=("Fit.tla: every (initial point, bounds, fixed mask, POI-fixed, stitch) combination for 3 parameters on a 3-point grid with a "
              "nondeterministic minimiser, invariants InBounds/FixedHeld/FreeFromMinimiser/NoSuccessNoReturn; a seeded share of the validated/"
              "refused calls is run for real on a 3-parameter nuisance model (scipy and minuit, gradients where available), checked against the "
              "competitor set = grid points of the box; FitClosed.tla: exact rational optimum of two counting families on a grid of "
              "(s, b, n, mu, lower bound); real fits over optimiser x do_grad x do_stitch must attain it; every real fit's hook trace is "
              "validated by TLC against TraceFit.tla (order lane); non-trivial = at least one fixed parameter / n > 0"),
        exhaustive=False)
    v.assumptions += ["optimality over the continuum is decided only on closed-form families and finite competitor sets (DESIGN section 5)",
                      "tolerance on objectives 1e-5 + 1e-7|f|; honest-objective check: re-evaluation through Model.logpdf within 64 ulps or 1e-11 relative"]
    return v.finish()
