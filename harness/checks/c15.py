"""C15: Rewrites.tla (TLC proves every composition of rewrites preserves the likelihood in the model) + the rewritten
workspaces replayed through the real inference chain."""
import json
import random

import tlc
from common import Machinery, Verdict, seed
from pool import run_chunks

TIERS = {"quick": dict(MaxOps=2, EmitMod=4, backends=[("numpy", ("scipy",)), ("pytorch", ("scipy",)), ("jax", ("scipy",)), ("tensorflow", ("scipy",))], limits=False),
         "thorough": dict(MaxOps=3, EmitMod=12, backends=[("numpy", ("scipy", "minuit")), ("pytorch", ("scipy",)), ("jax", ("scipy",))], limits=True)}


def run(prop, tier):
    v = Verdict("C15", tier, "model_checking")
    sd = seed()
    t = TIERS[tier]
    consts = dict(MaxOps=t["MaxOps"], Seeds={1, 2, 3, 4}, EmitCases=True, EmitMod=t["EmitMod"], EmitRes=sd % t["EmitMod"])
    res = tlc.run("Rewrites", tlc.make_cfg(consts, invariants=["Preserves", "BinsPartition", "ConstraintsPreserved", "WidthsPreserved", "Emit"]), workers=16, timeout=7200)
    if not res.ok:
        raise Machinery("Rewrites.tla: a rewrite does not preserve the likelihood in the model:\n" + res.tail[-3000:])
    lines = open(res.cases_path).read().splitlines()
    rnd = random.Random(sd)
    rnd.shuffle(lines)
    total = nontriv = compared = discarded = 0
    maxdev = {}
    for bi, (be, opts) in enumerate(t["backends"]):
        use = lines if bi == 0 else (lines[8 * (bi - 1): 8 * bi] if tier == "quick" else lines[: max(8, len(lines) // 6)])
        chunks = [use[i::16] for i in range(16)]
        for out in run_chunks("rewrites_replay", "replay", [c for c in chunks if c], backend=be, precision="64b", procs=16,
                              kwargs={"seed": sd, "optimizers": list(opts), "with_limits": t["limits"] and bi == 0}):
            if "machinery" in out:
                raise Machinery(out["machinery"])
            total += out["n"]; nontriv += out["nontrivial"]; compared += out["compared"]; discarded += out["discarded"]
            for k, x in out["maxdev"].items():
                maxdev[k] = max(maxdev.get(k, 0.0), x)
            for (p, key, detail, tags) in out["findings"]:
                v.violation(f"[{be}] {key}", detail, tags)
    for ln in lines[:3]:
        c = json.loads(ln)
        v.sample({"seed": c["seed"], "prog": c["prog"], "scale": c["scale"]})
    v.coverage.update(states=res.distinct, transitions=res.generated, tlc_cached=res.cached, tlc_wall_s=round(res.wall, 1),
                      tlc_invariants=["Preserves", "BinsPartition", "ConstraintsPreserved", "WidthsPreserved"],
                      traces_validated_against_impl=total, inference_comparisons=compared, discarded_insensitive_or_failed=discarded,
                      largest_deviation_seen=maxdev, evaluations=total, distinct_nontrivial=nontriv,
                      rule=("all compositions of <= MaxOps rewrites (permute every list, rename parameter/channel/sample, add zero sample, add null "
                            "histosys/normsys, split channel, merge samples with identical modifiers, rescale signal by 2 or 1/2) from 4 seed workspaces with "
                            "nuisances of several types; TLC proves Preserves (bin-by-bin rates at corresponding points), BinsPartition, "
                            "ConstraintsPreserved for every state; a seeded 1/EmitMod of the rewritten workspaces is built for real and mle.fit, qmu_tilde, "
                            "hypotest(return_expected_set) (thorough: upper_limit, minuit, pytorch, jax) compared with the original; "
                            "non-trivial = programs of >= 2 rewrites"),
                      exhaustive=False)
    v.assumptions += ["tolerances calibrated on the unchanged tree (largest deviation recorded in the evidence), x10 margin, frozen: 2NLL 2e-4 (scipy) / 5e-3 (minuit); CLs 5e-3 relative",
                      "models with median expected CLs >= 0.9 are discarded (property: sensitive models)"]
    return v.finish()
