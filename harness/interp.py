"""Worker side of the C03 replay: histories of calls / backend switches on real interpolator objects."""
import json
import math

import leaf
from common import frac

CODEKEY = {0: 0, 1: 1, 2: 2, 4: 4, 44: "4p"}


def expected_value(e, ainv):
    mp = leaf.mp
    if e["kind"] == "rat":
        return leaf.mpf(frac(e["v"]))
    if e["kind"] == "pow":
        return mp.power(leaf.mpf(frac(e["base"])), leaf.mpf(frac(e["exp"])))
    # poly4: 1 + sum_i (AInv b)_i alpha^i with the specification's AInv
    up, dn, a, a0 = (leaf.mpf(frac(e[k])) for k in ("up", "dn", "a", "a0"))
    U, D = mp.power(up, a0), mp.power(dn, a0)
    lu, ld = mp.log(up), mp.log(dn)
    b = [U - 1, D - 1, lu * U, -ld * D, lu * lu * U, ld * ld * D]
    ai = ainv[str(frac(e["a0"]))]
    coef = [sum(leaf.mpf(frac(ai[i][j])) * b[j] for j in range(6)) for i in range(6)]
    return 1 + sum(coef[i] * a ** (i + 1) for i in range(6))


def replay(pyhf, backend, precision, chunk, ainv, seed):
    out = {"n": 0, "nontrivial": 0, "findings": [], "calls": 0, "switches": 0}
    tol = 1e-12 if precision == "64b" else 2e-5

    def add(key, detail, tags):
        if len(out["findings"]) < 40:
            out["findings"].append(("C03", key, detail, tags))

    for line in chunk:
        case = json.loads(line)
        code = case["code"]
        dn, nom, up = (float(frac(x)) for x in case["triple"])
        # two systematics: the triple and its mirror image (evaluated at -alpha they must agree)
        hset = [[[[dn], [nom], [up]]], [[[up], [nom], [dn]]]]
        pyhf.set_backend(case["backend0"], precision=precision)
        get = pyhf.interpolators.get
        a0 = float(frac(case["a0"]))
        kw = {"alpha0": a0} if code == 4 and a0 != 1.0 else {}
        obj = get(CODEKEY[code])(hset, **kw)
        out["n"] += 1
        tags = [f"code{code}"]
        bad = False
        for si, step in enumerate(case["hist"]):
            if step["op"] == "switch":
                pyhf.set_backend(step["backend"], precision=precision)
                out["switches"] += 1
                continue
            out["calls"] += 1
            tl = pyhf.tensorlib
            al = [float(frac(a)) for a in step["alphas"]]
            aset = tl.astensor([al, [-a for a in al]])
            try:
                got = tl.tolist(obj(aset))
                fresh = tl.tolist(get(CODEKEY[code])(hset, **kw)(aset))
                slow = tl.tolist(get(CODEKEY[code], do_tensorized_calc=False)(hset, **kw)(aset))
            except Exception as e:  # noqa: BLE001
                add(f"interpolator call failed after history: {type(e).__name__}: {e}", {"case": case, "step": si}, tags + ["evalfail"])
                bad = True
                break
            det = {"case": case, "step": si, "alphas": al, "got": got, "fresh": fresh, "slow": slow, "backend": tl.name}
            if got != fresh:
                add("value depends on the shapes of earlier calls / backend switches (differs from a fresh interpolator)", det, tags + ["history"])
                bad = True
                break
            flat_g = [got[s][0][i][0] for s in range(2) for i in range(len(al))]
            flat_s = [slow[s][0][i][0] for s in range(2) for i in range(len(al))]
            if any(not (abs(g - s) <= tol * max(1.0, abs(s))) for g, s in zip(flat_g, flat_s)):
                add("vectorised and scalar reference implementations disagree", det, tags + ["fastslow"])
                bad = True
                break
            if si == len(case["hist"]) - 1:
                exp = [expected_value(e, ainv) for e in case["expected"]]
                for s in range(2):
                    for i, e in enumerate(exp):
                        g = got[s][0][i][0]
                        if not (abs(g - float(e)) <= tol * max(1.0, abs(float(e)))):
                            det2 = dict(det, expected=[float(x) for x in exp], syst=s, index=i)
                            add(f"code {CODEKEY[code]} value differs from its published piecewise formula", det2, tags + ["value", f"kind:{case['expected'][i]['kind']}"])
                            bad = True
                            break
                    if bad:
                        break
                # floating-point neighbours of the breakpoints: continuity means neighbours stay close
                if not bad:
                    pts = []
                    for s0 in (-a0, 0.0, a0):
                        pts += [math.nextafter(s0, -math.inf), s0, math.nextafter(s0, math.inf)]
                    pts += [-0.0, 5e-324, -5e-324]
                    if precision == "32b":
                        pts = [-a0 * (1 + 1.2e-7), -a0, -a0 * (1 - 1.2e-7), -1e-38, 0.0, 1e-38, a0 * (1 - 1.2e-7), a0, a0 * (1 + 1.2e-7), -0.0]
                    try:
                        res = tl.tolist(get(CODEKEY[code])(hset, **kw)(tl.astensor([pts, [-p for p in pts]])))
                    except Exception as e:  # noqa: BLE001
                        add(f"evaluation at breakpoint neighbours failed: {type(e).__name__}: {e}", det, tags)
                        bad = True
                    else:
                        vals = [res[0][0][i][0] for i in range(len(pts))]
                        mirror = [res[1][0][i][0] for i in range(len(pts))]
                        ctol = 1e-9 if precision == "64b" else 1e-4
                        groups = [(0, 1, 2), (3, 4, 5), (6, 7, 8)] if precision == "64b" else [(0, 1, 2), (3, 4, 5), (6, 7, 8)]
                        for gI in groups:
                            mid = vals[gI[1]]
                            for j in gI:
                                if not (abs(vals[j] - mid) <= ctol * max(1.0, abs(mid))) or not (abs(mirror[j] - mid) <= ctol * max(1.0, abs(mid))):
                                    add(f"code {CODEKEY[code]} is not continuous at a breakpoint (floating-point neighbours jump)",
                                        dict(det, points=pts, values=vals, mirror=mirror), tags + ["seam"])
                                    bad = True
                                    break
                            if bad:
                                break
            if bad:
                break
        # wide lane: the same interpolator class over 2 systematics x 2 histograms x 2 bins whose entries differ (second bin:
        # same nominal and up, another down; second histogram: bins swapped).  Every entry must equal what the single-entry
        # interpolator (validated above against the published formula) returns for that entry, and the scalar reference.
        if not bad and case["hist"] and case["hist"][-1]["op"] != "switch":
            tl = pyhf.tensorlib
            dn2 = dn * 0.75 + 0.0625 * nom
            ent = {(0, 0, 0): (dn, nom, up), (0, 0, 1): (dn2, nom, up), (0, 1, 0): (dn2, nom, up), (0, 1, 1): (dn, nom, up),
                   (1, 0, 0): (up, nom, dn), (1, 0, 1): (up, nom, dn2), (1, 1, 0): (up, nom, dn2), (1, 1, 1): (up, nom, dn)}
            wide = [[[[ent[(s_, h_, b_)][k_] for b_ in range(2)] for k_ in range(3)] for h_ in range(2)] for s_ in range(2)]
            al = [float(frac(a)) for a in case["hist"][-1]["alphas"]]
            aset = tl.astensor([al, [-a for a in al]])
            try:
                gw = tl.tolist(get(CODEKEY[code])(wide, **kw)(aset))
                sw = tl.tolist(get(CODEKEY[code], do_tensorized_calc=False)(wide, **kw)(aset))
                single = {}
                for key_, (d_, n_, u_) in ent.items():
                    trip = (d_, n_, u_)
                    if trip not in single:
                        single[trip] = tl.tolist(get(CODEKEY[code])([[[[d_], [n_], [u_]]]], **kw)(tl.astensor([al])))      # one systematic: one alpha row
            except Exception as e:  # noqa: BLE001
                add(f"interpolator over several histograms and bins failed: {type(e).__name__}: {e}", {"case": case, "hset": wide}, tags + ["evalfail", "wide"])
            else:
                out["calls"] += 1
                for (s_, h_, b_), trip in ent.items():
                    for i in range(len(al)):
                        g = gw[s_][h_][i][b_]
                        ref = single[trip][0][0][i][0] if s_ == 0 else tl.tolist(get(CODEKEY[code])([[[[trip[0]], [trip[1]], [trip[2]]]]], **kw)(tl.astensor([[-a for a in al]])))[0][0][i][0]
                        sl = sw[s_][h_][i][b_]
                        if not (abs(g - ref) <= tol * max(1.0, abs(ref))) or not (abs(g - sl) <= tol * max(1.0, abs(sl))):
                            add(f"code {CODEKEY[code]} over several histograms/bins: an entry differs from the single-entry interpolator or the scalar reference",
                                {"case": case, "hset": wide, "alphas": al, "entry": [s_, h_, b_], "got": g, "single": ref, "scalar": sl}, tags + ["wide"])
                            bad = True
                            break
                    if bad:
                        break
        # ... and one systematic alone (nominal and up identical in every entry, only down differs), both signs of alpha
        if not bad and case["hist"] and case["hist"][-1]["op"] != "switch":
            try:
                for sign in (1.0, -1.0):
                    arow = [sign * a for a in al]
                    g1 = tl.tolist(get(CODEKEY[code])([wide[0]], **kw)(tl.astensor([arow])))
                    for (s_, h_, b_), trip in ent.items():
                        if s_ != 0 or bad:
                            continue
                        ref1 = tl.tolist(get(CODEKEY[code])([[[[trip[0]], [trip[1]], [trip[2]]]]], **kw)(tl.astensor([arow])))
                        for i in range(len(al)):
                            if not (abs(g1[0][h_][i][b_] - ref1[0][0][i][0]) <= tol * max(1.0, abs(ref1[0][0][i][0]))):
                                add(f"code {CODEKEY[code]} over several histograms/bins (one systematic): an entry differs from the single-entry interpolator",
                                    {"case": case, "hset": [wide[0]], "alphas": arow, "entry": [h_, b_], "got": g1[0][h_][i][b_], "single": ref1[0][0][i][0]}, tags + ["wide"])
                                bad = True
                                break
            except Exception as e:  # noqa: BLE001
                add(f"interpolator over several histograms and bins failed: {type(e).__name__}: {e}", {"case": case}, tags + ["evalfail", "wide"])
        if len(case["hist"]) >= 2:
            out["nontrivial"] += 1
    return out
