"""Worker side of the C03 replay: histories of calls / backend switches on real interpolator objects."""
import json
import math

import leaf
from common import frac

CODEKEY = {0: 0, 1: 1, 2: 2, 4: 4, 44: "4p"}


def expected_value(e, ainv):
    mp = leaf.mp
    if e["kind"] == "rat":
        return leaf.mpf(frac(e["v"]))
    if e["kind"] == "pow":
        return mp.power(leaf.mpf(frac(e["base"])), leaf.mpf(frac(e["exp"])))
    # poly4: 1 + sum_i (AInv b)_i alpha^i with the specification's AInv
    up, dn, a, a0 = (leaf.mpf(frac(e[k])) for k in ("up", "dn", "a", "a0"))
    U, D = mp.power(up, a0), mp.power(dn, a0)
    lu, ld = mp.log(up), mp.log(dn)
    b = [U - 1, D - 1, lu * U, -ld * D, lu * lu * U, ld * ld * D]
    ai = ainv[str(frac(e["a0"]))]
    coef = [sum(leaf.mpf(frac(ai[i][j])) * b[j] for j in range(6)) for i in range(6)]
    return 1 + sum(coef[i] * a ** (i + 1) for i in range(6))


def replay(pyhf, backend, precision, chunk, ainv, seed):
    out = {"n": 0, "nontrivial": 0, "findings": [], "calls": 0, "switches": 0}
    tol = 1e-12 if precision == "64b" else 2e-5

    def add(key, detail, tags):
        if len(out["findings"]) < 40:
            out["findings"].append(("C03", key, detail, tags))

    for line in chunk:
        case = json.loads(line)
        code = case["code"]
        dn, nom, up = (float(frac(x)) for x in case["triple"])
        # two systematics: the triple and its mirror image (evaluated at -alpha they must agree)
        hset = [[[[dn], [nom], [up]]], [[[up], [nom], [dn]]]]
        pyhf.set_backend(case["backend0"], precision=precision)
        get = pyhf.interpolators.get
        a0 = float(frac(case["a0"]))
        kw = {"alpha0": a0} if code == 4 and a0 != 1.0 else {}
        obj = get(CODEKEY[code])(hset, **kw)
        out["n"] += 1
        tags = [f"code{code}"]
        bad = False
        for si, step in enumerate(case["hist"]):
            if step["op"] == "switch":
                pyhf.set_backend(step["backend"], precision=precision)
                out["switches"] += 1
                continue
            out["calls"] += 1
            tl = pyhf.tensorlib
            al = [float(frac(a)) for a in step["alphas"]]
            aset = tl.astensor([al, [-a for a in al]])
            try:
                got = tl.tolist(obj(aset))
                fresh = tl.tolist(get(CODEKEY[code])(hset, **kw)(aset))
                slow = tl.tolist(get(CODEKEY[code], do_tensorized_calc=False)(hset, **kw)(aset))
            except Exception as e:  # noqa: BLE001
                add(f"interpolator call failed after history: {type(e).__name__}: {e}", {"case": case, "step": si}, tags + ["evalfail"])
                bad = True
                break
            det = {"case": case, "step": si, "alphas": al, "got": got, "fresh": fresh, "slow": slow, "backend": tl.name}
            if got != fresh:
                add("value depends on the shapes of earlier calls / backend switches (differs from a fresh interpolator)", det, tags + ["history"])
                bad = True
                break
            flat_g = [got[s][0][i][0] for s in range(2) for i in range(len(al))]
            flat_s = [slow[s][0][i][0] for s in range(2) for i in range(len(al))]
            if any(not (abs(g - s) <= tol * max(1.0, abs(s))) for g, s in zip(flat_g, flat_s)):
                add("vectorised and scalar reference implementations disagree", det, tags + ["fastslow"])
                bad = True
                break
            if si == len(case["hist"]) - 1:
                exp = [expected_value(e, ainv) for e in case["expected"]]
                for s in range(2):
                    for i, e in enumerate(exp):
                        g = got[s][0][i][0]
                        if not (abs(g - float(e)) <= tol * max(1.0, abs(float(e)))):
                            det2 = dict(det, expected=[float(x) for x in exp], syst=s, index=i)
                            add(f"code {CODEKEY[code]} value differs from its published piecewise formula", det2, tags + ["value", f"kind:{case['expected'][i]['kind']}"])
                            bad = True
                            break
                    if bad:
                        break
                # floating-point neighbours of the breakpoints: continuity means neighbours stay close
                if not bad:
                    pts = []
                    for s0 in (-a0, 0.0, a0):
                        pts += [math.nextafter(s0, -math.inf), s0, math.nextafter(s0, math.inf)]
                    pts += [-0.0, 5e-324, -5e-324]
                    if precision == "32b":
                        pts = [-a0 * (1 + 1.2e-7), -a0, -a0 * (1 - 1.2e-7), -1e-38, 0.0, 1e-38, a0 * (1 - 1.2e-7), a0, a0 * (1 + 1.2e-7), -0.0]
                    try:
                        res = tl.tolist(get(CODEKEY[code])(hset, **kw)(tl.astensor([pts, [-p for p in pts]])))
                    except Exception as e:  # noqa: BLE001
                        add(f"evaluation at breakpoint neighbours failed: {type(e).__name__}: {e}", det, tags)
                        bad = True
                    else:
                        vals = [res[0][0][i][0] for i in range(len(pts))]
                        mirror = [res[1][0][i][0] for i in range(len(pts))]
                        ctol = 1e-9 if precision == "64b" else 1e-4
                        groups = [(0, 1, 2), (3, 4, 5), (6, 7, 8)] if precision == "64b" else [(0, 1, 2), (3, 4, 5), (6, 7, 8)]
                        for gI in groups:
                            mid = vals[gI[1]]
                            for j in gI:
                                if not (abs(vals[j] - mid) <= ctol * max(1.0, abs(mid))) or not (abs(mirror[j] - mid) <= ctol * max(1.0, abs(mid))):
                                    add(f"code {CODEKEY[code]} is not continuous at a breakpoint (floating-point neighbours jump)",
                                        dict(det, points=pts, values=vals, mirror=mirror), tags + ["seam"])
                                    bad = True
                                    break
                            if bad:
                                break
            if bad:
                break
        if len(case["hist"]) >= 2:
            out["nontrivial"] += 1
    return out
