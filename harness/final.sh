#!/bin/sh
# end-of-round routine: every quick check on /repo itself (evidence rewritten), the extra specification, schema validation, manifest
cd /verif || exit 2
rm -rf replays
fail=0
for id in C01 C02 C03 C04 C05 C06 C07 C08 C09 C10 C11 C12 C13 C14 C15 C16 C17 C18 C19 C20; do
  ./vf check $id --tier quick > .work/final_$id.log 2>&1; rc=$?
  echo "$id rc=$rc $(grep -E '^(OK|VIOLATION|MACHINERY)' .work/final_$id.log | head -1 | cut -c1-160)"
  [ $rc -ne 0 ] && fail=1
done
./vf extra tensor > .work/final_tensor.log 2>&1; echo "tensor rc=$? $(grep -E '^(OK|VIOLATION|MACHINERY)' .work/final_tensor.log | head -1 | cut -c1-120)"
/venv/bin/python harness/mkmanifest.py
/venv/bin/python - <<'PY'
import json, glob, jsonschema
sch = json.load(open('/root/.vp/EVIDENCE.schema.json'))
for f in sorted(glob.glob('/verif/evidence/*.json')):
    jsonschema.validate(json.load(open(f)), sch)
print("evidence files valid:", len(glob.glob('/verif/evidence/*.json')))
PY
exit $fail
