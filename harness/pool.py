"""Process pool for replays: each worker imports pyhf once from the tree under test, selects its
backend, and replays chunks of cases."""
from __future__ import annotations

import json
import multiprocessing as mp
import os
import random
import sys
import traceback

_STATE = {}


def _init(backend, precision, harness_dir, src, env=None):
    os.environ.update(env or {})
    sys.path.insert(0, harness_dir)
    sys.path.insert(0, src)
    os.environ.setdefault("CUDA_VISIBLE_DEVICES", "")
    os.environ.setdefault("TF_CPP_MIN_LOG_LEVEL", "3")
    os.environ.setdefault("OMP_NUM_THREADS", "1")
    os.environ.setdefault("JAX_PLATFORMS", "cpu")
    import logging
    import warnings
    warnings.filterwarnings("ignore")
    logging.disable(logging.CRITICAL)
    import pyhf
    assert os.path.realpath(pyhf.__file__).startswith(os.path.realpath(src)), (pyhf.__file__, src)
    pyhf.set_backend(backend, precision=precision)
    _STATE["pyhf"] = pyhf
    _STATE["backend"] = backend
    _STATE["precision"] = precision


def _run_chunk(args):
    modname, funcname, chunk, kwargs = args
    try:
        mod = __import__(modname)
        return getattr(mod, funcname)(_STATE["pyhf"], _STATE["backend"], _STATE["precision"], chunk, **kwargs)
    except Exception:
        return {"machinery": traceback.format_exc()}


def run_chunks(modname, funcname, chunks, *, backend="numpy", precision="64b", procs=16, kwargs=None, env=None):
    from common import pyhf_src
    ctx = mp.get_context("spawn")
    harness_dir = os.path.dirname(os.path.abspath(__file__))
    with ctx.Pool(min(procs, max(1, len(chunks))), initializer=_init,
                  initargs=(backend, precision, harness_dir, pyhf_src(), env)) as pool:
        for res in pool.imap_unordered(_run_chunk, [(modname, funcname, c, kwargs or {}) for c in chunks]):
            yield res
