"""Run the repository's pinned test command (guard OFF) and compare with /root/.vp/BASELINE.json stable_pass.
usage: baseline.py [repo_dir]   (PYTHONPATH is set to <repo_dir>/src so scratch worktrees can be checked too)"""
import json, os, subprocess, sys, tempfile, xml.etree.ElementTree as ET
repo = sys.argv[1] if len(sys.argv) > 1 else "/repo"
base = json.load(open("/root/.vp/BASELINE.json"))
want = set(base["stable_pass"])
with tempfile.TemporaryDirectory() as td:
    x = os.path.join(td, "j.xml")
    env = dict(os.environ); env.pop("PYHF_VERIF", None); env["PYTHONPATH"] = os.path.join(repo, "src")
    # BASELINE_XDIST=N: quick confirmation of scratch worktrees (pytest-xdist); anything missing under xdist is
    # re-run serially below before it is reported, so parallel-only artefacts cannot produce a wrong verdict.
    nx = os.environ.get("BASELINE_XDIST")
    p = subprocess.run(["/venv/bin/python", "-m", "pytest", "-ra", "-q", "-p", "no:cacheprovider", "--timeout=900",
                        "--continue-on-collection-errors", f"--junitxml={x}"] + (["-n", nx] if nx else []), cwd=repo, env=env,
                       stdout=subprocess.PIPE, stderr=subprocess.STDOUT, text=True)
    passed = set()
    for tc in ET.parse(x).getroot().iter("testcase"):
        if not any(ch.tag in ("failure", "error", "skipped") for ch in tc):
            passed.add(f"{tc.get('classname')}::{tc.get('name')}")
missing = sorted(want - passed)
if missing and nx:
    ids = []
    for m in missing:
        cls, name = m.split("::", 1)
        ids.append(cls.replace(".", "/") + ".py::" + name)
    with tempfile.TemporaryDirectory() as td:
        x = os.path.join(td, "j.xml")
        # tests/test_cli.py first: the in-process script tests only pass once it has imported click_completion (as in the pinned order)
        subprocess.run(["/venv/bin/python", "-m", "pytest", "-q", "-p", "no:cacheprovider", "--timeout=900", "--continue-on-collection-errors",
                        f"--junitxml={x}", "tests/test_cli.py"] + ids, cwd=repo, env=env, stdout=subprocess.PIPE, stderr=subprocess.STDOUT)
        for tc in ET.parse(x).getroot().iter("testcase"):
            if not any(ch.tag in ("failure", "error", "skipped") for ch in tc):
                passed.add(f"{tc.get('classname')}::{tc.get('name')}")
    print(f"(xdist run missed {len(missing)}; re-ran them serially)")
    missing = sorted(want - passed)
print(p.stdout.strip().splitlines()[-1])
print(f"baseline stable_pass: {len(want)}  passed now: {len(passed)}  missing: {len(missing)}")
for m in missing[:40]:
    print("  MISSING", m)
sys.exit(1 if missing else 0)
