"""Run the repository's pinned test command (guard OFF) and compare with /root/.vp/BASELINE.json stable_pass.
usage: baseline.py [repo_dir]   (PYTHONPATH is set to <repo_dir>/src so scratch worktrees can be checked too)"""
import json, os, subprocess, sys, tempfile, xml.etree.ElementTree as ET
repo = sys.argv[1] if len(sys.argv) > 1 else "/repo"
base = json.load(open("/root/.vp/BASELINE.json"))
want = set(base["stable_pass"])
with tempfile.TemporaryDirectory() as td:
    x = os.path.join(td, "j.xml")
    env = dict(os.environ); env.pop("PYHF_VERIF", None); env["PYTHONPATH"] = os.path.join(repo, "src")
    p = subprocess.run(["/venv/bin/python", "-m", "pytest", "-ra", "-q", "-p", "no:cacheprovider", "--timeout=900",
                        "--continue-on-collection-errors", f"--junitxml={x}"], cwd=repo, env=env,
                       stdout=subprocess.PIPE, stderr=subprocess.STDOUT, text=True)
    passed = set()
    for tc in ET.parse(x).getroot().iter("testcase"):
        if not any(ch.tag in ("failure", "error", "skipped") for ch in tc):
            passed.add(f"{tc.get('classname')}::{tc.get('name')}")
missing = sorted(want - passed)
print(p.stdout.strip().splitlines()[-1])
print(f"baseline stable_pass: {len(want)}  passed now: {len(passed)}  missing: {len(missing)}")
for m in missing[:40]:
    print("  MISSING", m)
sys.exit(1 if missing else 0)
