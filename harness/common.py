"""Shared plumbing of the /verif machinery: paths, seeds, evidence, verdicts.

Exit codes of every check:
  0  property held on everything explored (KNOWN-FINDING / MODEL-DRIFT lines allowed)
  1  VIOLATION property=<id> replay=<path>   (a violation not listed in known_findings.json)
  2  machinery failure (TLC error, vacuous coverage, broken import, overflow ...) -- never a verdict
"""
from __future__ import annotations

import hashlib
import json
import os
import sys
import time
from fractions import Fraction
from pathlib import Path

VERIF = Path(__file__).resolve().parent.parent
SPEC = VERIF / "spec"
WORK = VERIF / ".work"
EVID = VERIF / "evidence"
REPLAYS = VERIF / "replays"
KNOWN = VERIF / "known_findings.json"
REPO = Path(os.environ.get("PYHF_REPO", "/repo"))
PY = "/venv/bin/python"


def pyhf_src() -> str:
    """Directory put first on sys.path so that `import pyhf` sees the tree under test.

    Default: /repo/src (the current working tree; also what the editable install points at).
    PYHF_SRC overrides for self-tests against mutated copies.
    """
    return os.environ.get("PYHF_SRC", str(REPO / "src"))


def use_pyhf_src():
    src = pyhf_src()
    if sys.path[0] != src:
        sys.path.insert(0, src)


def seed() -> int:
    try:
        return int(os.environ.get("VERIF_SEED", "0"))
    except ValueError:
        return 0


def workdir(tag: str) -> Path:
    d = WORK / f"{tag}.{os.getpid()}"
    d.mkdir(parents=True, exist_ok=True)
    return d


def frac(x) -> Fraction:
    """[n, d] (TLC rational) -> Fraction"""
    return Fraction(int(x[0]), int(x[1]))


def sha(*parts) -> str:
    h = hashlib.sha256()
    for p in parts:
        h.update(p if isinstance(p, bytes) else str(p).encode())
        h.update(b"\0")
    return h.hexdigest()[:16]


class Machinery(Exception):
    """Something in the verification machinery itself failed (exit 2)."""


def load_known():
    if KNOWN.exists():
        return json.loads(KNOWN.read_text())
    return {"findings": [], "fixed": []}


class Verdict:
    """Collects what one check run saw and turns it into stdout lines, evidence and exit code."""

    def __init__(self, prop: str, tier: str, level: str, extra: bool = False):
        self.prop, self.tier, self.level = prop, tier, level
        # extra: a check of the specification beyond the listed properties; its evidence goes to extras/evidence
        self.evid = (VERIF / "extras" / "evidence") if extra else EVID
        self.t0 = time.time()
        self.violations = []  # (key, detail dict)
        self.known_hits = {}  # finding id -> count
        self.drift = []
        self.coverage = {}
        self.assumptions = []
        self.samples = []
        self.known = [f for f in load_known().get("findings", []) if f.get("property") == prop]

    # -- reporting -----------------------------------------------------------------------
    def violation(self, key: str, detail: dict, tags=()):
        """key: short stable description; tags: strings a known finding may match on."""
        for f in self.known:
            m = f.get("match", {})
            if all(t in tags for t in m.get("all_tags", ["\0never"])):
                self.known_hits[f["id"]] = self.known_hits.get(f["id"], 0) + 1
                return
        self.violations.append((key, detail))

    def model_drift(self, module: str, detail: str):
        if len(self.drift) < 50:
            self.drift.append((module, detail))

    def sample(self, obj, cap=4):
        if len(self.samples) < cap:
            self.samples.append(obj)

    def finish(self) -> int:
        wall = time.time() - self.t0
        for m, d in self.drift[:10]:
            print(f"MODEL-DRIFT module={m} detail={d}")
        for f in self.known:
            if f["id"] in self.known_hits:
                print(f"KNOWN-FINDING: property={self.prop} {f['what']} [{f['id']}, {self.known_hits[f['id']]} cases]")
        replay_paths = []
        for key, detail in self.violations[:20]:
            d = REPLAYS / self.prop
            d.mkdir(parents=True, exist_ok=True)
            p = d / (sha(key, json.dumps(detail, sort_keys=True, default=str)) + ".json")
            p.write_text(json.dumps({"property": self.prop, "key": key, "detail": detail}, indent=1, default=str))
            replay_paths.append(p)
            print(f"VIOLATION property={self.prop} replay={p}")
            print(f"  what: {key}")
        cov = dict(self.coverage)
        cov.setdefault("samples", self.samples or [{"note": "no sample recorded"}])
        cov["model_drift"] = len(self.drift)
        cov["known_finding_hits"] = self.known_hits
        ev = {
            "property_id": self.prop,
            "tier": self.tier,
            "seed": seed(),
            "level": self.level,
            "coverage": cov,
            "assumptions": self.assumptions,
            "wall_s": round(wall, 2),
            "violations": len(self.violations),
        }
        self.evid.mkdir(parents=True, exist_ok=True)
        (self.evid / f"{self.prop}.json").write_text(json.dumps(ev, indent=1, default=str))
        if self.violations:
            return 1
        print(f"OK property={self.prop} tier={self.tier} wall={wall:.1f}s " +
              " ".join(f"{k}={v}" for k, v in cov.items() if isinstance(v, (int, float, bool))))
        return 0
