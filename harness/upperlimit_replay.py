"""Worker side of the C09 replay.

(1) TLC's abstract CLs curves (MC_UpperLimit.tla) are served by a stub that replaces ``hypotest`` *as seen by*
    ``pyhf.infer.intervals.upper_limits`` (module attribute); the REAL ``upper_limit`` / ``toms748_scan`` /
    ``linear_grid_scan`` / deprecated ``pyhf.infer.intervals.upperlimit`` run on it and are compared with the exact
    crossings the specification computed.  ``toms748_scan`` and ``linear_grid_scan`` are additionally wrapped by
    recording observers (they are looked up by ``upper_limit`` in the module namespace), so the level that actually
    reaches the scan is observed, not inferred.
(2) ``{"mode": "real", ...}`` cases: real scans on a real model; ``hypotest`` at each returned limit must give
    CLs = level.

Violations are reported against the definition only: limits solve CLs = level (toms: root-finder tolerance; grid:
inside the crossing cell), band order, level used = level passed, per-point results.  np.interp-exactness,
final bracket, forwarding of hypotest options: model drift.
"""
import inspect
import json
import warnings
from fractions import Fraction

from common import frac

DEFAULT_RTOL = 1e-4       # toms748_scan's default
ATOL = 2e-12
CELL_EPS = 1e-12
REAL_RTOL = 1e-3          # CLs(limit) = level on real models


class Curves:
    """F_k(mu) = G(mu / c_k), exact rational evaluation at the float mu the code asks for"""

    def __init__(self, case):
        self.kx = [frac(x) for x in case["kx"]]
        self.ky = [frac(y) for y in case["ky"]]
        self.c = [frac(c) for c in case["scales"]]

    def g(self, x):
        kx, ky = self.kx, self.ky
        if x >= kx[-1]:
            return ky[-1]
        for j in range(len(kx) - 1):
            if kx[j] <= x < kx[j + 1]:
                return ky[j] + (ky[j + 1] - ky[j]) * (x - kx[j]) / (kx[j + 1] - kx[j])
        raise ValueError(f"curve evaluated at negative mu {x}")

    def all(self, mu):
        m = Fraction(mu)
        return [float(self.g(m / c)) for c in self.c]


class Stub:
    """stands in for hypotest inside upper_limits.py: returns (CLs_obs, [5 expected CLs]) as backend tensors"""

    def __init__(self, pyhf, curves):
        self.pyhf, self.curves, self.calls = pyhf, curves, []

    def __call__(self, poi_test, data, pdf, *args, **kwargs):
        import numpy as np
        tb = self.pyhf.tensorlib
        mu = float(poi_test)
        vals = self.curves.all(mu)
        self.calls.append((mu, dict(kwargs), len(args)))
        t = [tb.astensor(np.asarray(v, dtype=np.float64)) for v in vals]
        return t[0], t[1:]


class Patched:
    """hypotest stub (optional) + recording observers on the two scan functions of upper_limits.py"""

    def __init__(self, UL, stub=None):
        self.UL, self.stub, self.seen = UL, stub, []

    def _wrap(self, name, orig):
        sig = inspect.signature(orig)
        seen = self.seen

        def observer(*a, **k):
            try:
                ba = sig.bind(*a, **k)
                ba.apply_defaults()
                lv = ba.arguments.get("level")
                seen.append((name, None if lv is None else float(lv)))
            except TypeError:
                seen.append((name, None))
            return orig(*a, **k)
        observer.__wrapped__ = orig
        return observer

    def __enter__(self):
        UL = self.UL
        self.old = {n: getattr(UL, n) for n in ("hypotest", "toms748_scan", "linear_grid_scan")}
        if self.stub is not None:
            UL.hypotest = self.stub
        UL.toms748_scan = self._wrap("toms748_scan", self.old["toms748_scan"])
        UL.linear_grid_scan = self._wrap("linear_grid_scan", self.old["linear_grid_scan"])
        return self

    def __exit__(self, *a):
        for n, f in self.old.items():
            setattr(self.UL, n, f)
        return False


_MODELS = {}     # per worker process: one model object per POI range, reused across cases (history on the same object)


def make_model(pyhf, lo, hi):
    if (lo, hi) in _MODELS:
        return _MODELS[(lo, hi)]
    spec = {"channels": [{"name": "c", "samples": [
        {"name": "s", "data": [5.0], "modifiers": [{"name": "mu", "type": "normfactor", "data": None}]},
        {"name": "b", "data": [50.0], "modifiers": [{"name": "unc", "type": "shapesys", "data": [7.0]}]}]}],
        "parameters": [{"name": "mu", "bounds": [[lo, hi]], "inits": [(lo + hi) / 2.0]}]}
    m = pyhf.Model(spec, poi_name="mu")
    b = m.config.suggested_bounds()[m.config.par_slice("mu").start]
    if [float(b[0]), float(b[1])] != [lo, hi]:
        raise RuntimeError(f"could not set the POI bounds of the replay model: {b} != {[lo, hi]}")
    _MODELS[(lo, hi)] = m
    return m


def _fl(tb, x):
    v = tb.tolist(x)
    while isinstance(v, list):
        if len(v) != 1:
            raise ValueError(f"expected a scalar, got {v}")
        v = v[0]
    return float(v)


def replay(pyhf, backend, precision, chunk, seed):
    import numpy as np
    tb = pyhf.tensorlib
    UL = pyhf.infer.intervals.upper_limits
    IV = pyhf.infer.intervals
    out = {"n": 0, "nontrivial": 0, "findings": [], "drift": [], "calls": 0, "stub_evals": 0, "toms_calls": 0, "grid_calls": 0,
           "real_scans": 0, "real_hypotests": 0, "edge": {}, "maxrel_toms": 0.0, "maxrel_real": 0.0, "limits_compared": 0,
           "nondefault_level_toms": 0, "real_discarded_nan_at_mu0": 0, "extended_lo": 0, "extended_hi": 0, "unbracketed_curves": 0, "results_checked": 0}
    models = {}

    def add(key, detail, tags):
        if len(out["findings"]) < 60:
            out["findings"].append(("C09", key, detail, list(tags)))
        else:
            out["more"] = out.get("more", 0) + 1

    def drift(detail):
        if len(out["drift"]) < 10:
            out["drift"].append(("UpperLimit", detail))

    def level_tags(level, seen, scan_name):
        """observed level inside the scan vs level passed"""
        got = [lv for (n, lv) in seen if n == scan_name]
        if got and got[-1] is not None and got[-1] != level:
            return ["level_not_forwarded"], got[-1]
        return [], (got[-1] if got else None)

    def check_band(exp, ctx, tags):
        if any(not (exp[i] <= exp[i + 1] * (1 + 1e-12) + 1e-15) for i in range(4)):
            add("expected limits are not ordered from -2 sigma to +2 sigma", dict(ctx, expected_limits=exp), tags + ["band_order"])

    def check_results(kind, ret, stub, ctx, tags, scan=None):
        """return_results: (scan points, hypotest results at exactly those points)"""
        try:
            pts, results = ret
            pts = [float(p) for p in pts]
            if len(pts) != len(results):
                raise ValueError("lengths differ")
            for p, r in zip(pts, results):
                want = stub.curves.all(p)
                got = [_fl(tb, r[0])] + [_fl(tb, x) for x in r[1]]
                if got != want:
                    add("per-point results returned are not the hypothesis-test results at the reported scan points",
                        dict(ctx, point=p, returned=got, hypotest=want), tags + ["return_results"])
                    return
            if scan is not None and pts != [float(s) for s in scan]:
                add("scan points returned differ from the scan given", dict(ctx, returned=pts), tags + ["return_results"])
            evaluated = sorted({c[0] for c in stub.calls})
            if kind == "toms" and sorted(pts) != evaluated:
                drift(f"toms748 mode returned {len(pts)} scan points but evaluated {len(evaluated)}")
            out["results_checked"] += 1
        except Exception as e:  # noqa: BLE001
            add(f"return_results structure unusable: {type(e).__name__}: {e}", ctx, tags + ["return_results"])

    def opts_forwarded(stub, ctx):
        bad = [c for c in stub.calls if c[1].get("test_stat") != "q" or c[1].get("return_expected_set") is not True]
        if bad:
            drift(f"hypotest options not forwarded to every hypotest call ({len(bad)}/{len(stub.calls)}): {bad[0][1]} in {ctx['entry']}")

    # ---------------------------------------------------------------------------------- (1) stubbed curves
    def run_toms(case, curves, entry, ri):
        level = float(frac(case["level"]))
        lo, hi = (float(frac(b)) for b in case["bounds"])
        X = [frac(x) for x in case["crossings"]]
        key = (lo, hi)
        if key not in models:
            models[key] = make_model(pyhf, lo, hi)
        model = models[key]
        data = tb.astensor(np.asarray([53.0] + list(model.config.auxdata), dtype=np.float64))
        stub = Stub(pyhf, curves)
        # a crossing exactly ON the (extended) bounds is on the edge of the scanned range, not inside it: whether the tie
        # is attributed to the bracket's closed or open end (`>=`/`<` in best_bracket) is not the property's business --
        # such runs are compared when they return, and only counted when they raise
        fb = [frac(b) for b in case["finalBounds"]]
        on_edge = bool(case["edge"]) or any(x in fb for x in X)
        use_rtol = None if ri % 2 == 0 else 1e-5          # default root-finder tolerance / a forwarded one
        rtol = DEFAULT_RTOL if use_rtol is None else use_rtol
        kw = {"test_stat": "q"}
        if use_rtol is not None:
            kw["rtol"] = use_rtol
        want_results = entry != "toms748_scan" and ri % 3 == 0
        tags = [f"entry:{entry}", "mode:toms748", "level:default" if case["levelIsDefault"] else "level:nondefault"]
        ctx = {"entry": entry, "level": level, "bounds": [lo, hi], "rtol": rtol, "curves": {k: case[k] for k in ("kx", "ky", "scales")},
               "exact_crossings": [str(x) for x in X]}
        with Patched(UL, stub) as P, warnings.catch_warnings():
            warnings.simplefilter("ignore")
            try:
                if entry == "upper_limit":
                    ret = UL.upper_limit(data, model, scan=None, level=level, return_results=want_results, **kw)
                elif entry == "upperlimit":
                    ret = IV.upperlimit(data, model, scan=None, level=level, return_results=want_results, **kw)
                else:
                    ret = UL.toms748_scan(data, model, lo, hi, level=level, **kw)
            except Exception as e:  # noqa: BLE001
                ltags, level_seen = level_tags(level, list(P.seen), "toms748_scan")
                if on_edge and not ltags:
                    o = f"{type(e).__name__}"
                    out["edge"][o] = out["edge"].get(o, 0) + 1
                    return
                what = f"{entry}(scan=None, level={level:g}) failed: {type(e).__name__}: {e}"
                if ltags:
                    what += f" -- the scan received level={level_seen:g}, the caller passed {level:g}"
                add(what, dict(ctx, level_received_by_scan=level_seen), tags + ltags + ["evalfail"])
                return
            seen = list(P.seen)
        out["toms_calls"] += 1
        out["stub_evals"] += len(stub.calls)
        if not stub.calls:
            if out["stub_evals"] > 0:
                # the binding demonstrably works (earlier scans of this worker evaluated their points): this scan answered without
                # evaluating a single hypothesis test for the curves it was given - it was served from what an earlier call left behind
                add(f"{entry}(scan=None, level={level:g}) returned without evaluating any scan point for this request (result taken from an earlier call on the same model)",
                    ctx, tags + ["stale"])
                return
            raise RuntimeError("binding broken: upper_limits.hypotest stub was never called by the automatic scan")
        if case["edge"]:
            out["edge"]["returned"] = out["edge"].get("returned", 0) + 1
            return
        if on_edge:
            out["edge"]["returned_lower"] = out["edge"].get("returned_lower", 0) + 1
        obs, exp = _fl(tb, ret[0]), [_fl(tb, x) for x in ret[1]]
        if len(exp) != 5:
            add("automatic scan did not return five expected limits", dict(ctx, returned=exp), tags + ["layout"])
            return
        ltags, level_seen = level_tags(level, seen, "toms748_scan")
        ctx = dict(ctx, observed_limit=obs, expected_limits=exp, level_received_by_scan=level_seen, evaluations=len(stub.calls))
        got = [obs] + exp
        bad = []
        for k in range(6):
            x = float(X[k])
            dev = abs(got[k] - x)
            out["limits_compared"] += 1
            if dev <= 1.5 * rtol * x + 2 * ATOL + 1e-13:
                out["maxrel_toms"] = max(out["maxrel_toms"], dev / x / rtol)
            else:
                bad.append(k)
        if bad:
            k = bad[0]
            cls_at = curves.all(got[k])[k]
            what = (f"{entry}(scan=None, level={level:g}): limit of curve {k} = {got[k]:.6g} where CLs = {cls_at:.4g}, "
                    f"not the crossing {float(X[k]):.6g} of CLs = {level:g}")
            if ltags:
                what += f" -- the scan received level={level_seen:g}, the caller passed {level:g}"
            add(what, dict(ctx, curves_off=bad, cls_at_returned_limit=cls_at), tags + ltags + ["limit_value"] + [f"curve:{k}"])
        elif ltags:
            add(f"{entry}: scan received level={level_seen:g}, the caller passed {level:g}", ctx, tags + ltags)
        else:
            check_band(exp, ctx, tags)
            if not case["levelIsDefault"]:
                out["nondefault_level_toms"] += 1
        if want_results and len(ret) == 3:
            check_results("toms", ret[2], stub, ctx, tags)
        elif want_results:
            add("return_results=True did not return (scan points, results)", ctx, tags + ["return_results"])
        opts_forwarded(stub, ctx)
        # implementation-shaped: extension loops end on the bounds the specification predicts
        flo, fhi = (float(frac(b)) for b in case["finalBounds"])
        out["extended_lo"] += flo != lo
        out["extended_hi"] += fhi != hi
        if not bad and not ltags:
            mus = [c[0] for c in stub.calls]
            if min(mus) != min(flo, lo) or max(mus) < fhi:
                drift(f"bracket extension evaluated [{min(mus)}, {max(mus)}], specification predicts [{flo}, {fhi}] for bounds {lo, hi}")

    def run_grid(case, curves, entry, ri):
        level = float(frac(case["level"]))
        X = [frac(x) for x in case["crossings"]]
        scan_f = [float(frac(s)) for s in case["scan"]]
        scan = np.asarray(scan_f, dtype=np.float64)
        if (0.0, 10.0) not in models:
            models[(0.0, 10.0)] = make_model(pyhf, 0.0, 10.0)
        model = models[(0.0, 10.0)]
        data = tb.astensor(np.asarray([53.0] + list(model.config.auxdata), dtype=np.float64))
        stub = Stub(pyhf, curves)
        want_results = ri % 2 == 0
        tags = [f"entry:{entry}", "mode:grid", "level:default" if case["levelIsDefault"] else "level:nondefault"]
        ctx = {"entry": entry, "level": level, "scan": scan_f, "curves": {k: case[k] for k in ("kx", "ky", "scales")},
               "exact_crossings": [str(x) for x in X]}
        with Patched(UL, stub) as P, warnings.catch_warnings():
            warnings.simplefilter("ignore")
            try:
                if entry == "upper_limit":
                    ret = UL.upper_limit(data, model, scan, level=level, return_results=want_results, test_stat="q")
                elif entry == "upperlimit":
                    ret = IV.upperlimit(data, model, scan, level=level, return_results=want_results, test_stat="q")
                else:
                    ret = UL.linear_grid_scan(data, model, scan, level=level, return_results=want_results, test_stat="q")
            except Exception as e:  # noqa: BLE001
                add(f"{entry} (grid scan) failed: {type(e).__name__}: {e}", ctx, tags + ["evalfail"])
                return
            seen = list(P.seen)
        out["grid_calls"] += 1
        out["stub_evals"] += len(stub.calls)
        if not stub.calls:
            raise RuntimeError("binding broken: upper_limits.hypotest stub was never called by the grid scan")
        obs, exp = _fl(tb, ret[0]), [_fl(tb, x) for x in ret[1]]
        if len(exp) != 5:
            add("grid scan did not return five expected limits", dict(ctx, returned=exp), tags + ["layout"])
            return
        ltags, level_seen = level_tags(level, seen, "linear_grid_scan")
        got = [obs] + exp
        ctx = dict(ctx, observed_limit=obs, expected_limits=exp, level_received_by_scan=level_seen)
        okall = True
        for k in range(6):
            g = case["grid"][k]
            if not g["bracketed"]:
                out["unbracketed_curves"] += 1
                continue
            clo, chi = float(frac(g["cellLo"])), float(frac(g["cellHi"]))
            out["limits_compared"] += 1
            if not (clo - CELL_EPS * max(1.0, clo) <= got[k] <= chi + CELL_EPS * max(1.0, chi)):
                add(f"{entry}(scan, level={level:g}): limit of curve {k} = {got[k]:.6g} lies outside the grid cell [{clo:g}, {chi:g}] "
                    f"in which the curve crosses CLs = {level:g} (exact crossing {float(X[k]):.6g})",
                    dict(ctx, curve=k, cell=[clo, chi]), tags + ltags + ["limit_value", "outside_cell", f"curve:{k}"])
                okall = False
                break
            lin = float(frac(g["lin"]))
            if abs(got[k] - lin) > 1e-10 * max(1.0, abs(lin)):
                drift(f"grid limit {got[k]!r} is inside the crossing cell but not the linear interpolation {lin!r} (curve {k}, scan {scan_f}, level {level})")
        if okall and ltags:
            add(f"{entry}: scan received level={level_seen:g}, the caller passed {level:g}", ctx, tags + ltags)
        elif okall and all(g["bracketed"] for g in case["grid"]):
            check_band(exp, ctx, tags)
        if want_results and len(ret) == 3:
            check_results("grid", ret[2], stub, ctx, tags, scan=scan_f)
        elif want_results:
            add("return_results=True did not return (scan, results)", ctx, tags + ["return_results"])
        if [c[0] for c in stub.calls] != scan_f:
            drift(f"grid scan evaluated {[c[0] for c in stub.calls]} for scan {scan_f}")
        opts_forwarded(stub, ctx)

    # ---------------------------------------------------------------------------------- (2) real scans
    def run_real(case):
        level = case["level"]
        model = pyhf.simplemodels.uncorrelated_background(signal=case["signal"], bkg=case["bkg"], bkg_uncertainty=case["unc"])
        data = tb.astensor(np.asarray(case["obs"] + list(model.config.auxdata), dtype=np.float64))
        entry = case["entry"]
        tags = [f"entry:{entry}", f"mode:{case['scan_mode']}", "real_model", "level:default" if level == 0.05 else "level:nondefault"]
        ctx = {"case": case}
        with Patched(UL, None) as P, warnings.catch_warnings():
            warnings.simplefilter("ignore")
            try:
                if case["scan_mode"] == "toms748":
                    if entry == "upper_limit":
                        ret = UL.upper_limit(data, model, level=level, rtol=1e-5)
                    elif entry == "upperlimit":
                        ret = IV.upperlimit(data, model, level=level, rtol=1e-5)
                    else:
                        ret = UL.toms748_scan(data, model, 0.0, 10.0, level=level, rtol=1e-5)
                else:
                    scan = np.linspace(case["grid"][0], case["grid"][1], case["grid"][2])
                    ret = UL.upper_limit(data, model, scan, level=level, return_results=True)
            except Exception as e:  # noqa: BLE001
                # ill-conditioned instance (DESIGN 3.5: discarded and counted, never reported): the CLs curve itself is not
                # defined at the lower POI bound -- hypotest(0) is NaN when q_A = 0 exactly and q is optimiser noise > 0
                # (division by sqrt(q_A) in the qtilde transform); that is a defect of hypotest, not of the scan
                try:
                    r0 = pyhf.infer.hypotest(0.0, data, model, return_expected_set=True)
                    nan0 = any(x != x for x in [_fl(tb, r0[0])] + [_fl(tb, y) for y in r0[1]])
                except Exception:  # noqa: BLE001
                    nan0 = True
                if nan0:
                    out["real_discarded_nan_at_mu0"] += 1
                    return
                add(f"{entry} on a real model failed: {type(e).__name__}: {e}", ctx, tags + ["evalfail"])
                return
            seen = list(P.seen)
        out["real_scans"] += 1
        obs, exp = _fl(tb, ret[0]), [_fl(tb, x) for x in ret[1]]
        got = [obs] + exp
        ctx = dict(ctx, observed_limit=obs, expected_limits=exp)
        if case["scan_mode"] == "toms748":
            ltags, level_seen = level_tags(level, seen, "toms748_scan")
            ctx["level_received_by_scan"] = level_seen
            for k in range(6):
                r = pyhf.infer.hypotest(got[k], data, model, return_expected_set=True)
                out["real_hypotests"] += 1
                cls = _fl(tb, r[0]) if k == 0 else _fl(tb, r[1][k - 1])
                rel = abs(cls - level) / level
                if rel > REAL_RTOL:
                    what = f"{entry}(level={level:g}) on a real model: CLs at the returned limit of curve {k} (mu = {got[k]:.6g}) is {cls:.5g}, not {level:g}"
                    if ltags:
                        what += f" -- the scan received level={level_seen:g}"
                    add(what, dict(ctx, curve=k, cls_at_limit=cls), tags + ltags + ["limit_value", f"curve:{k}"])
                    return
                out["maxrel_real"] = max(out["maxrel_real"], rel)
                out["limits_compared"] += 1
            check_band(exp, ctx, tags)
        else:
            scan_r, results = ret[2]
            scan_r = [float(s) for s in scan_r]
            for k in range(6):
                col = [(_fl(tb, r[0]) if k == 0 else _fl(tb, r[1][k - 1])) for r in results]
                if not (col[0] >= level >= col[-1]):
                    continue
                i = max(j for j in range(len(col)) if col[j] >= level)
                hi_i = min(i + 1, len(col) - 1)
                out["limits_compared"] += 1
                if not (scan_r[i] - 1e-12 <= got[k] <= scan_r[hi_i] + 1e-12):
                    add(f"grid scan on a real model: limit of curve {k} = {got[k]:.6g} outside the crossing cell [{scan_r[i]:g}, {scan_r[hi_i]:g}]",
                        dict(ctx, curve=k, column=col), tags + ["limit_value", "outside_cell", f"curve:{k}"])
                    return
            # per-point results are hypotest at the scan points
            j = len(scan_r) // 2
            r = pyhf.infer.hypotest(scan_r[j], data, model, return_expected_set=True)
            out["real_hypotests"] += 1
            if abs(_fl(tb, r[0]) - _fl(tb, results[j][0])) > 1e-6:
                add("per-point results returned are not the hypothesis-test results at the reported scan points", dict(ctx, point=scan_r[j]),
                    tags + ["return_results"])
            check_band(exp, ctx, tags)

    for ri, line in enumerate(chunk):
        case = json.loads(line)
        out["n"] += 1
        if case["mode"] == "real":
            out["nontrivial"] += 1
            run_real(case)
            continue
        curves = Curves(case)
        if not case["levelIsDefault"] or case.get("finalBounds") != case.get("bounds"):
            out["nontrivial"] += 1
        if case["mode"] == "toms":
            for e_i, entry in enumerate(("upper_limit", "upperlimit", "toms748_scan")):
                run_toms(case, curves, entry, ri + e_i)
                out["calls"] += 1
        else:
            for e_i, entry in enumerate(("upper_limit", "upperlimit", "linear_grid_scan")):
                run_grid(case, curves, entry, ri + e_i)
                out["calls"] += 1
    return out
