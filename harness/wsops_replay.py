"""Binding A for WorkspaceOps (C16): replay the behaviours MC_WorkspaceOps prints into the real
pyhf.Workspace.combine / prune / rename / sorted.

One case = (left, right, history of operations); every history entry carries the outcome the
DEFINITION layer assigns (`def`: ok + workspace value, or refuse + exception class) and, where it
differs, the outcome the transcription of workspace.py predicts (`impl`).  The replay builds concrete,
schema-valid JSON workspaces (normfactor / normsys / staterror, 2 bins, non-dyadic numbers), drives the
real API step by step and checks at every step

  * the result (lists normalised by name) or the refusal against the definition   -> VIOLATION
  * the exact listing order / exception class against the transcription           -> MODEL-DRIFT
  * inputs untouched (deep comparison), result shares no mutable object with them, result schema-valid

and, at the last step, the likelihood clauses of the property with the real model:

  combine, disjoint channels   mainlogpdf(out) = mainlogpdf(left) + mainlogpdf(right) with parameters
                               identified by name; constraint_logpdf(out) = one closed-form term per
                               constrained parameter name (= left + right - the shared ones)
  prune                        rates of the remainder = by-sample rates of the original with the pruned
                               modifiers neutral, summed over the kept samples of the kept channels;
                               main log-likelihood = Poisson terms of exactly those rates and observations
  rename                       logpdf unchanged at the relabelled point; inverse renaming restores the input
  sorted                       logpdf unchanged; idempotent; canonical under permutations of every list
"""
from __future__ import annotations

import copy
import json
import math
import random

CH = {1: "SR one", 2: "cr_2", 3: "z3", 9: "zz fresh", 99: "zzz missing"}
SA = {1: "Signal", 2: "bkg", 3: "ttbar", 9: "zfresh", 99: "zzmissing"}
MO = {1: "mu", 2: "nu", 3: "sys", 9: "t_fresh", 11: "u_ns1", 12: "u_ns2", 13: "u_ns3",
      21: "v_stat1", 22: "v_stat2", 23: "v_stat3", 99: "zz_missing"}
ME = {1: "Meas A", 2: "meas_b", 9: "x fresh", 99: "zz missing"}
TY = {1: "histosys", 2: "lumi", 3: "normfactor", 4: "normsys", 7: "staterror"}
for _pool in (CH, SA, MO, ME, TY):     # numeric order of the specification == Python string order
    _ks = sorted(_pool)
    assert [_pool[k] for k in _ks] == sorted(_pool[k] for k in _ks), _pool
MO_INV = {v: k for k, v in MO.items()}
KIND_POOL = {"channels": CH, "samples": SA, "modifiers": MO, "measurements": ME, "modifier_types": TY}
NEUTRAL = {"normfactor": 1.0, "normsys": 0.0, "staterror": 1.0}
LOG2PI = math.log(2.0 * math.pi)


# ------------------------------------------------------------------ concretisation of TLA+ values
def sample_data(d):
    return [20.0 + d / 10.0, 50.3 - d / 20.0]


def mod_data(t, d):
    if t == "normfactor":
        return None
    if t == "normsys":
        return {"hi": 1.02 + (d % 100) * 0.001 + (d // 100) * 0.03, "lo": 0.97 - (d % 100) * 0.001 - (d // 100) * 0.02}
    if t == "staterror":
        return [1.0 + d / 200.0, 2.0 + d / 300.0]
    if t == "histosys":
        return {"hi_data": [22.0 + d / 10.0, 52.0 - d / 20.0], "lo_data": [19.0 + d / 10.0, 49.5 - d / 20.0]}
    raise ValueError(t)


def obs_data(d):
    return [40.0 + d, 30.0 + 2.0 * d]


def par_cfg(name, v):
    if v == 1:
        return {"name": MO[name], "inits": [0.5], "bounds": [[-4.0, 6.0]], "fixed": False}
    return {"name": MO[name], "inits": [0.25], "bounds": [[-3.0, 7.0]], "fixed": True}


def conc_ws(w):
    return {
        "channels": [{"name": CH[c["name"]],
                      "samples": [{"name": SA[s["name"]], "data": sample_data(s["d"]),
                                   "modifiers": [{"name": MO[m["name"]], "type": TY[m["type"]], "data": mod_data(TY[m["type"]], m["d"])}
                                                 for m in s["mods"]]} for s in c["samples"]]} for c in w["ch"]],
        "observations": [{"name": CH[o["name"]], "data": obs_data(o["d"])} for o in w["obs"]],
        "measurements": [{"name": ME[m["name"]], "config": {"poi": MO[m["poi"]], "parameters": [par_cfg(p["name"], p["v"]) for p in m["pars"]]}}
                         for m in w["meas"]],
        "version": "1.0.0" if w["ver"] == 1 else "1.2.0",
    }


def norm(spec):
    """Order-free normal form of a workspace dict: what 'contains every item, unchanged' compares."""
    s = copy.deepcopy(dict(spec))
    s["channels"] = sorted(s["channels"], key=lambda c: c["name"])
    for c in s["channels"]:
        c["samples"] = sorted(c["samples"], key=lambda x: x["name"])
        for sm in c["samples"]:
            sm["modifiers"] = sorted(sm["modifiers"], key=lambda m: (m["name"], m["type"]))
    s["observations"] = sorted(s["observations"], key=lambda o: o["name"])
    s["measurements"] = sorted(s["measurements"], key=lambda m: m["name"])
    for m in s["measurements"]:
        m["config"]["parameters"] = sorted(m["config"]["parameters"], key=lambda p: p["name"])
    return s


def permuted(spec, how, rng=None):
    def P(lst):
        lst = list(lst)
        if how == "rev":
            return lst[::-1]
        if how == "rot":
            return lst[1:] + lst[:1]
        rng.shuffle(lst)
        return lst
    s = copy.deepcopy(dict(spec))
    s["channels"] = P(s["channels"])
    for c in s["channels"]:
        c["samples"] = P(c["samples"])
        for sm in c["samples"]:
            sm["modifiers"] = P(sm["modifiers"])
    s["observations"] = P(s["observations"])
    s["measurements"] = P(s["measurements"])
    for m in s["measurements"]:
        m["config"]["parameters"] = P(m["config"]["parameters"])
    return s


def mutable_ids(obj, acc=None, top=True):
    """ids of every list / dict reachable from a workspace (the workspace object itself excluded)"""
    acc = set() if acc is None else acc
    if top:
        for v in obj.values():
            mutable_ids(v, acc, False)
        return acc
    if isinstance(obj, dict):
        acc.add(id(obj))
        for v in obj.values():
            mutable_ids(v, acc, False)
    elif isinstance(obj, list):
        acc.add(id(obj))
        for v in obj:
            mutable_ids(v, acc, False)
    return acc


def snapshot(ws):
    return (copy.deepcopy(dict(ws)), ws.version, list(ws.measurement_names), copy.deepcopy(ws.observations),
            list(ws.channels), list(ws.samples), list(ws.modifiers))


# ------------------------------------------------------------------ likelihood side
def mod_types(spec):
    """parameter name -> set of modifier types, from the channels of a workspace dict"""
    out = {}
    for c in spec["channels"]:
        for s in c["samples"]:
            for m in s["modifiers"]:
                out.setdefault(m["name"], set()).add(m["type"])
    return out


def value_of(name_id, typ, comp, p):
    """distinguishable parameter values, a function of the parameter's ORIGINAL identity"""
    if typ == "normfactor":
        return 0.6 + 0.17 * ((name_id * 3 + p * 5) % 11)
    if typ == "normsys":
        return -1.6 + 0.29 * ((name_id * 5 + p * 3) % 12)
    return 0.85 + 0.03 * ((name_id + 2 * comp + p * 3) % 10)      # staterror gammas


def pars_of(pyhf, model, types, p, ident=None, neutral=()):
    """parameter vector assembled BY NAME through the layout the model reports"""
    vec = [0.0] * model.config.npars
    for name in model.config.par_order:
        sl = model.config.par_slice(name)
        typ = sorted(types[name])[0]
        orig = (ident or {}).get(name, name)
        for k, i in enumerate(range(sl.start, sl.stop)):
            vec[i] = NEUTRAL[typ] if name in neutral else value_of(MO_INV[orig], typ, k, p)
    return pyhf.tensorlib.astensor(vec)


def stat_channels(spec):
    out = {}
    for c in spec["channels"]:
        for s in c["samples"]:
            for m in s["modifiers"]:
                if m["type"] == "staterror":
                    out.setdefault(m["name"], set()).add(c["name"])
    return out


def shared_staterror(spec):
    return any(len(v) > 1 for v in stat_channels(spec).values())


def constraint_closed_form(spec, valfn, only=None):
    """sum over constrained parameter NAMES (each once) of its Gaussian constraint term.
    normsys: log N(0 | alpha, 1); staterror: sum_b log N(1 | gamma_b, sigma_b),
    sigma_b = sqrt(sum_s unc_sb^2) / sum_s nom_sb over the samples of the channel carrying it."""
    total = 0.0
    seen = set()
    for c in spec["channels"]:
        for s in c["samples"]:
            for m in s["modifiers"]:
                if m["name"] in seen or (only is not None and m["name"] not in only):
                    continue
                if m["type"] == "normsys":
                    seen.add(m["name"])
                    a = valfn(m["name"], "normsys", 0)
                    total += -0.5 * a * a - 0.5 * LOG2PI
                elif m["type"] == "staterror":
                    seen.add(m["name"])
                    nb = len(s["data"])
                    for b in range(nb):
                        nom = unc2 = 0.0
                        for s2 in c["samples"]:
                            for m2 in s2["modifiers"]:
                                if m2["type"] == "staterror" and m2["name"] == m["name"]:
                                    nom += s2["data"][b]
                                    unc2 += m2["data"][b] ** 2
                        sig = math.sqrt(unc2) / nom
                        g = valfn(m["name"], "staterror", b)
                        total += -0.5 * ((1.0 - g) / sig) ** 2 - math.log(sig) - 0.5 * LOG2PI
    return total


def close(a, b, tol=1e-9):
    return abs(a - b) <= tol * max(1.0, abs(a), abs(b))


class Skip(Exception):
    pass


def build_model(ws, **kw):
    return ws.model(poi_name=None, **kw)


def fl(pyhf, x):
    v = pyhf.tensorlib.tolist(x)
    while isinstance(v, list):
        v = v[0]
    return float(v)


def like_combine(pyhf, pre, right, out, exp_spec, fails):
    tl = pyhf.tensorlib
    try:
        ml, mr = build_model(pre), build_model(right)
    except Exception as e:  # noqa: BLE001
        raise Skip(f"input model does not build: {type(e).__name__}")
    tl_types, tr_types, to_types = mod_types(pre), mod_types(right), mod_types(exp_spec)
    shared_stat = shared_staterror(exp_spec)
    if any(tl_types[n] != tr_types[n] for n in set(tl_types) & set(tr_types)):
        # "parameters identified by name" presupposes that a shared name is the same kind of parameter
        raise Skip("a parameter name is shared with different modifier types")
    for mname in list(out.measurement_names)[:2]:
        try:
            mo = out.model(measurement_name=mname, poi_name=None)
        except Exception as e:  # noqa: BLE001
            if shared_stat:
                raise Skip("staterror name shared between channels of the two workspaces")
            fails.append(("the combined workspace has no model although both inputs have one", {"exception": f"{type(e).__name__}: {e}"[:300]}, ["like:nomodel"]))
            return
        if set(mo.config.par_order) != set(ml.config.par_order) | set(mr.config.par_order):
            fails.append(("parameters of the combined model are not the union by name of the inputs' parameters",
                          {"out": mo.config.par_order, "left": ml.config.par_order, "right": mr.config.par_order}, ["like:parset"]))
            return
        if shared_stat:
            # a staterror NAME carried by channels of both workspaces becomes one parameter set with a component per covered
            # bin of the combination (pyhf semantics): "parameters identified by name" does not determine the component
            # correspondence, so the sum clause is not evaluated (counted as skipped)
            raise Skip("staterror name shared between channels of the two workspaces")
        do, dl, dr = (w.data(m, include_auxdata=False) for w, m in ((out, mo), (pre, ml), (right, mr)))
        for p in range(3):
            po, pl, pr = pars_of(pyhf, mo, to_types, p), pars_of(pyhf, ml, tl_types, p), pars_of(pyhf, mr, tr_types, p)
            main_o = fl(pyhf, mo.mainlogpdf(tl.astensor(do), po))
            main_l = fl(pyhf, ml.mainlogpdf(tl.astensor(dl), pl))
            main_r = fl(pyhf, mr.mainlogpdf(tl.astensor(dr), pr))
            det = {"measurement": mname, "point": p, "main_out": main_o, "main_left": main_l, "main_right": main_r}
            if not close(main_o, main_l + main_r):
                fails.append(("main log-likelihood of the combination is not the sum of the two main log-likelihoods", det, ["like:main"]))
                return
            if shared_stat:
                continue
            cons = {}
            for tag, m, types, pv in (("out", mo, to_types, po), ("left", ml, tl_types, pl), ("right", mr, tr_types, pr)):
                cons[tag] = fl(pyhf, m.constraint_logpdf(tl.astensor(m.config.auxdata), pv)) if m.config.auxdata else 0.0
            valfn = lambda n, t, k: value_of(MO_INV[n], t, k, p)  # noqa: E731
            cf_o = constraint_closed_form(exp_spec, valfn)
            cf_l, cf_r = constraint_closed_form(dict(pre), valfn), constraint_closed_form(dict(right), valfn)
            if not (close(cons["left"], cf_l) and close(cons["right"], cf_r)):
                raise RuntimeError(f"closed-form constraint oracle disagrees with pyhf on an INPUT workspace: {cons} vs {cf_l}, {cf_r}")
            sharedn = set(ml.config.par_order) & set(mr.config.par_order)
            cf_shared = constraint_closed_form(dict(pre), valfn, only=sharedn)
            det.update(constraint=cons, closed_form_out=cf_o, shared=sorted(sharedn), closed_form_shared=cf_shared)
            if not close(cons["out"], cf_o) or not close(cons["out"], cons["left"] + cons["right"] - cf_shared):
                fails.append(("constraint part of the combination does not contain each constrained parameter exactly once", det, ["like:constraint"]))
                return
            full = fl(pyhf, mo.logpdf(po, tl.astensor(out.data(mo))))
            if not close(full, main_o + cons["out"]):
                fails.append(("logpdf of the combination is not main + constraint", dict(det, full=full), ["like:full"]))
                return


def like_prune(pyhf, pre, out, exp_spec, step, fails):
    tl = pyhf.tensorlib
    try:
        mp = build_model(pre)
    except Exception as e:  # noqa: BLE001
        raise Skip(f"input model does not build: {type(e).__name__}")
    try:
        mo = build_model(out)
    except Exception as e:  # noqa: BLE001
        if "No parameters specified" in str(e):
            # pruning removed the last modifier: pyhf refuses parameter-free models by design, nothing to compare
            raise Skip("pruned workspace has no parameter left")
        fails.append(("the pruned workspace has no model although the input has one", {"exception": f"{type(e).__name__}: {e}"[:300]}, ["like:nomodel"]))
        return
    tp, to = mod_types(pre), mod_types(exp_spec)
    kind, sel = step["kind"], [KIND_POOL[step["kind"]][n] for n in step["sel"]]
    neutral = set()
    if kind == "modifiers":
        neutral = set(sel)
    elif kind == "modifier_types":
        neutral = {n for n, ts in tp.items() if ts & set(sel)}
    kept = {c["name"]: [s["name"] for s in c["samples"]] for c in exp_spec["channels"]}
    dpre = pre.data(mp, include_auxdata=False)
    dout = out.data(mo, include_auxdata=False)
    if sorted(mo.config.channels) != sorted(kept):
        fails.append(("channels of the pruned model are not the kept channels", {"model": mo.config.channels, "kept": sorted(kept)}, ["like:channels"]))
        return
    for n in mo.config.par_order:
        if n in mp.config.par_order and mo.config.param_set(n).n_parameters != mp.config.param_set(n).n_parameters:
            # a bin-wise parameter declared in a removed AND a kept channel (same staterror/shapesys name in several channels): pyhf
            # gives it one component per bin of every channel carrying it, so pruning renumbers its components and a point
            # "by name and index" no longer denotes the same parameter values; the property does not speak about this numbering
            raise Skip("bin-wise parameter spans pruned and kept channels (components renumbered)")
    for p in range(3):
        po = pars_of(pyhf, mo, to, p)
        pp = pars_of(pyhf, mp, tp, p, neutral=neutral)
        by_sample = tl.tolist(mp.main_model.expected_data(pp, return_by_sample=True))
        got = tl.tolist(mo.expected_actualdata(po))
        main_expected = 0.0
        for c in mo.config.channels:
            so, sp = mo.config.channel_slices[c], mp.config.channel_slices[c]
            rows = [mp.config.samples.index(s) for s in kept[c]]
            want = [sum(by_sample[r][b] for r in rows) for b in range(sp.start, sp.stop)]
            have = got[so.start:so.stop]
            n_out, n_pre = dout[so.start:so.stop], dpre[sp.start:sp.stop]
            det = {"channel": c, "point": p, "rates_of_remainder": have, "rates_from_original": want, "obs_out": n_out, "obs_original": n_pre}
            if n_out != n_pre:
                fails.append(("observation of a kept channel changed under prune", det, ["like:obs"]))
                return
            if len(want) != len(have) or not all(close(a, b, 1e-10) for a, b in zip(want, have)):
                fails.append(("expected rates of the remainder differ from the original's rates of the kept items", det, ["like:rates"]))
                return
            main_expected += sum(n * math.log(lam) - lam - math.lgamma(n + 1.0) for n, lam in zip(n_pre, want))
        main_o = fl(pyhf, mo.mainlogpdf(tl.astensor(dout), po))
        if not close(main_o, main_expected):
            fails.append(("main log-likelihood of the remainder is not the product of the kept Poisson terms",
                          {"point": p, "main_out": main_o, "expected": main_expected}, ["like:main"]))
            return
        if not shared_staterror(exp_spec):
            cons = fl(pyhf, mo.constraint_logpdf(tl.astensor(mo.config.auxdata), po)) if mo.config.auxdata else 0.0
            cf = constraint_closed_form(exp_spec, lambda n, t, k: value_of(MO_INV[n], t, k, p))
            if not close(cons, cf):
                fails.append(("constraint part of the remainder is not one term per remaining constrained parameter",
                              {"point": p, "constraint": cons, "closed_form": cf}, ["like:constraint"]))
                return


def like_same(pyhf, pre, out, exp_spec, fails, what, ident=None, chan_map=None):
    """rename / sorted: the log-likelihood is unchanged at the (relabelled) point"""
    tl = pyhf.tensorlib
    try:
        mp = build_model(pre)
    except Exception as e:  # noqa: BLE001
        raise Skip(f"input model does not build: {type(e).__name__}")
    try:
        mo = build_model(out)
    except Exception as e:  # noqa: BLE001
        fails.append((f"the {what} workspace has no model although the input has one", {"exception": f"{type(e).__name__}: {e}"[:300]}, ["like:nomodel"]))
        return
    tp, to = mod_types(pre), mod_types(exp_spec)
    ident = ident or {}
    if sorted(ident.get(n, n) for n in mo.config.par_order) != sorted(mp.config.par_order):
        fails.append((f"parameters of the {what} model are not the relabelled parameters of the input",
                      {"out": mo.config.par_order, "in": mp.config.par_order}, ["like:parset"]))
        return
    dp, do = pre.data(mp), out.data(mo)
    for p in range(3):
        pp = pars_of(pyhf, mp, tp, p)
        po = pars_of(pyhf, mo, to, p, ident=ident)
        a = fl(pyhf, mp.logpdf(pp, tl.astensor(dp)))
        b = fl(pyhf, mo.logpdf(po, tl.astensor(do)))
        am = fl(pyhf, mp.mainlogpdf(tl.astensor(pre.data(mp, include_auxdata=False)), pp))
        bm = fl(pyhf, mo.mainlogpdf(tl.astensor(out.data(mo, include_auxdata=False)), po))
        if not (close(a, b) and close(am, bm)):
            fails.append((f"log-likelihood changed under {what}", {"point": p, "logpdf_in": a, "logpdf_out": b, "main_in": am, "main_out": bm}, ["like:logpdf"]))
            return


# ------------------------------------------------------------------ the replay proper
def is_pyhf_exception(e):
    return any((k.__module__ or "").startswith("pyhf.exceptions") for k in type(e).__mro__)


def apply_step(pyhf, cur, right, step):
    op = step["op"]
    W = pyhf.Workspace
    if op == "combine":
        return W.combine(cur, right, join=step["join"], merge_channels=step["merge"])
    if op == "prune":
        pool = KIND_POOL[step["kind"]]
        return cur.prune(**{step["kind"]: [pool[n] for n in step["sel"]]})
    if op == "rename":
        pool = KIND_POOL[step["kind"]]
        return cur.rename(**{step["kind"]: {pool[a]: pool[b] for a, b in step["pairs"]}})
    if op == "sorted":
        return W.sorted(cur)
    raise ValueError(op)


def step_tags(step):
    t = [f"op:{step['op']}"]
    if step["op"] == "combine":
        t += [f"join:{step['join']}", "merge_channels" if step["merge"] else "no_merge"]
    if step["op"] in ("prune", "rename"):
        t.append(f"kind:{step['kind']}")
    return t


def describe(step):
    if step["op"] == "combine":
        return f"combine(join={step['join']!r}, merge_channels={step['merge']})"
    if step["op"] == "prune":
        return f"prune({step['kind']}={[KIND_POOL[step['kind']][n] for n in step['sel']]})"
    if step["op"] == "rename":
        return f"rename({step['kind']}={ {KIND_POOL[step['kind']][a]: KIND_POOL[step['kind']][b] for a, b in step['pairs']} })"
    return "sorted()"


def sample_clash(a, b):
    for ca in a["channels"]:
        for cb in b["channels"]:
            if ca["name"] == cb["name"]:
                for sa in ca["samples"]:
                    for sb in cb["samples"]:
                        if sa["name"] == sb["name"] and sa != sb:
                            return True
    return False


_WS_CACHE = {}


def cached_ws(pyhf, spec):
    key = json.dumps(spec, sort_keys=True)
    hit = _WS_CACHE.get(key)
    if hit is not None and snapshot(hit[0]) == hit[1]:
        return hit
    ws = pyhf.Workspace(copy.deepcopy(spec), validate=(spec["version"] == "1.0.0"))
    _WS_CACHE[key] = (ws, snapshot(ws))
    return _WS_CACHE[key]


def replay(pyhf, backend, precision, chunk, seed=0, likelihood=True):
    out = {"n": 0, "nontrivial": 0, "findings": [], "drift": [], "machinery": None, "steps": 0, "like": {}, "outcomes": {}, "skipped": {}}
    rng = random.Random(seed)

    def finding(key, detail, tags):
        if len(out["findings"]) < 40:
            out["findings"].append(("C16", key, detail, tags))
        else:
            out.setdefault("more_tags", []).append(tags)

    def drift(msg):
        if len(out["drift"]) < 10:
            out["drift"].append(msg)

    for line in chunk:
        case = json.loads(line)
        out["n"] += 1
        Lj, Rj = conc_ws(case["left"]), conc_ws(case["right"])
        try:
            # input workspaces are shared between cases (schema validation dominates the cost); every
            # step re-checks them against their snapshot, and a mutated one is dropped from the cache
            L, Lsnap = cached_ws(pyhf, Lj)
            R, Rsnap = cached_ws(pyhf, Rj)
        except Exception as e:  # noqa: BLE001
            out["machinery"] = f"input workspace of a case is not accepted by pyhf: {type(e).__name__}: {e}\n{json.dumps(Lj)[:800]}"
            continue
        cur, cur_json = L, Lj
        hist = case["hist"]
        nontrivial = False
        for si, step in enumerate(hist):
            last = si == len(hist) - 1
            out["steps"] += 1
            d = step["def"]
            im = d if step["impl"]["exc"] == "same" else step["impl"]
            tags = step_tags(step)
            what = describe(step)
            pre, pre_snap = cur, snapshot(cur)
            pre_ids = mutable_ids(pre) | mutable_ids(R)
            ctx = {"left": Lj, "right": Rj, "history": [describe(s) for s in hist[: si + 1]], "input_of_step": cur_json}
            res = exc = None
            try:
                res = apply_step(pyhf, cur, R, step)
            except Exception as e:  # noqa: BLE001
                exc = e
            oc = f"{step['op']}:{d['st']}:{'raised ' + type(exc).__name__ if exc is not None else 'returned'}"
            out["outcomes"][oc] = out["outcomes"].get(oc, 0) + 1
            # inputs untouched -- whatever the outcome
            if snapshot(pre) != pre_snap or snapshot(R) != Rsnap or snapshot(L) != Lsnap:
                finding(f"{what} modified one of its input workspaces", dict(ctx, before=pre_snap[0], after=dict(pre)), tags + ["inputs:mutated"])
                _WS_CACHE.clear()
                break
            if d["st"] == "refuse":
                if exc is None:
                    t = list(tags) + ["expect:refuse", "got:accepted"]
                    if step["op"] == "combine" and sample_clash(cur_json, Rj):
                        t.append("clash:sample")
                    finding(f"{what} on clashing / incompatible inputs is not refused", dict(ctx, returned=dict(res), expected_exception=d["exc"]), t)
                    break
                if not (is_pyhf_exception(exc) or (d["exc"] == "ValueError" and isinstance(exc, ValueError))):
                    finding(f"{what} is only stopped by a foreign exception {type(exc).__name__}", dict(ctx, exception=f"{type(exc).__name__}: {exc}"[:300]),
                            tags + ["expect:refuse", f"got:{type(exc).__name__}"])
                    break
                if im["st"] == "ok":
                    drift(f"{what}: refused with {type(exc).__name__} as the definition demands; the transcription of workspace.py predicts acceptance")
                elif type(exc).__name__ != im["exc"]:
                    drift(f"{what}: raised {type(exc).__name__}, transcription predicts {im['exc']}")
                nontrivial = nontrivial or case["left"]["ver"] == case["right"]["ver"]
                break
            # the definition accepts
            exp_spec = conc_ws(d["ws"])
            if exc is not None:
                finding(f"{what} on compatible inputs raised {type(exc).__name__}", dict(ctx, exception=f"{type(exc).__name__}: {exc}"[:400], expected=exp_spec),
                        tags + ["expect:ok", f"got:{type(exc).__name__}"])
                break
            if not isinstance(res, pyhf.Workspace) or res is pre or res is R:
                finding(f"{what} did not return a new Workspace", ctx, tags + ["result:notnew"])
                break
            if mutable_ids(res) & pre_ids:
                finding(f"{what}: the result shares mutable objects with an input workspace", ctx, tags + ["result:aliased"])
                break
            try:
                if last:       # (earlier steps are the last step of their own, shorter, case)
                    pyhf.schema.validate(dict(res), "workspace.json", version="1.0.0")
            except Exception as e:  # noqa: BLE001
                finding(f"{what} returned a workspace that is not schema-valid", dict(ctx, returned=dict(res), error=str(e)[:300]), tags + ["result:schema"])
                break
            if norm(res) != norm(exp_spec):
                finding(f"{what}: result differs from the definition (items lost, duplicated or altered)", dict(ctx, returned=dict(res), expected=exp_spec),
                        tags + ["expect:ok", "got:different"])
                break
            if im["st"] == "ok" and dict(res) != conc_ws(im["ws"]):
                drift(f"{what}: listing order of the result differs from the transcription")
            if res.measurement_names != [m["name"] for m in res["measurements"]] or res.observations != {o["name"]: o["data"] for o in res["observations"]}:
                finding(f"{what}: derived attributes of the result disagree with its content", ctx, tags + ["result:attributes"])
                break
            # operation-specific algebra
            fails = []
            if step["op"] == "rename":
                pool = KIND_POOL[step["kind"]]
                inv = {pool[b]: pool[a] for a, b in step["pairs"]}
                try:
                    back = res.rename(**{step["kind"]: inv})
                    if dict(back) != dict(pre):
                        fails.append(("renaming followed by the inverse renaming is not the identity", {"back": dict(back)}, ["algebra:inverse"]))
                except Exception as e:  # noqa: BLE001
                    fails.append(("the inverse renaming is refused", {"exception": f"{type(e).__name__}: {e}"[:300]}, ["algebra:inverse"]))
            if step["op"] == "sorted":
                again = pyhf.Workspace.sorted(res)
                if dict(again) != dict(res):
                    fails.append(("sorted is not idempotent", {"again": dict(again)}, ["algebra:idempotent"]))
                for how in ("rev", "rot", "shuffle"):
                    other = pyhf.Workspace.sorted(pyhf.Workspace(permuted(dict(pre), how, rng)))
                    if dict(other) != dict(res):
                        fails.append((f"sorted is not canonical: a permuted ({how}) listing of the same workspace sorts differently", {"other": dict(other)}, ["algebra:canonical"]))
                        break
            if last and likelihood and not fails:
                try:
                    def _outside(spec):      # the likelihood helpers know normfactor/normsys/staterror with one type per parameter name
                        return any(len(ts) > 1 or "histosys" in ts for ts in mod_types(spec).values())
                    if _outside(pre) or (step["op"] == "combine" and _outside(R)):
                        # workspaces built from the two-typed sample S4 (or what pruning leaves of it) get the structural clauses only
                        raise Skip("a parameter name carries two modifier types: structural clauses only")
                    if step["op"] == "combine":
                        if not ({c["name"] for c in pre["channels"]} & {c["name"] for c in R["channels"]}):
                            like_combine(pyhf, pre, R, res, exp_spec, fails)
                            key = "combine-disjoint"
                        else:
                            key = None
                    elif step["op"] == "prune":
                        like_prune(pyhf, pre, res, exp_spec, step, fails)
                        key = "prune"
                    elif step["op"] == "rename":
                        ident = {}
                        if step["kind"] == "modifiers":
                            ident = {MO[b]: MO[a] for a, b in step["pairs"]}
                        like_same(pyhf, pre, res, exp_spec, fails, "renamed", ident=ident)
                        key = "rename"
                    else:
                        like_same(pyhf, pre, res, exp_spec, fails, "sorted")
                        key = "sorted"
                    if key:
                        out["like"][key] = out["like"].get(key, 0) + 1
                        nontrivial = True
                except Skip as s:
                    out["skipped"][str(s)] = out["skipped"].get(str(s), 0) + 1
                except RuntimeError as e:
                    out["machinery"] = str(e)
            if fails:
                k, det, t = fails[0]
                finding(f"{what}: {k}", dict(ctx, returned=dict(res), **det), tags + t)
                break
            cur, cur_json = res, copy.deepcopy(dict(res))
        if nontrivial or len(hist) > 1:
            out["nontrivial"] += 1
    return out
