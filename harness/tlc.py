"""Run TLC on a module of /verif/spec with a generated cfg; parse statistics, coverage and
the JSON cases the specification prints (PrintT(ToJson(case)) -> one line per case).

Results are cached under .work/cache keyed by the hash of every spec file plus the cfg: the
specification does not depend on /repo, so re-using a TLC run across checks is sound; the
replay into pyhf is never cached.
"""
from __future__ import annotations

import json
import os
import re
import shutil
import subprocess
import time
from pathlib import Path

from common import SPEC, WORK, Machinery, sha

TLC_CP = "/opt/veriftools/tla/tla2tools.jar:/opt/veriftools/tla/CommunityModules-deps.jar"


def _render(v):
    if isinstance(v, bool):
        return "TRUE" if v else "FALSE"
    if isinstance(v, int):
        return str(v)
    if isinstance(v, str):   # raw TLA+ text (the caller writes "\"abc\"" for a string literal)
        return v
    if isinstance(v, (set, frozenset)):
        return "{" + ", ".join(sorted((_render(x) for x in v), key=lambda s: (len(s), s))) + "}"
    if isinstance(v, (list, tuple)):
        return "<<" + ", ".join(_render(x) for x in v) + ">>"
    raise TypeError(v)


def make_cfg(constants: dict, invariants=(), spec="Spec", properties=(), constraints=(),
             postcondition=None, deadlock=False, view=None, extra="") -> str:
    lines = [f"SPECIFICATION {spec}"]
    if constants:
        lines.append("CONSTANTS")
        for k, v in constants.items():
            if isinstance(v, str) and v.startswith("<-"):
                lines.append(f"  {k} {v}")
            else:
                lines.append(f"  {k} = {_render(v)}")
    for i in invariants:
        lines.append(f"INVARIANT {i}")
    for p in properties:
        lines.append(f"PROPERTY {p}")
    for c in constraints:
        lines.append(f"CONSTRAINT {c}")
    if view:
        lines.append(f"VIEW {view}")
    if postcondition:
        lines.append(f"POSTCONDITION {postcondition}")
    lines.append(f"CHECK_DEADLOCK {'TRUE' if deadlock else 'FALSE'}")
    if extra:
        lines.append(extra)
    return "\n".join(lines) + "\n"


def spec_hash() -> str:
    parts = []
    for p in sorted(SPEC.glob("*.tla")):
        parts.append(p.name)
        parts.append(p.read_bytes())
    return sha(*parts)


class TLCResult:
    def __init__(self, d):
        self.__dict__.update(d)

    def __repr__(self):
        return f"TLCResult(ok={self.ok}, generated={self.generated}, distinct={self.distinct}, depth={self.depth}, cases={self.ncases}, wall={self.wall:.1f}s, cached={self.cached})"

    def cases(self):
        if not self.cases_path:
            return
        with open(self.cases_path) as f:
            for line in f:
                yield json.loads(line)


_STATS = re.compile(r"(\d+) states generated, (\d+) distinct states found, (\d+) states left on queue")
_DEPTH = re.compile(r"The depth of the complete state graph search is (\d+)")
_SIMSTAT = re.compile(r"The number of states generated: (\d+)")


def run(module: str, cfg_text: str, *, workers=16, simulate: str | None = None, timeout=3600,
        coverage=False, use_cache=True, tag="", env_extra=None, depth=None, jvm_opts=(), dfs=False, rseed=None) -> TLCResult:
    """module: file name in spec/ without .tla.  Returns a TLCResult; raises Machinery when TLC itself
    breaks (parse error, overflow, timeout).  An invariant/property violation is *not* an exception:
    result.ok is False and result.error names it (used by self-tests and trace validation)."""
    key = sha(spec_hash(), module, cfg_text, simulate or "", str(depth), str(rseed), json.dumps(env_extra or {}, sort_keys=True), tag)
    cdir = WORK / "cache" / key
    meta = cdir / "meta.json"
    if use_cache and meta.exists():
        d = json.loads(meta.read_text())
        d["cached"] = True
        return TLCResult(d)
    run_dir = WORK / f"tlc.{os.getpid()}.{key}"
    if run_dir.exists():
        shutil.rmtree(run_dir)
    run_dir.mkdir(parents=True)
    # TLC resolves EXTENDS relative to the module's directory: copy the spec tree (small)
    for p in SPEC.glob("*.tla"):
        shutil.copy(p, run_dir / p.name)
    (run_dir / "run.cfg").write_text(cfg_text)
    cmd = ["java", "-XX:+UseParallelGC", "-Xss16m", *jvm_opts]
    if dfs:
        cmd.append("-Dtlc2.tool.queue.IStateQueue=StateDeque")
    cmd += ["-cp", TLC_CP, "tlc2.TLC", "-workers", str(workers), "-metadir", str(run_dir / "meta"),
            "-noGenerateSpecTE", "-config", "run.cfg"]
    if coverage:
        cmd += ["-coverage", "1"]
    if simulate:
        cmd += ["-simulate", simulate]
    if depth:
        cmd += ["-depth", str(depth)]
    if rseed is not None:          # reproducible random walks: derived from VERIF_SEED by the caller
        cmd += ["-seed", str(int(rseed))]
    cmd.append(module + ".tla")
    out_path = run_dir / "stdout.txt"
    t0 = time.time()
    env = dict(os.environ)
    env.update(env_extra or {})
    with open(out_path, "w") as out:
        try:
            p = subprocess.run(cmd, cwd=run_dir, stdout=out, stderr=subprocess.STDOUT, timeout=timeout, env=env)
            rc = p.returncode
        except subprocess.TimeoutExpired:
            if not simulate:
                raise Machinery(f"TLC timed out after {timeout}s on {module}")
            rc = -9
    wall = time.time() - t0
    cdir.mkdir(parents=True, exist_ok=True)
    cases_path = cdir / "cases.ndjson"
    ncases = 0
    generated = distinct = depthv = 0
    errors = []
    tail = []
    marks = []
    cov = {}
    with open(out_path, errors="replace") as f, open(cases_path, "w") as cf:
        for line in f:
            if line.startswith('"{') or line.startswith('"['):
                try:
                    inner = json.loads(line)
                    json.loads(inner)
                except Exception as e:  # damaged line: machinery failure, never a verdict
                    raise Machinery(f"unparseable case line from TLC: {line[:200]} ({e})")
                cf.write(inner + "\n")
                ncases += 1
                continue
            if line.startswith('<<"'):
                marks.append(line.strip())
                continue
            tail.append(line.rstrip("\n"))
            if len(tail) > 400:
                tail = tail[-300:]
            m = _STATS.search(line)
            if m:
                generated, distinct = int(m.group(1)), int(m.group(2))
            m = _DEPTH.search(line)
            if m:
                depthv = int(m.group(1))
            m = _SIMSTAT.search(line)
            if m:
                generated = max(generated, int(m.group(1)))
            if line.startswith("Error:") or "is violated" in line or "Overflow" in line:
                errors.append(line.strip())
            if coverage:
                m = re.match(r"<(\w+) line (\d+), col (\d+) to line (\d+), col (\d+) of module (\w+)(?: \([\d ]+\))?>: (\d+):(\d+)", line)
                if m:   # an action with several disjuncts/quantifiers is reported once per sub-action: accumulate
                    c = cov.setdefault(m.group(1), {"distinct": 0, "taken": 0})
                    c["distinct"] += int(m.group(7)); c["taken"] += int(m.group(8))
    ok = rc == 0 and not errors
    text_tail = "\n".join(tail[-120:])
    machinery_markers = ("Overflow when computing", "Parsing or semantic analysis failed", "was unable to fingerprint",
                         "java.lang.", "Unknown operator", "cannot be evaluated", "Attempted to", "TLC threw an unexpected exception",
                         "The exception was a", "Fatal error", "tlc2.tool.EvalException", "Could not find")
    if not ok and not any("is violated" in e for e in errors) and "Assumption" not in text_tail and "POSTCONDITION" not in text_tail.upper():
        if any(mk in text_tail for mk in machinery_markers) or rc not in (0, 12, 13, -9):
            shutil.rmtree(cdir, ignore_errors=True)
            raise Machinery(f"TLC failed on {module} (rc={rc}):\n" + "\n".join(tail[-60:]))
    d = dict(ok=ok, rc=rc, generated=generated, distinct=distinct, depth=depthv, ncases=ncases,
             cases_path=str(cases_path) if ncases else None, errors=errors, tail=text_tail, wall=wall,
             coverage=cov, marks=marks, cached=False, module=module, cfg=cfg_text, run_dir=str(run_dir), key=key)
    if ok or errors:
        meta.write_text(json.dumps(d))
    if ok:
        shutil.rmtree(run_dir, ignore_errors=True)
    return TLCResult(d)


def require_actions(res: TLCResult, actions, what=""):
    """vacuity guard: with -coverage 1 every named action must have been taken at least once (else exit 2, never a verdict)"""
    if res.cached and not res.coverage:
        return
    missing = [a for a in actions if res.coverage.get(a, {}).get("taken", 0) == 0]
    if missing:
        raise Machinery(f"vacuous TLC run{' (' + what + ')' if what else ''}: actions never taken: {missing}")


def sany(module: str) -> bool:
    p = subprocess.run(["java", "-cp", TLC_CP, "tla2sany.SANY", module + ".tla"], cwd=SPEC,
                       stdout=subprocess.PIPE, stderr=subprocess.STDOUT, text=True)
    return p.returncode == 0 and "error" not in p.stdout.lower().replace("semantic errors:\n", "")
