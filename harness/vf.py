#!/venv/bin/python
"""./vf setup | check <ID> --tier quick|thorough | extra <name> --tier ... | replay <path> | selftest <ID>"""
import argparse
import importlib
import os
import sys
import traceback

HERE = os.path.dirname(os.path.abspath(__file__))
sys.path.insert(0, HERE)
sys.path.insert(0, os.path.join(HERE, "checks"))

from common import Machinery  # noqa: E402

CHECKS = {
    "C01": ("hf", {}), "C02": ("hf", {}), "C10": ("hf", {}), "C12": ("hf", {}),
    "C20": ("c20", {}),
    "C03": ("c03", {}),
    "C11": ("c11", {}),
    "C05": ("c05", {}),
    "C06": ("c06", {}),
    "C08": ("c08", {}),
    "C18": ("c18", {}),
    "C14": ("c14", {}),
    "C16": ("c16", {}),
    "C13": ("c13", {}),
    "C15": ("c15", {}), "C19": ("c19", {}),
    "C07": ("c07", {}), "C09": ("c09", {}), "C17": ("c17", {}),
    "C04": ("c04", {}),
}

# specifications beyond the listed properties (not in MANIFEST.checks; evidence under extras/evidence)
EXTRAS = {"tensor": "xtensor"}


def main():
    ap = argparse.ArgumentParser()
    sub = ap.add_subparsers(dest="cmd", required=True)
    sub.add_parser("setup")
    c = sub.add_parser("check")
    c.add_argument("prop")
    c.add_argument("--tier", default=os.environ.get("VERIF_TIER", "quick"), choices=["quick", "thorough"])
    r = sub.add_parser("replay")
    r.add_argument("path")
    x = sub.add_parser("extra")
    x.add_argument("name", choices=sorted(EXTRAS))
    x.add_argument("--tier", default=os.environ.get("VERIF_TIER", "quick"), choices=["quick", "thorough"])
    st = sub.add_parser("selftest")
    st.add_argument("ids", nargs="*")
    a = ap.parse_args()
    try:
        if a.cmd == "setup":
            import setup_cmd
            sys.exit(setup_cmd.main())
        if a.cmd == "check":
            modname, kw = CHECKS[a.prop]
            mod = importlib.import_module(modname)
            sys.exit(mod.run(a.prop, a.tier, **kw))
        if a.cmd == "extra":
            mod = importlib.import_module(EXTRAS[a.name])
            sys.exit(mod.run(a.name, a.tier))
        if a.cmd == "selftest":
            import selftest
            sys.exit(selftest.main(a.ids))
        if a.cmd == "replay":
            import replay_cmd
            sys.exit(replay_cmd.main(a.path))
    except Machinery as e:
        print(f"MACHINERY-FAILURE: {e}", file=sys.stderr)
        sys.exit(2)
    except SystemExit:
        raise
    except Exception:
        traceback.print_exc()
        print("MACHINERY-FAILURE: unexpected exception in the harness", file=sys.stderr)
        sys.exit(2)


if __name__ == "__main__":
    main()
