"""Worker side of the HFModel replay (runs inside pool processes)."""
import json
import random

import hfreplay


def replay(pyhf, backend, precision, chunk, props, seed, extra_batch=False, ainv=None):
    """chunk: list of JSON lines (cases of whole spec groups)."""
    rng = random.Random(seed)
    cache = {}
    out = {"n": 0, "nontrivial": 0, "findings": [], "drift": [], "specs": 0, "shuffled": 0}
    last_key = None
    for line in chunk:
        case = json.loads(line)
        k = hfreplay.spec_key(case)
        if k != last_key:
            out["specs"] += 1
            last_key = k
        F, drift, st = hfreplay.check_case(pyhf, case, backend, precision, props, rng, cache, extra_batch=extra_batch, ainv=ainv)
        out["n"] += 1
        if st.get("nmods", 0) >= 2 or st.get("npars", 0) >= 2:
            out["nontrivial"] += 1
        for f in F:
            if len(out["findings"]) < 40:
                out["findings"].append(f.as_tuple())
            else:
                out.setdefault("more", 0)
                out["more"] += 1
        out["drift"] += drift[:3]
    return out
