"""layout codes of what pyhf.infer.hypotest returned (shared by the replay driver and the pytest plugin):
1 obs, 2 [CLs+b, CLb], 3 [CLb], 4 median expected, 5 five-point band, 6 calculator, 0 unknown"""


def classify(res):
    items = list(res) if isinstance(res, tuple) else [res]
    codes = []
    for i, it in enumerate(items):
        if hasattr(it, "teststatistic"):
            codes.append(6)
        elif isinstance(it, (list, tuple)):
            codes.append({2: 2, 1: 3, 5: 5}.get(len(it), 0))
        else:
            codes.append(1 if i == 0 else 4)
    return codes, items
