------------------------------ MODULE Hypotest ------------------------------
(***************************************************************************)
(* C08: the hypothesis-test protocol as a state machine that issues the    *)
(* calls of HypotestDefs.Plan one at a time and tracks which dataset each  *)
(* one ran on and where the Asimov data came from; invariants are the      *)
(* protocol clauses.  All 16 flag sets x 3 statistics x 2 calculators x    *)
(* prerequisite faults are enumerated.                                      *)
(***************************************************************************)
EXTENDS HypotestDefs, Json, TLC

CONSTANTS MaxToys, EmitCases
VARIABLES kind, calc, ntoys, tail, exp, expset, calcflag, hasPoi, poiFixed, pc, done, asimovFrom, outcome
vars == <<kind, calc, ntoys, tail, exp, expset, calcflag, hasPoi, poiFixed, pc, done, asimovFrom, outcome>>

Init == /\ kind \in {"q", "qtilde", "q0"} /\ calc \in {"asymptotics", "toybased"}
        /\ ntoys \in (IF calc = "toybased" THEN 1..MaxToys ELSE {0})
        /\ tail \in BOOLEAN /\ exp \in BOOLEAN /\ expset \in BOOLEAN /\ calcflag \in BOOLEAN
        /\ hasPoi \in BOOLEAN /\ poiFixed \in BOOLEAN /\ (~hasPoi => ~poiFixed)
        /\ pc = "prereq" /\ done = <<>> /\ asimovFrom = 0 /\ outcome = <<>>

P == Plan(kind, calc, ntoys)
Check == /\ pc = "prereq"
         /\ IF Prereq(hasPoi, poiFixed) = "ok" THEN pc' = "fits" /\ UNCHANGED outcome
            ELSE pc' = "refused" /\ outcome' = <<Prereq(hasPoi, poiFixed)>>
         /\ UNCHANGED <<kind, calc, ntoys, tail, exp, expset, calcflag, hasPoi, poiFixed, done, asimovFrom>>
\* one fit of the plan; the Asimov dataset / the toys exist only after their source fit has run
NextFit == /\ pc = "fits" /\ Len(done) < Len(P)
           /\ LET f == P[Len(done) + 1] IN
              /\ (f.data = <<"asimov", 0>> => asimovFrom = AsimovSource)
              /\ done' = Append(done, f)
              /\ asimovFrom' = IF calc = "asymptotics" /\ Len(done) + 1 = AsimovSource THEN AsimovSource ELSE asimovFrom
           /\ UNCHANGED <<kind, calc, ntoys, tail, exp, expset, calcflag, hasPoi, poiFixed, pc, outcome>>
Finish == /\ pc = "fits" /\ Len(done) = Len(P)
          /\ outcome' = Assemble(tail, exp, expset, calcflag, kind = "q0") /\ pc' = "returned"
          /\ UNCHANGED <<kind, calc, ntoys, tail, exp, expset, calcflag, hasPoi, poiFixed, done, asimovFrom>>
Next == Check \/ NextFit \/ Finish
Spec == Init /\ [][Next]_vars

-----------------------------------------------------------------------------
Returned == pc = "returned"
\* the Asimov data are the expectation at the background-only (signal for q0) CONDITIONAL fit on the observed data
AsimovFromBkgFit == Returned /\ calc = "asymptotics" =>
   /\ done[AsimovSource] = [poi |-> AsimovMu(kind), data |-> <<"obs", 0>>]
   /\ \A i \in 1..Len(done) : done[i].data = <<"asimov", 0>> => i > AsimovSource
\* the observed statistic runs on the observed data, the Asimov statistic on the Asimov data, both test the same value
StatisticsOnRightDataset == Returned =>
   /\ done[1] = [poi |-> MuEff(kind), data |-> <<"obs", 0>>] /\ done[2] = [poi |-> "free", data |-> <<"obs", 0>>]
   /\ (calc = "asymptotics" => done[4] = [poi |-> MuEff(kind), data |-> <<"asimov", 0>>] /\ done[5] = [poi |-> "free", data |-> <<"asimov", 0>>])
\* toys: conditional fits of the respective hypothesis first, then every toy gets a conditional and a free fit on ITS dataset
ToyProtocol == Returned /\ calc = "toybased" =>
   /\ Len(done) = 4 + 4 * ntoys
   /\ done[SigSource].poi = "mu" /\ done[BkgSource].poi = AsimovMu(kind)
   /\ \A i \in 1..ntoys : /\ done[4 + 2 * i - 1].data = <<"sig", i>> /\ done[4 + 2 * i].data = <<"sig", i>>
                          /\ done[4 + 2 * ntoys + 2 * i - 1].data = <<"bkg", i>> /\ done[4 + 2 * ntoys + 2 * i].data = <<"bkg", i>>
RefusedWithoutFits == pc = "refused" => done = <<>> /\ outcome[1] \in {"UnspecifiedPOI", "InvalidModel"}
\* layout facts the documentation promises
LayoutFacts == Returned =>
   /\ outcome[1] = "obs"
   /\ Len(outcome) = 1 + (IF tail THEN 1 ELSE 0) + (IF exp THEN 1 ELSE 0) + (IF expset THEN 1 ELSE 0) + (IF calcflag THEN 1 ELSE 0)
   /\ (calcflag => outcome[Len(outcome)] = "calculator")
   /\ (tail => outcome[2] = IF kind = "q0" THEN <<"CLb">> ELSE <<"CLsb", "CLb">>)
Emit == (EmitCases /\ pc \in {"returned", "refused"}) =>
   PrintT(ToJson([kind |-> kind, calc |-> calc, ntoys |-> ntoys, tail |-> tail, exp |-> exp, expset |-> expset, calcflag |-> calcflag,
                  has_poi |-> hasPoi, poi_fixed |-> poiFixed, outcome |-> outcome, plan |-> IF pc = "returned" THEN done ELSE <<>>]))
=============================================================================
