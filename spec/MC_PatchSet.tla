---------------------------- MODULE MC_PatchSet ----------------------------
(***************************************************************************)
(* C17 as a state machine.  A patch-set document is built one patch at a   *)
(* time, handed to the constructor, and then queried once:                  *)
(*                                                                         *)
(*   Register(name, values, empty)  one more entry of spec['patches']; both *)
(*                            layers process it (definition: two maps;     *)
(*                            implementation: one loop iteration of        *)
(*                            PatchSet.__init__ on the single dictionary)  *)
(*   Seal                     pyhf.PatchSet(spec) returns or raises         *)
(*   Lookup(key)              ps[key]                                       *)
(*   Verify(vd)               ps.verify(variant vd of the background)       *)
(*   Apply(key, vd, ops)      ps.apply(variant, key), the patch the key     *)
(*                            designates carrying the RFC-6902 list ops     *)
(*   Reapply                  the same call once more on the same object:   *)
(*                            Apply is a function of the document, so the   *)
(*                            answer is the same                            *)
(*                                                                         *)
(* Patch names come from a pool that contains the words pyhf uses           *)
(* internally ("name", "values", "metadata", "patches"); value tuples from  *)
(* a small rational grid with 1-2 labels, wrong lengths included;           *)
(* duplicates of names and of tuples are reachable.                         *)
(*                                                                         *)
(* Operation lists take no part in Register / Lookup / Verify: every patch  *)
(* is registered with a decoy list that identifies it (DecoyOps) and Apply  *)
(* quantifies over the list of the designated patch at the moment it        *)
(* matters (the document emitted with the case carries it).                 *)
(*                                                                         *)
(* Invariants (all asserted unless stated)                                  *)
(*   RegisterIsAccept     the two-map registration accepts exactly the      *)
(*                        documents A.7 Accept describes                    *)
(*   TwoMapsExact         accepted => each patch sits under exactly its     *)
(*                        name and exactly its value tuple                  *)
(*   LookupExact          a lookup returns patch i only for i's name / i's  *)
(*                        tuple (tuple or list), else the lookup error      *)
(*   VariantsClassified   every single-leaf corruption / array swap changes *)
(*                        the canonical form; every key permutation changes *)
(*                        the listing and keeps the canonical form          *)
(*   VerifyIffRecorded    Verify succeeds iff the variant is canonically    *)
(*                        the document recorded under EVERY algorithm       *)
(*   ApplyPure            the workspace handed in is unchanged; the result  *)
(*                        is JsonPatch(input, ops of the designated patch), *)
(*                        also when the call is repeated                    *)
(*   ImplEqDefOutsideInternal   implementation layer = definition layer     *)
(*                        whenever neither a patch name nor a string key is *)
(*                        "name" / "values"                                 *)
(*   CollisionExplains    every disagreement of the two layers is one of    *)
(*                        the faces of the shared dictionary: constructor   *)
(*                        refuses a patch named like a bookkeeping key,     *)
(*                        item access returns the bookkeeping dict, apply   *)
(*                        dies on {}.apply                                  *)
(*   ImplEqDef            NOT asserted by the check's main runs: it FAILS   *)
(*                        (shortest counterexample: Register("name", ..),   *)
(*                        Seal).  The check runs it once on a small cfg to   *)
(*                        record TLC's counterexample as the explanation,   *)
(*                        and once with SharedBookkeeping = FALSE (the       *)
(*                        dictionary starts empty), where it HOLDS.          *)
(*   Emit                 prints one JSON case per sealed / looked /         *)
(*                        verified / applied / reapplied state               *)
(***************************************************************************)
EXTENDS PatchSet, Json

CONSTANTS NameSel,       \* which entries of AllNames are patch names (TLC cfg files cannot hold sequences)
          LabelCounts,   \* subset of {1, 2}
          GridSel,       \* which entries of AllGrid are value-tuple entries
          MaxPatches,
          DigestCfgs,    \* subset of DOMAIN DigestTable
          DoLookup, DoVerify, DoApply,
          MaxOps,        \* longest operation list (0..3)
          ApplyVariantKinds,   \* which variant kinds Apply explores
          SharedBookkeeping,   \* TRUE: _patches_by_key starts as {'name': {}, 'values': {}} (the code as read); FALSE: as {}
          EmitCases, EmitMod, EmitRes

VARIABLES nl, dig, doc, phase, def, impl, q, dres, ires, wsIn
vars == <<nl, dig, doc, phase, def, impl, q, dres, ires, wsIn>>

Internal == {"name", "values"}          \* keys of pyhf's bookkeeping entries
\* the name pool: the words pyhf uses internally, then ordinary names (two differing in case only)
AllNames == <<"name", "values", "metadata", "patches", "Sig_A", "sig_a", "p_3">>
AllGrid  == <<<<0, 1>>, <<1, 1>>, <<3, 2>>, <<-2, 1>>>>
RECURSIVE Pick(_, _, _)
Pick(seq, sel, i) == IF i > Len(seq) THEN <<>> ELSE (IF i \in sel THEN <<seq[i]>> ELSE <<>>) \o Pick(seq, sel, i + 1)
NameSeq == Pick(AllNames, NameSel, 1)
Grid    == Pick(AllGrid, GridSel, 1)
GridSet == {Grid[i] : i \in DOMAIN Grid}
NameSet == {NameSeq[i] : i \in DOMAIN NameSeq}

-----------------------------------------------------------------------------
(* the background-only workspace (13 leaves, one of them non-dyadic)         *)
NormFactor(n) == Obj(<< <<"name", Str(n)>>, <<"type", Str("normfactor")>>, <<"data", Null>> >>)
BkgSample == Obj(<< <<"name", Str("bkg")>>, <<"data", Arr(<<Num(5, 1), Num(73, 10)>>)>>,
                    <<"modifiers", Arr(<<NormFactor("mu")>>)>> >>)
Signal    == Obj(<< <<"name", Str("signal")>>, <<"data", Arr(<<Num(2, 1), Num(1, 2)>>)>>,
                    <<"modifiers", Arr(<<NormFactor("mu_sig")>>)>> >>)
NormSys   == Obj(<< <<"name", Str("sys")>>, <<"type", Str("normsys")>>,
                    <<"data", Obj(<< <<"hi", Num(11, 10)>>, <<"lo", Num(9, 10)>> >>)>> >>)
W0 == Obj(<< <<"channels", Arr(<<Obj(<< <<"name", Str("SR")>>, <<"samples", Arr(<<BkgSample>>)>> >>)>>)>>,
             <<"measurements", Arr(<<Obj(<< <<"name", Str("meas")>>,
                                            <<"config", Obj(<< <<"poi", Str("mu")>>, <<"parameters", Arr(<<>>)>> >>)>> >>)>>)>>,
             <<"observations", Arr(<<Obj(<< <<"name", Str("SR")>>, <<"data", Arr(<<Num(6, 1), Num(8, 1)>>)>> >>)>>)>>,
             <<"version", Str("1.0.0")>> >>)
\* a different document somebody may have recorded a digest of (stale digest)
W1 == MkVariant(W0, VD("leaf", <<"observations", "0", "data", "1">>, "bump"))
Recorded == <<W0, W1>>
ASSUME Cardinality(LeafPaths(W0)) = 13 /\ ~CanonEq(W0, W1)

D(alg, of) == [alg |-> alg, of |-> of]
DigestTable == <<
  <<D("sha256", 1), D("md5", 1)>>,      \* 1  both right (sha256 listed first)
  <<D("md5", 1), D("sha256", 1)>>,      \* 2  both right (md5 listed first)
  <<D("sha256", 1)>>,                   \* 3
  <<D("md5", 1)>>,                      \* 4
  <<D("sha256", 1), D("md5", 2)>>,      \* 5  first right, second stale: nothing verifies
  <<D("sha256", 2), D("md5", 1)>>,      \* 6
  <<D("md5", 1), D("sha256", 2)>>,      \* 7
  <<D("md5", 2), D("sha256", 1)>>,      \* 8
  <<D("sha256", 2), D("md5", 2)>>,      \* 9  both recorded for W1: W1 verifies, W0 does not
  <<D("md5", 2)>> >>                    \* 10
Digests == DigestTable[dig]

-----------------------------------------------------------------------------
(* RFC-6902 operations on the workspace                                      *)
P_samples == <<"channels", "0", "samples">>
P_bkg     == P_samples \o <<"0">>
AtomSeq == <<
  MkOp("add",     P_samples \o <<"0">>, <<>>, Signal),                                      \*  1 insert in front
  MkOp("add",     P_samples \o <<"-">>, <<>>, Signal),                                      \*  2 append
  MkOp("replace", P_bkg \o <<"data">>, <<>>, Arr(<<Num(9, 1), Num(19, 2)>>)),               \*  3 (what index 0 is depends on 1)
  MkOp("replace", <<"observations", "0", "data", "1">>, <<>>, Num(4, 1)),                   \*  4
  MkOp("remove",  P_bkg \o <<"modifiers", "0">>, <<>>, Null),                               \*  5
  MkOp("add",     P_bkg \o <<"modifiers", "0">>, <<>>, NormSys),                            \*  6 nested object value
  MkOp("move",    P_bkg \o <<"data", "1">>, P_bkg \o <<"data", "0">>, Null),                \*  7 from bin 0 to bin 1: swaps the two bins
  MkOp("copy",    P_bkg \o <<"data">>, <<"observations", "0", "data">>, Null),              \*  8 from the observation; add on an existing member replaces it
  MkOp("test",    P_bkg \o <<"name">>, <<>>, Str("bkg")),                                   \*  9 holds unless 1 came first
  MkOp("remove",  P_samples \o <<"1">>, <<>>, Null),                                        \* 10 conflict unless 1 or 2 came first
  MkOp("test",    <<"measurements", "0", "config">>, <<>>,
                  Obj(<< <<"parameters", Arr(<<>>)>>, <<"poi", Str("mu")>> >>)),            \* 11 object test, members listed in another order
  MkOp("remove",  <<"version">>, <<>>, Null),                                               \* 12 result is not a workspace any more
  MkOp("move",    <<"observations", "0", "name">>, <<"channels", "0", "name">>, Null) >>    \* 13 likewise (the channel loses its name)
Atoms == DOMAIN AtomSeq
OpIdxLists == {<<>>} \cup (IF MaxOps >= 1 THEN {<<a>> : a \in Atoms} ELSE {})
              \cup (IF MaxOps >= 2 THEN {<<a, b>> : a \in Atoms, b \in Atoms} ELSE {})
              \cup (IF MaxOps >= 3 THEN {<<a, b, c>> : a \in Atoms, b \in Atoms, c \in Atoms} ELSE {})
OpsOf(idx) == [j \in DOMAIN idx |-> AtomSeq[idx[j]]]
\* the list every patch is registered with: identifies the patch by its position
DecoyOps(i) == <<MkOp("replace", <<"measurements", "0", "name">>, <<>>, Str("decoy" \o ToString(i)))>>

-----------------------------------------------------------------------------
(* pools                                                                     *)
RightTuples(n) == IF n = 1 THEN {<<a>> : a \in GridSet} ELSE {<<a, b>> : a \in GridSet, b \in GridSet}
WrongTuples(n) == {<<>>} \cup (IF n = 1 THEN {<<Grid[1], Grid[Len(Grid)]>>}
                               ELSE {<<Grid[Len(Grid)]>>, <<Grid[1], Grid[1], Grid[Len(Grid)]>>})
StrKeys == {StrKey(s) : s \in NameSet \cup Internal \cup {"absent_0"}}
TupleKeys(n) ==
  LET ts == RightTuples(n) \cup WrongTuples(n)
            \cup {SubSeq(doc[i].values, 1, Len(doc[i].values) - 1) : i \in DOMAIN doc}     \* a present tuple cut short
            \cup {doc[i].values \o <<Grid[1]>> : i \in DOMAIN doc}                          \* ... or one entry too long
  IN {Key("tuple", "", t) : t \in ts} \cup {Key("list", "", t) : t \in ts}
WrongTypeKeys ==
  {Key("num", "", <<g>>) : g \in GridSet} \cup {Key("none", "", <<>>)}
  \cup {Key("strtuple", s, <<>>) : s \in {doc[i].name : i \in DOMAIN doc} \cup {"name"}}
  \cup {Key("nested", "", doc[i].values) : i \in DOMAIN doc}
  \cup {Key("nestedlist", "", doc[i].values) : i \in DOMAIN doc}
LookupKeys == StrKeys \cup TupleKeys(nl) \cup WrongTypeKeys
ApplyKeys  == StrKeys \cup {Key(k, "", t) : k \in {"tuple", "list"}, t \in RightTuples(nl)} \cup {Key("none", "", <<>>)}

\* constant-level, evaluated once by TLC
VariantsW0 == {vd \in Variants(W0) : VariantOK(W0, vd)}
ApplyVariants == {vd \in VariantsW0 : vd.kind \in ApplyVariantKinds}

NoKey == Key("none", "", <<>>)
NoQ   == [key |-> NoKey, vd |-> VD("same", <<>>, ""), opidx |-> <<>>]

-----------------------------------------------------------------------------
Init == /\ nl \in LabelCounts /\ dig \in DigestCfgs
        /\ doc = <<>> /\ phase = "build" /\ def = DefInit /\ impl = ImplInitWith(SharedBookkeeping)
        /\ q = NoQ /\ dres = NoRes /\ ires = NoRes /\ wsIn = Null

\* empty: the patch carries an EMPTY operation list ("patch": [] is schema-valid; such a patch object is falsy in Python).  Only the
\* first patch of a document may be empty (keeps the state space small; a later duplicate of it is what matters)
Register(name, values, empty) ==
  /\ phase = "build" /\ Len(doc) < MaxPatches /\ (empty => Len(doc) = 0)
  /\ LET p == [name |-> name, values |-> values, ops |-> IF empty THEN <<>> ELSE DecoyOps(Len(doc) + 1)] IN
     /\ doc' = Append(doc, p)
     /\ def' = DefRegister(def, p, nl)
     /\ impl' = ImplRegister(impl, p, nl)
  /\ UNCHANGED <<nl, dig, phase, q, dres, ires, wsIn>>

Seal ==                                   \* schema: at least one patch
  /\ phase = "build" /\ Len(doc) >= 1
  /\ phase' = "sealed"
  /\ UNCHANGED <<nl, dig, doc, def, impl, q, dres, ires, wsIn>>

NoObject == Res("noobject", 0, {}, Null)  \* the constructor raised: nothing to query
Lookup(key) ==
  /\ phase = "sealed" /\ DoLookup /\ def.status = "ok"
  /\ phase' = "looked" /\ q' = [NoQ EXCEPT !.key = key]
  /\ dres' = DefLookup(def, key)
  /\ ires' = IF impl.status = "ok" THEN ImplGetItem(impl, key) ELSE NoObject
  /\ UNCHANGED <<nl, dig, doc, def, impl, wsIn>>

Verify(vd) ==
  /\ phase = "sealed" /\ DoVerify /\ def.status = "ok" /\ vd \in VariantsW0
  /\ LET w == MkVariant(W0, vd) IN
     /\ wsIn' = w
     /\ dres' = IF DefVerify(Digests, Recorded, w) THEN Returned(Null) ELSE Raises({"PatchSetVerificationError"})
     /\ ires' = IF impl.status = "ok" THEN ImplVerify(Digests, Recorded, w) ELSE NoObject
  /\ phase' = "verified" /\ q' = [NoQ EXCEPT !.vd = vd]
  /\ UNCHANGED <<nl, dig, doc, def, impl>>

Apply(key, vd, idx) ==
  /\ phase = "sealed" /\ DoApply /\ def.status = "ok" /\ vd \in ApplyVariants
  /\ LET w    == MkVariant(W0, vd)
         lk   == DefLookup(def, key)
         full == lk.status = "patch" /\ DefVerify(Digests, Recorded, w)
         ops  == OpsOf(idx)
     IN /\ (~full => idx = <<>>)                      \* operation lists only matter when a patch is applied
        /\ doc' = IF full THEN [doc EXCEPT ![lk.i].ops = ops] ELSE doc
        /\ wsIn' = w                                   \* jsonpatch works on a copy: the caller's object stays
        /\ dres' = DefApply(def, Digests, Recorded, w, key, ops)
        /\ ires' = IF impl.status = "ok" THEN ImplApply(impl, Digests, Recorded, w, key, ops) ELSE NoObject
  /\ phase' = "applied" /\ q' = [key |-> key, vd |-> vd, opidx |-> idx]
  /\ UNCHANGED <<nl, dig, def, impl>>

\* the SAME workspace object is changed in place after a successful verification and verified again: verification is
\* a function of the current content only (no memory of earlier verdicts)
Reverify(vd2) ==
  /\ phase = "verified" /\ q.vd.kind = "same" /\ dres.status = "ok" /\ vd2 \in VariantsW0 /\ vd2.kind # "same"
  /\ LET w == MkVariant(W0, vd2) IN
     /\ wsIn' = w
     /\ dres' = IF DefVerify(Digests, Recorded, w) THEN Returned(Null) ELSE Raises({"PatchSetVerificationError"})
     /\ ires' = IF impl.status = "ok" THEN ImplVerify(Digests, Recorded, w) ELSE NoObject
  /\ phase' = "reverified" /\ q' = [NoQ EXCEPT !.vd = vd2]
  /\ UNCHANGED <<nl, dig, doc, def, impl>>

TargetOps == LET t == DefLookup(def, q.key) IN IF t.status = "patch" THEN doc[t.i].ops ELSE <<>>
Reapply ==
  /\ phase = "applied" /\ phase' = "reapplied"
  /\ dres' = DefApply(def, Digests, Recorded, wsIn, q.key, TargetOps)
  \* the implementation layer takes jsonpatch for the function JsonPatch (that jsonpatch inserts the values of
  \* add/copy/move operations by reference is not transcribed; the replay observes the real object twice)
  /\ ires' = IF impl.status = "ok" THEN ImplApply(impl, Digests, Recorded, wsIn, q.key, TargetOps) ELSE NoObject
  /\ UNCHANGED <<nl, dig, doc, def, impl, q, wsIn>>

RegisterAny == phase = "build" /\ \E i \in DOMAIN NameSeq : \E t \in RightTuples(nl) \cup WrongTuples(nl) : \E e \in BOOLEAN : Register(NameSeq[i], t, e)
LookupAny   == phase = "sealed" /\ DoLookup /\ \E k \in LookupKeys : Lookup(k)
VerifyAny   == phase = "sealed" /\ DoVerify /\ \E vd \in VariantsW0 : Verify(vd)
ApplyAny    == phase = "sealed" /\ DoApply /\ def.status = "ok" /\
                 \E k \in ApplyKeys : \E vd \in ApplyVariants : \E idx \in OpIdxLists : Apply(k, vd, idx)
Next == RegisterAny \/ Seal \/ LookupAny \/ VerifyAny \/ (\E vd2 \in VariantsW0 : Reverify(vd2)) \/ ApplyAny \/ Reapply
Spec == Init /\ [][Next]_vars

-----------------------------------------------------------------------------
(* invariants                                                                *)
\* the registered patches without their operation lists
Bare == [i \in DOMAIN doc |-> [name |-> doc[i].name, values |-> doc[i].values]]

RegisterIsAccept == (def.status = "ok") <=> Accept(nl, Bare)

TwoMapsExact == def.status = "ok" =>
  /\ def.n = Len(doc)
  /\ DOMAIN def.byName = {doc[i].name : i \in DOMAIN doc}
  /\ DOMAIN def.byValues = {doc[i].values : i \in DOMAIN doc}
  /\ \A i \in DOMAIN doc : def.byName[doc[i].name] = i /\ def.byValues[doc[i].values] = i

LookupExact == phase = "looked" =>
  LET k == q.key
      hitName(i)   == k.kind = "str" /\ doc[i].name = k.s
      hitValues(i) == k.kind \in {"tuple", "list"} /\ doc[i].values = k.t
  IN /\ dres.status \in {"patch", "raises"}
     /\ dres.status = "patch" => dres.i \in DOMAIN doc /\ (hitName(dres.i) \/ hitValues(dres.i))
     /\ dres.status = "raises" => "InvalidPatchLookup" \in dres.errs /\ \A i \in DOMAIN doc : ~hitName(i) /\ ~hitValues(i)

VariantsClassified == phase \in {"verified", "applied", "reapplied"} =>
  /\ q.vd.kind = "same" => wsIn = W0
  /\ q.vd.kind \in {"perm", "permall"} => wsIn # W0 /\ CanonEq(wsIn, W0)
  /\ q.vd.kind \in {"leaf", "swap"} => ~CanonEq(wsIn, W0)
  /\ wsIn = MkVariant(W0, q.vd)

VerifyIffRecorded == phase \in {"verified", "reverified"} =>
  ((dres.status = "ok") <=> \A i \in DOMAIN Digests : Canon(wsIn) = Canon(Recorded[Digests[i].of]))

ApplyPure == phase \in {"applied", "reapplied"} =>
  /\ wsIn = MkVariant(W0, q.vd)
  /\ dres.status = "ok" => /\ DefLookup(def, q.key).status = "patch"
                           /\ dres.result = JsonPatch(wsIn, doc[DefLookup(def, q.key).i].ops)
                           /\ dres.result # Conflict
  /\ dres.status \in {"ok", "raises"}

\* -- implementation-shaped layer against the definition layer ---------------------------------
Queried == phase \in {"looked", "verified", "reverified", "applied", "reapplied"}
ImplEqDef ==
  /\ phase # "build" => ((impl.status = "ok") <=> (def.status = "ok"))
  /\ Queried => SameVerdict(dres, ires)
UsesInternal == (\E i \in DOMAIN doc : doc[i].name \in Internal) \/ (q.key.kind = "str" /\ q.key.s \in Internal)
ImplEqDefOutsideInternal == ~UsesInternal => ImplEqDef
CollisionExplains == ~ImplEqDef =>
  \/ /\ impl.status = "InvalidPatchSet:name"                        \* constructor refuses the bookkeeping word as a duplicate name
     /\ \E i \in DOMAIN doc : doc[i].name \in Internal /\ \A j \in 1..(i - 1) : doc[j].name # doc[i].name
  \/ /\ Queried /\ q.key.kind = "str" /\ q.key.s \in Internal        \* ps['name'] hands out the bookkeeping dict / apply dies on it
     /\ (ires.status = "bookkeeping" \/ ires.errs = {"AttributeError"})
     /\ dres.status = "raises"

-----------------------------------------------------------------------------
(* case emission                                                             *)
Case == [phase |-> phase, nl |-> nl, dig |-> dig, digests |-> Digests, patches |-> doc,
         defstatus |-> def.status, implstatus |-> impl.status,
         key |-> q.key, vd |-> q.vd, opidx |-> q.opidx, w |-> wsIn, def |-> dres, impl |-> ires,
         target |-> DefLookup(def, q.key).i,                                   \* the patch the key designates (0: none)
         canon |-> {i \in DOMAIN Recorded : CanonEq(wsIn, Recorded[i])}]     \* which recorded documents the input equals canonically

NameIdx(s) == CHOOSE i \in DOMAIN NameSeq : NameSeq[i] = s
RECURSIVE TupCode(_)
TupCode(t) == IF t = <<>> THEN 1 ELSE (t[1][1] * 2 + t[1][2]) + 5 * TupCode(Tail(t))
RECURSIVE DocCode(_)
DocCode(i) == IF i > Len(doc) THEN 0 ELSE i * i * (NameIdx(doc[i].name) * 13 + TupCode(doc[i].values)) + DocCode(i + 1)
RECURSIVE SeqCode(_)
SeqCode(s) == IF s = <<>> THEN 0 ELSE Head(s) + 17 * SeqCode(Tail(s))
Hash == DocCode(1) * 7 + nl + dig * 3 + Len(q.key.kind) * 5 + Len(q.key.s) + TupCode(q.key.t) * 11
        + Len(q.vd.path) + Len(q.vd.how) + SeqCode(q.opidx) + (IF phase = "reapplied" THEN 1 ELSE 0)
\* sealed and verified states are always printed, and so are applications by a bookkeeping word; the rest is sampled
Emit == (EmitCases /\ phase # "build"
         /\ (\/ phase \in {"sealed", "verified", "reverified"}
             \/ phase \in {"applied", "reapplied"} /\ q.key.kind = "str" /\ q.key.s \in Internal /\ dres.status = "raises"
             \/ Hash % EmitMod = EmitRes))
        => PrintT(ToJson(Case))
ASSUME EmitCases => PrintT(ToJson([header |-> TRUE, keyorder |-> KeyOrder, recorded |-> Recorded, atoms |-> AtomSeq]))
=============================================================================
