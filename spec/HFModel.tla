------------------------------ MODULE HFModel ------------------------------
(***************************************************************************)
(* Executable, exact reference model of pyhf.Model.                        *)
(*                                                                         *)
(* Two layers over the same datatype of specifications:                    *)
(*   Def*  : the HistFactory semantics the way properties C01/C02/C10/C12  *)
(*           state it (per channel, per declared sample, per declared      *)
(*           modifier, parameters identified by name);                      *)
(*   Impl* : pyhf's construction transcribed step by step (sorted summary, *)
(*           mega-channel masks, builders' required_parsets order,         *)
(*           paramset creation order and slices, ParamViewer index          *)
(*           selections with batch stride, per-type access fields,          *)
(*           where(mask, value, neutral), sum/product/clip, constraint      *)
(*           running index).                                                *)
(* MC_HFModel checks Impl = Def on every small specification; the harness  *)
(* replays the Def values into the real pyhf.                               *)
(*                                                                         *)
(* Names are naturals (string order = numeric order, the harness maps them *)
(* to an order preserving pool of strings).  Modifier types are 1..7 in    *)
(* pyhf.modifiers.histfactory_set order, which is also their string order: *)
(*   1 histosys 2 lumi 3 normfactor 4 normsys 5 shapefactor 6 shapesys     *)
(*   7 staterror                                                            *)
(***************************************************************************)
EXTENDS Rat, FiniteSets, TLC

HISTOSYS == 1  LUMI == 2  NORMFACTOR == 3  NORMSYS == 4
SHAPEFACTOR == 5  SHAPESYS == 6  STATERROR == 7
Types == 1..7
IsAdditive(t) == t = HISTOSYS
BinWise(t)    == t \in {SHAPEFACTOR, SHAPESYS, STATERROR}
Constrained(t) == t \in {HISTOSYS, LUMI, NORMSYS, SHAPESYS, STATERROR}

-----------------------------------------------------------------------------
(* generic helpers *)
Range(f) == {f[x] : x \in DOMAIN f}
RECURSIVE SortSet(_)
SortSet(S) == IF S = {} THEN <<>>
              ELSE LET m == CHOOSE x \in S : \A y \in S : x <= y
                   IN  <<m>> \o SortSet(S \ {m})
\* sort a set of <<name, type>> pairs lexicographically (Python tuple order)
PairKey(p) == p[1] * 16 + p[2]
RECURSIVE SortPairs(_)
SortPairs(S) == IF S = {} THEN <<>>
                ELSE LET m == CHOOSE x \in S : \A y \in S : PairKey(x) <= PairKey(y)
                     IN  <<m>> \o SortPairs(S \ {m})
RECURSIVE Flatten(_)
Flatten(ss) == IF ss = <<>> THEN <<>> ELSE Head(ss) \o Flatten(Tail(ss))
IndexOf(seq, x) == CHOOSE i \in DOMAIN seq : seq[i] = x
Has(seq, x) == \E i \in DOMAIN seq : seq[i] = x
MaxOf(S) == CHOOSE x \in S : \A y \in S : y <= x
\* append the elements of seq b that are not yet in seq a, keeping order
RECURSIVE AppendNew(_, _)
AppendNew(a, b) == IF b = <<>> THEN a
                   ELSE AppendNew(IF Has(a, Head(b)) THEN a ELSE Append(a, Head(b)), Tail(b))
SumNat(f) == LET RECURSIVE S(_)
                 S(D) == IF D = {} THEN 0 ELSE LET x == CHOOSE x \in D : TRUE IN f[x] + S(D \ {x})
             IN S(DOMAIN f)

-----------------------------------------------------------------------------
(* Specifications.                                                          *)
(*  spec = [channels : Seq([name, samples : Seq([name, data : Seq(Rat),     *)
(*                           mods : Seq([name, type, d1, d2])])]),          *)
(*          pars : Seq([name, inits, bounds, fixed, auxdata, sigmas,        *)
(*                      factors])   (empty sequence = field absent),        *)
(*          poi : name or 0]                                                 *)
(*  d1/d2: histosys lo_data/hi_data; normsys <<lo>>/<<hi>>; shapesys and    *)
(*  staterror data/<<>>; others <<>>/<<>>.  Listing order is data.          *)
(***************************************************************************)
NoMod == [name |-> 0, type |-> 0, d1 |-> <<>>, d2 |-> <<>>]
NoSample == [name |-> 0, data |-> <<>>, mods |-> <<>>]

ChanIdx(spec, c) == MaxOf({i \in DOMAIN spec.channels : spec.channels[i].name = c})  \* dict: last wins
Chan(spec, c)    == spec.channels[ChanIdx(spec, c)]
SampleAt(spec, c, s) ==
    LET ch == Chan(spec, c)
        I  == {j \in DOMAIN ch.samples : ch.samples[j].name = s}
    IN  IF I = {} THEN NoSample ELSE ch.samples[MaxOf(I)]
ModAt(spec, c, s, key) ==      \* key = <<name, type>>
    LET sm == SampleAt(spec, c, s)
        I  == {k \in DOMAIN sm.mods : sm.mods[k].name = key[1] /\ sm.mods[k].type = key[2]}
    IN  IF I = {} THEN NoMod ELSE sm.mods[MaxOf(I)]
ParCfgOf(spec, n) ==
    LET I == {i \in DOMAIN spec.pars : spec.pars[i].name = n}
    IN  IF I = {} THEN [name |-> n, inits |-> <<>>, bounds |-> <<>>, fixed |-> <<>>,
                        auxdata |-> <<>>, sigmas |-> <<>>, factors |-> <<>>]
        ELSE spec.pars[MaxOf(I)]

-----------------------------------------------------------------------------
(* Interpolation, published formulas (HFInterp.tla proves their anchors,    *)
(* continuity and the code-4 matrix identity; here they are used as given). *)
(* code: 0, 1, 2, 4, 44 (= "4p").  All arguments rational.                  *)
I0(dn, n, up, a) == IF RGe(a, RZero) THEN RMul(a, RSub(up, n)) ELSE RMul(a, RSub(n, dn))
I2(dn, n, up, a) ==
    LET A == RSub(RDiv(RAdd(up, dn), R(2)), n)
        B == RDiv(RSub(up, dn), R(2))
    IN  IF RGt(a, ROne)  THEN RAdd(RMul(RAdd(B, RMul(R(2), A)), RSub(a, ROne)), RAdd(A, B))
        ELSE IF RLt(a, R(-1)) THEN RAdd(RMul(RSub(B, RMul(R(2), A)), RAdd(a, ROne)), RSub(A, B))
        ELSE RAdd(RMul(A, RMul(a, a)), RMul(B, a))
I4p(dn, n, up, a) ==
    LET du == RSub(up, n)  dd == RSub(n, dn)
        S  == RDiv(RAdd(du, dd), R(2))
        Aa == RDiv(RSub(du, dd), R(16))
        a2 == RMul(a, a)
    IN  IF RGt(a, ROne) THEN RMul(a, du)
        ELSE IF RLt(a, R(-1)) THEN RMul(a, dd)
        ELSE RMul(a, RAdd(S, RMul(RMul(a, Aa),
                 RAdd(R(15), RMul(a2, RAdd(R(-10), RMul(R(3), a2)))))))
\* multiplicative codes are rational only at integer alpha; for code 4 only outside
\* the polynomial core (|alpha| >= alpha0 = 1) or at 0.  The point grids respect that.
I1(dn, n, up, a) == IF a[1] >= 0 THEN RPow(RDiv(up, n), a[1]) ELSE RPow(RDiv(dn, n), -a[1])
ExactFactorPoint(code, a) == RIsInt(a) /\ (code = 1 \/ a[1] # 0 \/ TRUE)
InterpDelta(code, dn, n, up, a) ==
    CASE code = 0  -> I0(dn, n, up, a)
      [] code = 2  -> I2(dn, n, up, a)
      [] code = 44 -> I4p(dn, n, up, a)
InterpFactor(code, dn, n, up, a) == I1(dn, n, up, a)   \* codes 1 and 4 agree on integers

-----------------------------------------------------------------------------
(* Implementation layer 1: channel summary (mixins._ChannelSummaryMixin)    *)
ChannelSeq(spec) == SortSet({spec.channels[i].name : i \in DOMAIN spec.channels})
SampleSeq(spec)  == SortSet(UNION {{spec.channels[i].samples[j].name :
                        j \in DOMAIN spec.channels[i].samples} : i \in DOMAIN spec.channels})
ModifierSeq(spec) == SortPairs(UNION {UNION {
                        {<<spec.channels[i].samples[j].mods[k].name, spec.channels[i].samples[j].mods[k].type>> :
                            k \in DOMAIN spec.channels[i].samples[j].mods} :
                        j \in DOMAIN spec.channels[i].samples} : i \in DOMAIN spec.channels})
NBins(spec, c) == Len(Chan(spec, c).samples[1].data)     \* first listed sample decides

(* paramset requirement of one declared modifier (modifiers/*.py:required_parset) *)
\* shapesys: tau = (nom/unc)^2 on valid bins, 1 and fixed otherwise
ShapesysFactors(data, unc) ==
    [b \in 1..(IF Len(data) < Len(unc) THEN Len(data) ELSE Len(unc)) |->
        IF RGt(data[b], RZero) /\ RGt(unc[b], RZero)
        THEN RMul(RDiv(data[b], unc[b]), RDiv(data[b], unc[b])) ELSE ROne]
ShapesysFixed(data, unc) ==
    [b \in 1..(IF Len(data) < Len(unc) THEN Len(data) ELSE Len(unc)) |->
        ~(RGt(data[b], RZero) /\ RGt(unc[b], RZero))]

-----------------------------------------------------------------------------
(* Implementation layer 2: Build = pdf.Model.__init__ up to the appliers.   *)
(* Everything derived once per model lives in the record MkCfg returns.     *)
MkCfg(spec) ==
  LET chans  == ChannelSeq(spec)
      samps  == SampleSeq(spec)
      mods   == ModifierSeq(spec)
      nb     == [c \in Range(chans) |-> NBins(spec, c)]
      cstart == [i \in 1..Len(chans) |-> SumNat([j \in 1..(i-1) |-> nb[chans[j]]])]
      nG     == SumNat([i \in 1..Len(chans) |-> nb[chans[i]]])
      \* global bin g (1-based) -> <<channel name, local bin (1-based)>>
      gcell  == [g \in 1..nG |->
                   LET i == MaxOf({i \in 1..Len(chans) : cstart[i] < g})
                   IN  <<chans[i], g - cstart[i], i>>]
      \* the helper dictionary of step 2, tabulated: sample and modifier of every mega-cell
      smpT   == [i \in 1..Len(chans) |-> [j \in 1..Len(samps) |-> SampleAt(spec, chans[i], samps[j])]]
      modT   == [i \in 1..Len(chans) |-> [j \in 1..Len(samps) |-> [k \in 1..Len(mods) |->
                   ModAt(spec, chans[i], samps[j], mods[k])]]]
      maskT  == [k \in 1..Len(mods) |-> [j \in 1..Len(samps) |-> [g \in 1..nG |->
                   modT[gcell[g][3]][j][k] # NoMod]]]
      \* shapesys/staterror _reindex_access_field: the LAST sample with any true mask decides
      \* where the parameter components are scattered (0 = not scattered, reads flat index 0);
      \* shapefactor: component = channel-local bin while it exists, else flat index 0
      accT   == [k \in 1..Len(mods) |->
                   IF mods[k][2] \in {SHAPESYS, STATERROR}
                   THEN LET jl  == MaxOf({jj \in 1..Len(samps) : \E h \in 1..nG : maskT[k][jj][h]})
                            pos == SortSet({h \in 1..nG : maskT[k][jl][h]})
                        IN [g \in 1..nG |-> IF maskT[k][jl][g] THEN IndexOf(pos, g) ELSE 0]
                   ELSE IF mods[k][2] = SHAPEFACTOR
                   THEN [g \in 1..nG |-> gcell[g][2]]
                   ELSE <<>>]
      \* the walk of step 3: (channel, sample, modifier) in sorted order, defined cells only
      walk   == Flatten([i \in 1..Len(chans) |-> Flatten([j \in 1..Len(samps) |->
                   Flatten([k \in 1..Len(mods) |->
                      IF ModAt(spec, chans[i], samps[j], mods[k]) # NoMod
                      THEN << <<chans[i], samps[j], mods[k]>> >> ELSE <<>>])])])
      \* required_parsets key order of a non-staterror builder: first defined occurrence
      ReqOrder(t) == IF t = STATERROR
                     THEN LET ks == {k \in 1..Len(mods) : mods[k][2] = STATERROR}
                          IN  [i \in 1..Cardinality(ks) |-> mods[SortSet(ks)[i]][1]]
                     ELSE LET RECURSIVE W(_, _)
                              W(acc, i) == IF i > Len(walk) THEN acc
                                           ELSE W(IF walk[i][3][2] = t /\ ~Has(acc, walk[i][3][1])
                                                  THEN Append(acc, walk[i][3][1]) ELSE acc, i + 1)
                          IN W(<<>>, 1)
      \* first (channel, sample) at which <<name, t>> is defined (setdefault keeps the first)
      FirstCell(n, t) == LET i == CHOOSE i \in 1..Len(walk) :
                                     /\ walk[i][3] = <<n, t>>
                                     /\ \A j \in 1..(i-1) : walk[j][3] # <<n, t>>
                         IN <<walk[i][1], walk[i][2]>>
      \* _required_paramsets: builders visited in histfactory_set order
      RECURSIVE POrder(_, _)
      POrder(acc, t) == IF t > 7 THEN acc ELSE POrder(AppendNew(acc, ReqOrder(t)), t + 1)
      parOrder == POrder(<<>>, 1)
      \* the type whose requirement is listed first for this name
      FirstType(n) == CHOOSE t \in Types : Has(ReqOrder(t), n) /\ \A u \in 1..(t-1) : ~Has(ReqOrder(u), n)
      \* staterror mask bins: bins of the first sample (dict order = sorted samples) with a true mask
      StatSample(n) == CHOOSE j \in 1..Len(samps) :
                          /\ \E g \in 1..nG : ModAt(spec, gcell[g][1], samps[j], <<n, STATERROR>>) # NoMod
                          /\ \A jj \in 1..(j-1) : \A g \in 1..nG :
                                ModAt(spec, gcell[g][1], samps[jj], <<n, STATERROR>>) = NoMod
      StatBins(n) == LET j == StatSample(n)
                     IN  SortSet({g \in 1..nG : ModAt(spec, gcell[g][1], samps[j], <<n, STATERROR>>) # NoMod})
      PSize(n) == LET t == FirstType(n) IN
                  CASE t \in {HISTOSYS, LUMI, NORMFACTOR, NORMSYS} -> 1
                    [] t = SHAPEFACTOR -> LET fc == FirstCell(n, t) IN Len(SampleAt(spec, fc[1], fc[2]).data)
                    [] t = SHAPESYS    -> LET fc == FirstCell(n, t)
                                              dl == Len(SampleAt(spec, fc[1], fc[2]).data)
                                              ul == Len(ModAt(spec, fc[1], fc[2], <<n, t>>).d1)
                                          IN  IF dl < ul THEN dl ELSE ul
                    [] t = STATERROR   -> Len(StatBins(n))
      psize  == [n \in Range(parOrder) |-> PSize(n)]
      pstart == [i \in 1..Len(parOrder) |-> SumNat([j \in 1..(i-1) |-> psize[parOrder[j]]])]
      npars  == SumNat([i \in 1..Len(parOrder) |-> psize[parOrder[i]]])
      ptype  == [n \in Range(parOrder) |-> FirstType(n)]
  IN [ channels |-> chans, samples |-> samps, modifiers |-> mods, nbins |-> nb,
       cstart |-> [i \in 1..Len(chans) |-> cstart[i]], nG |-> nG, gcell |-> gcell,
       parOrder |-> parOrder, psize |-> psize,
       pstart |-> [n \in Range(parOrder) |-> pstart[IndexOf(parOrder, n)]],
       npars |-> npars, ptype |-> ptype, smp |-> smpT, md |-> modT, mask |-> maskT, acc |-> accT,
       firstCell |-> [n \in Range(parOrder) |-> IF ptype[n] = STATERROR THEN <<0, 0>> ELSE FirstCell(n, ptype[n])],
       statBins |-> [n \in {m \in Range(parOrder) : ptype[m] = STATERROR} |-> StatBins(n)] ]

-----------------------------------------------------------------------------
(* staterror widths (staterror_builder.finalize): per global bin of the     *)
(* modifier, delta^2 = sum_s unc_s^2 / (sum_{s with the modifier} nom_s)^2  *)
(* -- kept as a variance, the square root is taken by the leaf evaluator.   *)
StatVar(spec, cfg, n, g) ==
    LET c   == cfg.gcell[g][1]   b == cfg.gcell[g][2]
        key == <<n, STATERROR>>
        \* samples that carry the modifier ANYWHERE (mask.any()) contribute their nominal here
        part == {j \in 1..Len(cfg.samples) : \E h \in 1..cfg.nG :
                    ModAt(spec, cfg.gcell[h][1], cfg.samples[j], key) # NoMod}
        nomOf(j) == LET sm == SampleAt(spec, c, cfg.samples[j])
                    IN IF sm = NoSample THEN RZero ELSE sm.data[b]
        uncOf(j) == LET md == ModAt(spec, c, cfg.samples[j], key)
                    IN IF md = NoMod THEN RZero ELSE md.d1[b]
        nomsall == RSumSeq([i \in 1..Cardinality(part) |-> nomOf(SortSet(part)[i])])
    IN  IF RGt(nomsall, RZero)
        THEN RSumSeq([j \in 1..Len(cfg.samples) |->
                 RMul(RDiv(uncOf(j), nomsall), RDiv(uncOf(j), nomsall))])
        ELSE RZero

(* Paramset defaults per parameter name after reduce_paramsets_requirements *)
(* and the measurement overrides; each a sequence with one entry per        *)
(* component.  var = constraint variance (normal), tau = Poisson factor.    *)
ParamInfo(spec, cfg, n) ==
  LET t   == cfg.ptype[n]
      k   == cfg.psize[n]
      uc  == ParCfgOf(spec, n)
      fc  == cfg.firstCell[n]
      Rep(x) == [i \in 1..k |-> x]
      dInit == CASE t \in {HISTOSYS, NORMSYS} -> Rep(RZero)
                 [] t = LUMI -> <<>>                       \* None: must come from the measurement
                 [] OTHER -> Rep(ROne)
      dBnd  == CASE t \in {HISTOSYS, NORMSYS} -> Rep(<<R(-5), R(5)>>)
                 [] t = LUMI -> <<>>
                 [] t = NORMFACTOR -> Rep(<<RZero, R(10)>>)
                 [] t = SHAPEFACTOR -> Rep(<<RZero, R(10)>>)
                 [] OTHER -> Rep(<<<<1, 10000>>, R(10)>>)   \* 1e-10 rendered as a marker, see harness
      ssFac == IF t = SHAPESYS THEN ShapesysFactors(SampleAt(spec, fc[1], fc[2]).data,
                                                    ModAt(spec, fc[1], fc[2], <<n, t>>).d1) ELSE <<>>
      ssFix == IF t = SHAPESYS THEN ShapesysFixed(SampleAt(spec, fc[1], fc[2]).data,
                                                  ModAt(spec, fc[1], fc[2], <<n, t>>).d1) ELSE <<>>
      stVar == IF t = STATERROR THEN [i \in 1..k |-> StatVar(spec, cfg, n, cfg.statBins[n][i])] ELSE <<>>
      dFix  == CASE t = SHAPESYS -> ssFix
                 [] t = STATERROR -> [i \in 1..k |-> stVar[i] = RZero]
                 [] OTHER -> Rep(FALSE)
      dAux  == CASE t \in {HISTOSYS, NORMSYS} -> Rep(RZero)
                 [] t = STATERROR -> Rep(ROne)
                 [] t = SHAPESYS -> ssFac
                 [] OTHER -> <<>>
      dVar  == CASE t \in {HISTOSYS, NORMSYS} -> Rep(ROne)
                 [] t = STATERROR -> [i \in 1..k |-> IF stVar[i] = RZero THEN ROne ELSE stVar[i]]
                 [] OTHER -> <<>>
  IN [ type  |-> t, size |-> k,
       init  |-> IF uc.inits # <<>> THEN uc.inits ELSE dInit,
       bounds |-> IF uc.bounds # <<>> THEN uc.bounds ELSE dBnd,
       fixed |-> IF uc.fixed # <<>> THEN Rep(uc.fixed[1]) ELSE dFix,
       aux   |-> IF ~Constrained(t) THEN <<>> ELSE IF uc.auxdata # <<>> THEN uc.auxdata ELSE dAux,
       \* normal constraint: sigmas given by the user are widths, squared here
       var   |-> IF t \in {HISTOSYS, NORMSYS, STATERROR, LUMI}
                 THEN (IF uc.sigmas # <<>> THEN [i \in 1..Len(uc.sigmas) |-> RMul(uc.sigmas[i], uc.sigmas[i])] ELSE dVar)
                 ELSE <<>>,
       tau   |-> IF t = SHAPESYS THEN (IF uc.factors # <<>> THEN uc.factors ELSE ssFac) ELSE <<>> ]

AuxOrder(cfg) == LET RECURSIVE F(_)
                     F(i) == IF i > Len(cfg.parOrder) THEN <<>>
                             ELSE (IF Constrained(cfg.ptype[cfg.parOrder[i]]) THEN <<cfg.parOrder[i]>> ELSE <<>>) \o F(i + 1)
                 IN F(1)

-----------------------------------------------------------------------------
(* Implementation layer 3: evaluation.                                      *)
(* pars: flat sequence of length B*npars (row-major), B >= 1.               *)
(* set = [hcode, ncode, clipS, clipB]; clip = <<>> (None) or <<rat>>.        *)
Sel(cfg, n, row) == [i \in 1..cfg.psize[n] |-> row * cfg.npars + cfg.pstart[n] + i]   \* 1-based flat index

ImplModValue(cfg, set, pars, k, j, row, g) ==
  LET n == cfg.modifiers[k][1]  t == cfg.modifiers[k][2]
      ci == cfg.gcell[g][3]   b == cfg.gcell[g][2]
      md == cfg.md[ci][j][k]
      sm == cfg.smp[ci][j]
      nomv == IF sm = NoSample THEN RZero ELSE sm.data[b]
      mask == cfg.mask[k][j][g]
      sel == Sel(cfg, n, row)
  IN CASE t = HISTOSYS ->
            IF mask THEN InterpDelta(set.hcode, md.d1[b], nomv, md.d2[b], pars[sel[1]]) ELSE RZero
       [] t = NORMSYS ->
            IF mask THEN InterpFactor(set.ncode, md.d1[1], ROne, md.d2[1], pars[sel[1]]) ELSE ROne
       [] t \in {NORMFACTOR, LUMI} ->
            IF mask THEN pars[sel[1]] ELSE ROne
       [] t \in {SHAPESYS, STATERROR} ->
            LET a == cfg.acc[k][g]  flat == IF a = 0 THEN 1 ELSE sel[a]
            IN  IF mask THEN pars[flat] ELSE ROne
       [] t = SHAPEFACTOR ->
            LET a == cfg.acc[k][g]  flat == IF a <= Len(sel) THEN sel[a] ELSE 1
            IN  IF mask THEN pars[flat] ELSE ROne

ClipR(clip, x) == IF clip = <<>> THEN x ELSE RMax(x, clip[1])

\* per (sample index, row, global bin) rate after the per-sample clip
ImplBySample(cfg, set, pars, j, row, g) ==
  LET sm == cfg.smp[cfg.gcell[g][3]][j]
      nomv == IF sm = NoSample THEN RZero ELSE sm.data[cfg.gcell[g][2]]
      adds == [k \in 1..Len(cfg.modifiers) |->
                 IF IsAdditive(cfg.modifiers[k][2])
                 THEN ImplModValue(cfg, set, pars, k, j, row, g) ELSE RZero]
      facs == [k \in 1..Len(cfg.modifiers) |->
                 IF IsAdditive(cfg.modifiers[k][2]) THEN ROne
                 ELSE ImplModValue(cfg, set, pars, k, j, row, g)]
  IN ClipR(set.clipS, RMul(RProdSeq(facs), RAdd(nomv, RSumSeq(adds))))

ImplRates(cfg, set, pars, B) ==
  [row \in 1..B |-> [g \in 1..cfg.nG |->
      ClipR(set.clipB, RSumSeq([j \in 1..Len(cfg.samples) |->
                                   ImplBySample(cfg, set, pars, j, row - 1, g)]))]]

-----------------------------------------------------------------------------
(* Definition layer (C01): per channel, per DECLARED sample, per DECLARED    *)
(* modifier; theta is a function  name -> sequence of components.           *)
DefFactorOrDelta(set, sm, md, theta, b) ==
  LET v == theta[md.name] IN
  CASE md.type = HISTOSYS -> InterpDelta(set.hcode, md.d1[b], sm.data[b], md.d2[b], v[1])
    [] md.type = NORMSYS  -> InterpFactor(set.ncode, md.d1[1], ROne, md.d2[1], v[1])
    [] md.type \in {NORMFACTOR, LUMI} -> v[1]
    [] OTHER -> v[b]          \* bin-wise: the component of the channel-local bin

DefSampleRate(set, sm, theta, b) ==
  LET adds == [k \in 1..Len(sm.mods) |-> IF IsAdditive(sm.mods[k].type)
                   THEN DefFactorOrDelta(set, sm, sm.mods[k], theta, b) ELSE RZero]
      facs == [k \in 1..Len(sm.mods) |-> IF IsAdditive(sm.mods[k].type) THEN ROne
                   ELSE DefFactorOrDelta(set, sm, sm.mods[k], theta, b)]
  IN ClipR(set.clipS, RMul(RProdSeq(facs), RAdd(sm.data[b], RSumSeq(adds))))

\* rates of channel c (a name) as a sequence over its bins
DefChannelRates(spec, set, theta, c) ==
  LET ch == Chan(spec, c) IN
  [b \in 1..Len(ch.samples[1].data) |->
      ClipR(set.clipB, RSumSeq([j \in 1..Len(ch.samples) |-> DefSampleRate(set, ch.samples[j], theta, b)]))]

(* Symbolic lane: at a non-integer alpha the multiplicative interpolation codes (1, 4) are transcendental.  The rate of   *)
(* a sample is then  coef * prod atoms  with an exact rational coef (all other factors times nominal plus shifts) and one *)
(* atom [lo, hi, alpha] per normsys modifier; the leaf evaluator supplies the atoms' values (code 1: power; code 4: power  *)
(* outside the core, the A_inverse polynomial inside).  No clipping in this lane.                                         *)
DefSampleSym(set, sm, theta, b) ==
  LET adds == [k \in 1..Len(sm.mods) |-> IF IsAdditive(sm.mods[k].type)
                   THEN DefFactorOrDelta(set, sm, sm.mods[k], theta, b) ELSE RZero]
      facs == [k \in 1..Len(sm.mods) |-> IF IsAdditive(sm.mods[k].type) \/ sm.mods[k].type = NORMSYS THEN ROne
                   ELSE DefFactorOrDelta(set, sm, sm.mods[k], theta, b)]
      nsK  == {k \in 1..Len(sm.mods) : sm.mods[k].type = NORMSYS}
  IN [coef |-> RMul(RProdSeq(facs), RAdd(sm.data[b], RSumSeq(adds))),
      atoms |-> [q \in 1..Cardinality(nsK) |-> LET k == SortSet(nsK)[q] IN
                   [lo |-> sm.mods[k].d1[1], hi |-> sm.mods[k].d2[1], alpha |-> theta[sm.mods[k].name][1]]]]
DefChannelSym(spec, set, theta, c) ==
  LET ch == Chan(spec, c) IN
  [b \in 1..Len(ch.samples[1].data) |-> [j \in 1..Len(ch.samples) |-> DefSampleSym(set, ch.samples[j], theta, b)]]

\* theta (by name) extracted from a flat row through a layout (start, size per name)
ThetaOf(cfg, pars, row) == [n \in Range(cfg.parOrder) |-> [i \in 1..cfg.psize[n] |-> pars[Sel(cfg, n, row)[i]]]]

DefRates(spec, cfg, set, pars, B) ==
  [row \in 1..B |-> Flatten([i \in 1..Len(cfg.channels) |->
        DefChannelRates(spec, set, ThetaOf(cfg, pars, row - 1), cfg.channels[i])])]

-----------------------------------------------------------------------------
(* Likelihood term structure (C02).  A term is a record                      *)
(*   [k |-> "pois", n |-> datum, lam |-> rate]                               *)
(*   [k |-> "norm", x |-> datum, mu |-> mean, var |-> variance]              *)
(* data = main data (per global bin) \o aux data (config order).             *)
DefTerms(spec, cfg, set, pars, row, data) ==
  LET rates == DefRates(spec, cfg, set, pars, row + 1)[row + 1]
      theta == ThetaOf(cfg, pars, row)
      ao    == AuxOrder(cfg)
      \* position of component i of constrained name n in the aux vector
      auxpos(n, i) == cfg.nG + SumNat([q \in 1..(IndexOf(ao, n) - 1) |-> cfg.psize[ao[q]]]) + i
      main  == [g \in 1..cfg.nG |-> [k |-> "pois", n |-> data[g], lam |-> rates[g]]]
      cons  == Flatten([q \in 1..Len(ao) |->
                 LET n == ao[q]  pi == ParamInfo(spec, cfg, n) IN
                 [i \in 1..cfg.psize[n] |->
                    IF pi.type = SHAPESYS
                    THEN [k |-> "pois", n |-> data[auxpos(n, i)], lam |-> RMul(theta[n][i], pi.tau[i])]
                    ELSE [k |-> "norm", x |-> data[auxpos(n, i)], mu |-> theta[n][i], var |-> pi.var[i]]]])
  IN [main |-> main, cons |-> cons]

(* implementation: running start_index over auxdata_order, Gaussian and      *)
(* Poisson constraints collected separately, paired by position with the     *)
(* viewer's concatenated index selection                                     *)
ImplConsTerms(spec, cfg, pars, row, data) ==
  LET ao == AuxOrder(cfg)
      RECURSIVE Walk(_, _, _, _)
      \* acc = <<normal data idx, normal par idx, normal var, poisson data idx, poisson par idx, poisson fac>>
      Walk(q, start, accN, accP) ==
         IF q > Len(ao) THEN <<accN, accP>>
         ELSE LET n == ao[q]  k == cfg.psize[n]  pi == ParamInfo(spec, cfg, n)
                  ent == [i \in 1..k |-> [d |-> start + i, p |-> Sel(cfg, n, row)[i],
                                          w |-> IF pi.type = SHAPESYS THEN pi.tau[i] ELSE pi.var[i]]]
              IN IF pi.type = SHAPESYS THEN Walk(q + 1, start + k, accN, accP \o ent)
                 ELSE Walk(q + 1, start + k, accN \o ent, accP)
      w == Walk(1, 0, <<>>, <<>>)
      aux(i) == data[cfg.nG + i]
  IN [norm |-> [i \in 1..Len(w[1]) |-> [k |-> "norm", x |-> aux(w[1][i].d), mu |-> pars[w[1][i].p], var |-> w[1][i].w]],
      pois |-> [i \in 1..Len(w[2]) |-> [k |-> "pois", n |-> aux(w[2][i].d), lam |-> RMul(pars[w[2][i].p], w[2][i].w)]]]

SeqToBag(s) == [x \in Range(s) |-> Cardinality({i \in DOMAIN s : s[i] = x})]

-----------------------------------------------------------------------------
(* C12: the layout is a partition.  Stated over any reported layout.        *)
LayoutOK(order, start, size, npars) ==
  /\ \A i \in 1..Len(order) : \A j \in 1..Len(order) : i # j => order[i] # order[j]
  /\ (Len(order) > 0 => start[order[1]] = 0)
  /\ \A i \in 1..(Len(order) - 1) : start[order[i]] + size[order[i]] = start[order[i + 1]]
  /\ (Len(order) > 0 => start[order[Len(order)]] + size[order[Len(order)]] = npars)
  /\ \A i \in 1..Len(order) : size[order[i]] >= 1
=============================================================================
