--------------------------- MODULE TraceTestStat ---------------------------
(***************************************************************************)
(* Binding B for C06: one trace = one call of a test statistic on the real *)
(* pyhf:  ts.call (kind, mu, poi index; logged by the driver at entry),    *)
(* the H4 records of the two fits it runs, ts.return (value, fitted pars;  *)
(* logged at return).  The inner fits are validated with the Fit protocol  *)
(* (TraceFit), and on top of it:                                            *)
(*   Wiring    first fit = conditional fit with the POI fixed at mu (at 0  *)
(*             for q0, whatever was passed); second fit leaves the POI free; *)
(*             BOTH fits hold exactly the parameters the caller holds fixed  *)
(*             (ts.call.held: index/value pairs of the caller's fixed_params *)
(*             mask other than the POI), at the caller's values             *)
(*   Value     result = Stat(kind, muhat, mu, d) EXACTLY, with              *)
(*             d = fun(first) - fun(second) (floating subtraction done by    *)
(*             the driver from the two validated objective values), muhat =  *)
(*             POI of the second fit, comparisons in the order lane          *)
(*   Pars      the fitted parameters returned are those of the two fits      *)
(***************************************************************************)
EXTENDS TraceFit

VARIABLES ts, nfit, f1, f2, x1, x2
tvars == <<vars, ts, nfit, f1, f2, x1, x2>>

Zero == <<524288, 0, 0>>          \* order-lane key of 0.0
NoTs == [kind |-> "none"]
TInit == Init /\ ts = NoTs /\ nfit = 0 /\ f1 = <<>> /\ f2 = <<>> /\ x1 = <<>> /\ x2 = <<>>

TsCall ==
  /\ Is("ts.call") /\ phase = "idle" /\ ts = NoTs /\ Consume
  /\ ts' = Ev /\ nfit' = 0
  /\ UNCHANGED <<phase, shim, raw, f1, f2, x1, x2>>

MuEff == IF ts.kind = "q0" THEN Zero ELSE ts.mu
WShim ==
  /\ TShim
  /\ ts # NoTs /\ nfit < 2
  /\ IF nfit = 0
     THEN \E k \in DOMAIN Ev.fixed_vals : Ev.fixed_vals[k][1] = ts.poi /\ Ev.fixed_vals[k][2] = MuEff
     ELSE ts.poi \notin {Ev.fixed_vals[k][1] : k \in DOMAIN Ev.fixed_vals}
  \* the caller's own mask reaches both fits: same indices (apart from the POI), same values
  /\ {Ev.fixed_vals[k][1] : k \in DOMAIN Ev.fixed_vals} \ {ts.poi} = {ts.held[h][1] : h \in DOMAIN ts.held}
  /\ \A h \in DOMAIN ts.held : \E k \in DOMAIN Ev.fixed_vals : Ev.fixed_vals[k] = ts.held[h]
  /\ UNCHANGED <<ts, nfit, f1, f2, x1, x2>>
WRaw == TRaw /\ UNCHANGED <<ts, nfit, f1, f2, x1, x2>>
WReturn ==
  /\ TReturn
  /\ nfit' = nfit + 1
  /\ IF nfit = 0 THEN f1' = Ev.fun /\ x1' = Ev.x /\ UNCHANGED <<f2, x2>>
                 ELSE f2' = Ev.fun /\ x2' = Ev.x /\ UNCHANGED <<f1, x1>>
  /\ UNCHANGED ts

T(d) == IF Lt(d, Zero) THEN Zero ELSE d
Stat(k, muhat, mu, d) ==
  CASE k \in {"t", "ttilde"} -> T(d)
    [] k \in {"q", "qtilde"} -> IF Lt(mu, muhat) THEN Zero ELSE T(d)
    [] k = "q0" -> IF Lt(muhat, Zero) THEN Zero ELSE T(d)

TsReturn ==
  /\ Is("ts.return") /\ phase = "idle" /\ ts # NoTs /\ nfit = 2 /\ Consume
  /\ Ev.f1 = f1 /\ Ev.f2 = f2                          \* d was formed from the two validated objective values
  /\ Ev.result = Stat(ts.kind, x2[ts.poi + 1], ts.mu, Ev.d)
  /\ Le(Zero, Ev.result)                               \* non-negative
  /\ Ev.pars1 = x1 /\ Ev.pars2 = x2
  /\ ts' = NoTs /\ nfit' = 0 /\ f1' = <<>> /\ f2' = <<>> /\ x1' = <<>> /\ x2' = <<>>
  /\ UNCHANGED <<phase, shim, raw>>

WNextTrace ==
  /\ tid <= Len(Traces) /\ l = Len(Tr.events) + 1 /\ phase = "idle" /\ ts = NoTs
  /\ PrintT(<<"TRACE-OK", Tr.id>>)
  /\ tid' = tid + 1 /\ l' = 1
  /\ UNCHANGED <<phase, shim, raw, ts, nfit, f1, f2, x1, x2>>

TNext == TsCall \/ WShim \/ WRaw \/ WReturn \/ TsReturn \/ WNextTrace
TraceSpec2 == TInit /\ [][TNext]_tvars
=============================================================================
