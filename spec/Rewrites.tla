------------------------------ MODULE Rewrites ------------------------------
(***************************************************************************)
(* C15: likelihood-preserving rewrites of a workspace as ACTIONS on        *)
(* specification values (the datatype of HFModel.tla).  The state carries  *)
(* the original specification w0, the rewritten one w, and the             *)
(* correspondence the rewrites maintain:                                   *)
(*   pmap   new parameter name -> old parameter name (0: a null systematic *)
(*          that did not exist before)                                     *)
(*   bmap   for every channel of w, per bin: <<old channel name, old bin>> *)
(*   scale  the POI of w equals scale * the POI of w0 ... i.e. a signal     *)
(*          rescaled by k divides the POI by k                              *)
(*   prog   the rewrite program (replayed on concrete JSON by the harness) *)
(* Invariant Preserves: at every grid point theta of w0, the rates of w at *)
(* the corresponding point equal the rates of w0 bin by bin, and the       *)
(* constraint terms are those of w0 plus one unit Gaussian per null        *)
(* systematic -- i.e. TLC proves within the bounds that each rewrite (and  *)
(* every composition) preserves the likelihood under the semantics of      *)
(* HFModel; a disagreement seen in the code is then the code's.            *)
(***************************************************************************)
EXTENDS HFModel, Json

CONSTANTS MaxOps, Seeds, EmitCases, EmitMod, EmitRes
VARIABLES seed, w, pmap, bmap, scale, prog
vars == <<seed, w, pmap, bmap, scale, prog>>

Set0 == [hcode |-> 44, ncode |-> 4, clipS |-> <<>>, clipB |-> <<>>]
MU == 4        \* name of the POI (a normfactor)

\* ---- seed workspaces (names: channels 1..3, samples 1..4, parameters as in harness/names.py)
Mod(n, t, d1, d2) == [name |-> n, type |-> t, d1 |-> d1, d2 |-> d2]
Rs(s) == [i \in DOMAIN s |-> R(s[i])]
SeedSpec3 ==      \* two backgrounds sharing a staterror (one of them with an EMPTY bin that still declares an uncertainty) and a normsys
    [channels |-> <<
        [name |-> 1, samples |-> <<
            [name |-> 2, data |-> Rs(<<6, 9>>), mods |-> <<Mod(MU, NORMFACTOR, <<>>, <<>>)>>],
            [name |-> 1, data |-> Rs(<<10, 0>>), mods |-> <<Mod(21, STATERROR, Rs(<<3, 3>>), <<>>), Mod(7, NORMSYS, <<RN(9, 10)>>, <<RN(6, 5)>>)>>],
            [name |-> 3, data |-> Rs(<<20, 25>>), mods |-> <<Mod(21, STATERROR, Rs(<<4, 4>>), <<>>), Mod(7, NORMSYS, <<RN(9, 10)>>, <<RN(6, 5)>>)>>] >>] >>,
     pars |-> <<>>, poi |-> MU]
SeedSpec4 ==      \* two channels, each with its own staterror of different relative size: after a channel rename the order of the
                  \* staterror NAMES no longer matches the order of the channels they act on
    [channels |-> <<
        [name |-> 1, samples |-> <<
            [name |-> 2, data |-> Rs(<<6, 9>>), mods |-> <<Mod(MU, NORMFACTOR, <<>>, <<>>)>>],
            [name |-> 1, data |-> Rs(<<40, 30>>), mods |-> <<Mod(21, STATERROR, Rs(<<4, 6>>), <<>>)>>] >>],
        [name |-> 2, samples |-> <<
            [name |-> 2, data |-> Rs(<<3, 5>>), mods |-> <<Mod(MU, NORMFACTOR, <<>>, <<>>)>>],
            [name |-> 1, data |-> Rs(<<50, 60>>), mods |-> <<Mod(22, STATERROR, Rs(<<10, 3>>), <<>>)>>] >>] >>,
     pars |-> <<>>, poi |-> MU]
SeedSpec(k) ==
  CASE k = 3 -> SeedSpec3
    [] k = 4 -> SeedSpec4
    [] k = 1 ->   \* two mergeable backgrounds (identical modifier sets), a second channel with a shapesys
    [channels |-> <<
        [name |-> 1, samples |-> <<
            [name |-> 2, data |-> Rs(<<5, 8>>), mods |-> <<Mod(MU, NORMFACTOR, <<>>, <<>>)>>],
            [name |-> 1, data |-> Rs(<<40, 30>>), mods |-> <<Mod(1, NORMSYS, <<RN(4, 5)>>, <<RN(5, 4)>>), Mod(2, HISTOSYS, Rs(<<36, 28>>), Rs(<<45, 31>>))>>],
            [name |-> 3, data |-> Rs(<<12, 20>>), mods |-> <<Mod(1, NORMSYS, <<RN(4, 5)>>, <<RN(5, 4)>>), Mod(2, HISTOSYS, Rs(<<10, 19>>), Rs(<<13, 23>>))>>] >>],
        [name |-> 2, samples |-> <<
            [name |-> 1, data |-> Rs(<<60>>), mods |-> <<Mod(10, SHAPESYS, Rs(<<6>>), <<>>)>>],
            [name |-> 2, data |-> Rs(<<4>>), mods |-> <<Mod(MU, NORMFACTOR, <<>>, <<>>)>>] >>] >>,
     pars |-> <<>>, poi |-> MU]
    [] k = 2 ->   \* one channel, three bins: staterror, lumi, shapefactor-free; signal with a histosys
    [channels |-> <<
        [name |-> 1, samples |-> <<
            [name |-> 2, data |-> Rs(<<6, 9, 4>>), mods |-> <<Mod(MU, NORMFACTOR, <<>>, <<>>), Mod(2, HISTOSYS, Rs(<<5, 8, 4>>), Rs(<<8, 10, 5>>)), Mod(3, LUMI, <<>>, <<>>)>>],
            [name |-> 1, data |-> Rs(<<50, 42, 30>>), mods |-> <<Mod(7, NORMSYS, <<RN(9, 10)>>, <<RN(6, 5)>>), Mod(3, LUMI, <<>>, <<>>)>>] >>] >>,
     pars |-> <<[name |-> 3, inits |-> <<ROne>>, bounds |-> << <<RN(1, 2), RN(3, 2)>> >>, fixed |-> <<>>, auxdata |-> <<ROne>>,
                 sigmas |-> <<RN(1, 20)>>, factors |-> <<>>]>>,
     poi |-> MU]

ParamNames(sp) == UNION {UNION {{sp.channels[i].samples[j].mods[k].name : k \in DOMAIN sp.channels[i].samples[j].mods} :
                     j \in DOMAIN sp.channels[i].samples} : i \in DOMAIN sp.channels}
IdBmap(sp) == [i \in DOMAIN sp.channels |-> [b \in 1..Len(sp.channels[i].samples[1].data) |-> <<sp.channels[i].name, b>>]]

Init == /\ seed \in Seeds /\ w = SeedSpec(seed)
        /\ pmap = [n \in ParamNames(SeedSpec(seed)) |-> n]
        /\ bmap = IdBmap(SeedSpec(seed)) /\ scale = ROne /\ prog = <<>>

Room == Len(prog) < MaxOps
Rev(s) == [i \in DOMAIN s |-> s[Len(s) + 1 - i]]

\* ---- rewrites -------------------------------------------------------------------------------
\* reverse every list (channels, samples, modifiers, measurement parameters)
Permute ==
  /\ Room /\ (IF prog = <<>> THEN TRUE ELSE prog[Len(prog)].op # "permute")
  /\ w' = [w EXCEPT !.channels = Rev([i \in DOMAIN w.channels |->
                [w.channels[i] EXCEPT !.samples = Rev([j \in DOMAIN w.channels[i].samples |->
                    [w.channels[i].samples[j] EXCEPT !.mods = Rev(@)]])]]),
                    !.pars = Rev(@)]
  /\ bmap' = Rev(bmap)
  /\ prog' = Append(prog, [op |-> "permute"]) /\ UNCHANGED <<seed, pmap, scale>>

\* rename a parameter to a fresh name that sorts elsewhere (POI follows)
RenameParam(old, new) ==
  /\ Room /\ old \in ParamNames(w) /\ new \notin ParamNames(w) /\ old # 3 /\ new # 3      \* lumi is a fixed name
  /\ LET RM(m) == IF m.name = old THEN [m EXCEPT !.name = new] ELSE m IN
     w' = [w EXCEPT !.channels = [i \in DOMAIN w.channels |-> [w.channels[i] EXCEPT !.samples =
                 [j \in DOMAIN w.channels[i].samples |-> [w.channels[i].samples[j] EXCEPT !.mods = [k \in DOMAIN @ |-> RM(@[k])]]]]],
                    !.pars = [q \in DOMAIN w.pars |-> IF w.pars[q].name = old THEN [w.pars[q] EXCEPT !.name = new] ELSE w.pars[q]],
                    !.poi = IF w.poi = old THEN new ELSE w.poi]
  /\ pmap' = [n \in (ParamNames(w) \ {old}) \cup {new} |-> IF n = new THEN pmap[old] ELSE pmap[n]]
  /\ prog' = Append(prog, [op |-> "rename_param", old |-> old, new |-> new]) /\ UNCHANGED <<seed, bmap, scale>>

RenameChannel(old, new) ==
  /\ Room /\ (\E i \in DOMAIN w.channels : w.channels[i].name = old) /\ ~(\E i \in DOMAIN w.channels : w.channels[i].name = new)
  /\ w' = [w EXCEPT !.channels = [i \in DOMAIN w.channels |-> IF w.channels[i].name = old THEN [w.channels[i] EXCEPT !.name = new] ELSE w.channels[i]]]
  /\ prog' = Append(prog, [op |-> "rename_channel", old |-> old, new |-> new]) /\ UNCHANGED <<seed, pmap, bmap, scale>>

RenameSample(old, new) ==
  /\ Room
  /\ (\E i \in DOMAIN w.channels : \E j \in DOMAIN w.channels[i].samples : w.channels[i].samples[j].name = old)
  /\ ~(\E i \in DOMAIN w.channels : \E j \in DOMAIN w.channels[i].samples : w.channels[i].samples[j].name = new)
  /\ w' = [w EXCEPT !.channels = [i \in DOMAIN w.channels |-> [w.channels[i] EXCEPT !.samples =
               [j \in DOMAIN @ |-> IF @[j].name = old THEN [@[j] EXCEPT !.name = new] ELSE @[j]]]]]
  /\ prog' = Append(prog, [op |-> "rename_sample", old |-> old, new |-> new]) /\ UNCHANGED <<seed, pmap, bmap, scale>>

\* a sample with zero yields (it carries the POI normfactor, which then multiplies nothing)
AddZeroSample(i) ==
  /\ Room /\ i \in DOMAIN w.channels /\ ~(\E j \in DOMAIN w.channels[i].samples : w.channels[i].samples[j].name = 4)
  /\ LET nbin == Len(w.channels[i].samples[1].data) IN
     w' = [w EXCEPT !.channels[i].samples = Append(@, [name |-> 4, data |-> [b \in 1..nbin |-> RZero],
                                                        mods |-> <<Mod(w.poi, NORMFACTOR, <<>>, <<>>)>>])]
  /\ prog' = Append(prog, [op |-> "add_zero_sample", ch |-> w.channels[i].name]) /\ UNCHANGED <<seed, pmap, bmap, scale>>

\* a systematic whose variations equal the nominal (new parameter 5 = histosys, 6 = normsys)
AddNullSyst(i, j, t) ==
  /\ Room /\ i \in DOMAIN w.channels /\ j \in DOMAIN w.channels[i].samples /\ t \in {HISTOSYS, NORMSYS}
  /\ LET n == IF t = HISTOSYS THEN 5 ELSE 6  sm == w.channels[i].samples[j] IN
     /\ n \notin ParamNames(w)
     /\ w' = [w EXCEPT !.channels[i].samples[j].mods =
                 Append(@, IF t = HISTOSYS THEN Mod(n, t, sm.data, sm.data) ELSE Mod(n, t, <<ROne>>, <<ROne>>))]
     /\ pmap' = [x \in ParamNames(w) \cup {n} |-> IF x = n THEN 0 ELSE pmap[x]]
     /\ prog' = Append(prog, [op |-> "add_null_syst", ch |-> w.channels[i].name, sample |-> sm.name, type |-> t, name |-> n])
  /\ UNCHANGED <<seed, bmap, scale>>

\* ... and the same under the NAME of an existing parameter of the other alpha type: a null normsys named like an existing histosys
\* (or a null histosys named like an existing normsys) shares that parameter and its single constraint term, and changes nothing
TypesOfName(x) == {w.channels[t[1]].samples[t[2]].mods[t[3]].type :
                     t \in {t \in (DOMAIN w.channels) \X (1..4) \X (1..8) :
                               /\ t[2] \in DOMAIN w.channels[t[1]].samples
                               /\ t[3] \in DOMAIN w.channels[t[1]].samples[t[2]].mods
                               /\ w.channels[t[1]].samples[t[2]].mods[t[3]].name = x}}
AddNullShared(i, j, x) ==
  /\ Room /\ i \in DOMAIN w.channels /\ j \in DOMAIN w.channels[i].samples /\ x \in ParamNames(w)
  /\ TypesOfName(x) = {HISTOSYS}      \* (the mirror case, a null histosys under a normsys name, is left out)
  /\ ~(\E q \in DOMAIN w.channels[i].samples[j].mods : w.channels[i].samples[j].mods[q].name = x)
  /\ LET t == IF TypesOfName(x) = {HISTOSYS} THEN NORMSYS ELSE HISTOSYS  sm == w.channels[i].samples[j] IN
     /\ w' = [w EXCEPT !.channels[i].samples[j].mods =
                 Append(@, IF t = HISTOSYS THEN Mod(x, t, sm.data, sm.data) ELSE Mod(x, t, <<ROne>>, <<ROne>>))]
     /\ prog' = Append(prog, [op |-> "add_null_syst", ch |-> w.channels[i].name, sample |-> sm.name, type |-> t, name |-> x])
  /\ UNCHANGED <<seed, pmap, bmap, scale>>

\* split the bins of a channel after bin k into two channels (only channels without bin-wise parameters)
SplitChannel(i, k) ==
  /\ Room /\ i \in DOMAIN w.channels
  /\ LET ch == w.channels[i]  nbin == Len(ch.samples[1].data) IN
     /\ k \in 1..(nbin - 1)
     /\ \A j \in DOMAIN ch.samples : \A q \in DOMAIN ch.samples[j].mods : ~BinWise(ch.samples[j].mods[q].type)
     /\ ~(\E c \in DOMAIN w.channels : w.channels[c].name = 3)
     /\ LET Cut(s, a, b) == SubSeq(s, a, b)
            Part(a, b, nm) == [name |-> nm, samples |-> [j \in DOMAIN ch.samples |->
                 [ch.samples[j] EXCEPT !.data = Cut(@, a, b),
                                       !.mods = [q \in DOMAIN @ |-> IF @[q].type = HISTOSYS
                                                   THEN [@[q] EXCEPT !.d1 = Cut(@, a, b), !.d2 = Cut(@, a, b)] ELSE @[q]]]]]
        IN /\ w' = [w EXCEPT !.channels = SubSeq(@, 1, i - 1) \o <<Part(1, k, ch.name), Part(k + 1, nbin, 3)>> \o SubSeq(@, i + 1, Len(@))]
           /\ bmap' = SubSeq(bmap, 1, i - 1) \o <<SubSeq(bmap[i], 1, k), SubSeq(bmap[i], k + 1, nbin)>> \o SubSeq(bmap, i + 1, Len(bmap))
     /\ prog' = Append(prog, [op |-> "split_channel", ch |-> ch.name, after |-> k, new |-> 3])
  /\ UNCHANGED <<seed, pmap, scale>>

\* merge two samples of a channel that carry identical multiplicative modifiers and histosys of the same names
SameMods(a, b) ==
  /\ Len(a.mods) = Len(b.mods)
  /\ \A q \in DOMAIN a.mods : \E r \in DOMAIN b.mods :
        /\ a.mods[q].name = b.mods[r].name /\ a.mods[q].type = b.mods[r].type
        /\ (a.mods[q].type \notin {HISTOSYS, STATERROR} => a.mods[q] = b.mods[r])
        /\ a.mods[q].type \in {HISTOSYS, NORMSYS, NORMFACTOR, LUMI, STATERROR}
        \* MC-statistical uncertainties add in quadrature: exact only on Pythagorean pairs (the seeds are chosen so)
        /\ (a.mods[q].type = STATERROR => \A bb \in DOMAIN a.mods[q].d1 :
                RIsInt(a.mods[q].d1[bb]) /\ RIsInt(b.mods[r].d1[bb]) /\
                \E kk \in 0..60 : kk * kk = a.mods[q].d1[bb][1] * a.mods[q].d1[bb][1] + b.mods[r].d1[bb][1] * b.mods[r].d1[bb][1])
MergeSamples(i, j1, j2) ==
  /\ Room /\ i \in DOMAIN w.channels /\ j1 \in DOMAIN w.channels[i].samples /\ j2 \in DOMAIN w.channels[i].samples /\ j1 < j2
  /\ LET a == w.channels[i].samples[j1]  b == w.channels[i].samples[j2] IN
     /\ SameMods(a, b)
     /\ LET MB(m) == b.mods[CHOOSE r \in DOMAIN b.mods : b.mods[r].name = m.name /\ b.mods[r].type = m.type]
            merged == [a EXCEPT !.data = VAdd(a.data, b.data),
                                !.mods = [q \in DOMAIN a.mods |-> IF a.mods[q].type = HISTOSYS
                                            THEN [a.mods[q] EXCEPT !.d1 = VAdd(@, MB(a.mods[q]).d1), !.d2 = VAdd(@, MB(a.mods[q]).d2)]
                                            ELSE IF a.mods[q].type = STATERROR
                                            THEN [a.mods[q] EXCEPT !.d1 = [bb \in DOMAIN @ |->
                                                     R(CHOOSE kk \in 0..60 : kk * kk = @[bb][1] * @[bb][1] + MB(a.mods[q]).d1[bb][1] * MB(a.mods[q]).d1[bb][1])]]
                                            ELSE a.mods[q]]]
        IN w' = [w EXCEPT !.channels[i].samples = [j \in 1..(Len(@) - 1) |->
                      IF j = j1 THEN merged ELSE IF j < j2 THEN @[j] ELSE @[j + 1]]]
     /\ prog' = Append(prog, [op |-> "merge_samples", ch |-> w.channels[i].name, keep |-> a.name, drop |-> b.name])
  /\ UNCHANGED <<seed, pmap, bmap, scale>>

\* scale all yields of every sample that carries the POI (and no staterror/shapesys) by k
ScaleSignal(k) ==
  /\ Room /\ (\A q \in DOMAIN prog : prog[q].op # "scale_signal")
  /\ LET IsSig(sm) == \E q \in DOMAIN sm.mods : sm.mods[q].name = w.poi
         Sc(s) == VScale(k, s) IN
     /\ \A i \in DOMAIN w.channels : \A j \in DOMAIN w.channels[i].samples :
           IsSig(w.channels[i].samples[j]) => \A q \in DOMAIN w.channels[i].samples[j].mods : w.channels[i].samples[j].mods[q].type \notin {STATERROR, SHAPESYS}
     /\ w' = [w EXCEPT !.channels = [i \in DOMAIN w.channels |-> [w.channels[i] EXCEPT !.samples = [j \in DOMAIN @ |->
                  IF IsSig(@[j]) THEN [@[j] EXCEPT !.data = Sc(@), !.mods = [q \in DOMAIN @ |->
                        IF @[q].type = HISTOSYS THEN [@[q] EXCEPT !.d1 = Sc(@), !.d2 = Sc(@)] ELSE @[q]]] ELSE @[j]]]]]
  /\ scale' = RMul(scale, k)
  /\ prog' = Append(prog, [op |-> "scale_signal", k |-> k]) /\ UNCHANGED <<seed, pmap, bmap>>

Next ==
  \/ Permute
  \/ \E o \in {1, 2, MU}, n \in {8, 9} : RenameParam(o, n)
  \/ \E o \in {1, 2}, n \in {3} : RenameChannel(o, n)
  \/ \E o \in {1, 2}, n \in {4} : RenameSample(o, n)
  \/ \E i \in 1..3 : AddZeroSample(i)
  \/ \E i \in 1..3, j \in 1..3, t \in {HISTOSYS, NORMSYS} : AddNullSyst(i, j, t)
  \/ \E i \in 1..3, j \in 1..3, x \in {1, 2, 7} : AddNullShared(i, j, x)
  \/ \E i \in 1..3, k \in 1..2 : SplitChannel(i, k)
  \/ \E i \in 1..3, j1 \in 1..3, j2 \in 1..3 : MergeSamples(i, j1, j2)
  \/ \E k \in {R(2), RN(1, 2)} : ScaleSignal(k)
Spec == Init /\ [][Next]_vars

-----------------------------------------------------------------------------
(* the correspondence of parameter points *)
W0 == SeedSpec(seed)
PGrid == <<RN(1, 2), R(-1), R(2), RN(3, 2), R(1), RN(-3, 2), RN(1, 4)>>
\* theta of w0: alpha-type parameters with a normsys take integers (exact lane), others from PGrid
Theta0(z) == [n \in ParamNames(W0) |->
                LET k == ((n * 3 + z) % 7) + 1
                    isAlphaN == \E i \in DOMAIN W0.channels : \E j \in DOMAIN W0.channels[i].samples : \E q \in DOMAIN W0.channels[i].samples[j].mods :
                                    W0.channels[i].samples[j].mods[q].name = n /\ W0.channels[i].samples[j].mods[q].type = NORMSYS
                    isAlphaH == \E i \in DOMAIN W0.channels : \E j \in DOMAIN W0.channels[i].samples : \E q \in DOMAIN W0.channels[i].samples[j].mods :
                                    W0.channels[i].samples[j].mods[q].name = n /\ W0.channels[i].samples[j].mods[q].type = HISTOSYS
                    ints == <<R(1), R(-1), R(2), R(-2), R(1), R(-1), R(2)>>
                    v == IF isAlphaN THEN ints[k]
                         ELSE IF isAlphaH THEN PGrid[k] ELSE RAbs(PGrid[k])
                IN [c \in 1..2 |-> v]]         \* bin-wise parameters: same value for each component (seed shapesys has one bin)
\* the corresponding point of w: renamed parameters carry the old value, null systematics anything (here 1), POI divided by scale
ThetaW(z) == [n \in ParamNames(w) |->
                IF pmap[n] = 0 THEN <<ROne, ROne>>
                ELSE IF n = w.poi THEN [c \in 1..2 |-> RDiv(Theta0(z)[pmap[n]][c], scale)]
                ELSE Theta0(z)[pmap[n]]]
OldChanName(ci) == bmap[ci][1][1]
Preserves ==
  \A z \in 0..1 :
    \A ci \in DOMAIN w.channels :
       LET new == DefChannelRates(w, Set0, ThetaW(z), w.channels[ci].name)
           old(c) == DefChannelRates(W0, Set0, Theta0(z), c)
       IN \A b \in DOMAIN new : new[b] = old(bmap[ci][b][1])[bmap[ci][b][2]]
\* every bin of w0 appears exactly once in w
BinsPartition ==
  LET all == UNION {{bmap[ci][b] : b \in DOMAIN bmap[ci]} : ci \in DOMAIN bmap}
      n0 == SumNat([i \in DOMAIN W0.channels |-> Len(W0.channels[i].samples[1].data)])
      nw == SumNat([ci \in DOMAIN bmap |-> Len(bmap[ci])])
  IN Cardinality(all) = n0 /\ nw = n0
\* constrained parameters: those of w0 (renamed) plus the null systematics
ConstraintsPreserved ==
  {pmap[n] : n \in {m \in ParamNames(w) : pmap[m] # 0}} = ParamNames(W0)

\* constraint widths / Poisson factors of every surviving constrained parameter are those of the original
\* (compared only while the bin structure of bin-wise parameters is untouched: splits exclude such channels)
WidthsPreserved ==
  LET c0 == MkCfg(W0)  c1 == MkCfg(w) IN
  \A n \in ParamNames(w) : pmap[n] # 0 /\ Constrained(c1.ptype[n]) =>
      LET a == ParamInfo(w, c1, n)  b == ParamInfo(W0, c0, pmap[n]) IN
      a.type = b.type /\ a.var = b.var /\ a.tau = b.tau /\ a.fixed = b.fixed

PHash == LET RECURSIVE H(_)
             A(e) == (IF "old" \in DOMAIN e THEN e.old * 3 + e.new ELSE 0) + (IF "ch" \in DOMAIN e THEN e.ch * 5 ELSE 0)
                     + (IF "type" \in DOMAIN e THEN e.type ELSE 0) + (IF "after" \in DOMAIN e THEN e.after * 2 ELSE 0)
             H(i) == IF i > Len(prog) THEN 0 ELSE (i * i + 3) * (Len(prog[i].op) + A(prog[i])) + H(i + 1)
         IN H(1) + seed * 7
Emit == (EmitCases /\ Len(prog) >= 1 /\ PHash % EmitMod = EmitRes) =>
           PrintT(ToJson([seed |-> seed, prog |-> prog, scale |-> scale, final |-> w, orig |-> W0, bmap |-> bmap,
                          pmap |-> [q \in 1..Cardinality(ParamNames(w)) |-> LET n == SortSet(ParamNames(w))[q] IN <<n, pmap[n]>>]]))
=============================================================================
