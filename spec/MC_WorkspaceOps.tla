-------------------------- MODULE MC_WorkspaceOps --------------------------
(***************************************************************************)
(* C16 as a state machine.                                                 *)
(*                                                                         *)
(* Init      picks a left and a right workspace from small pools: every    *)
(*           channel name of Chans is absent or present with one of the    *)
(*           content/observation variants of ChOpts, every measurement     *)
(*           name absent or present with a (POI, parameter-config variant) *)
(*           of MeasOpts, the right workspace has a version of VersR.      *)
(* Combine(join, merge)  cur := combine(cur, right)      (at most once)    *)
(* Prune(kind, sel)      cur := cur.prune(kind = sel)                      *)
(* Rename(kind, pairs)   cur := cur.rename(kind = dict(pairs))             *)
(* Sorted                cur := Workspace.sorted(cur)                      *)
(* Every step records the outcome predicted by the definition layer (def)  *)
(* and by the transcription of workspace.py (impl).  A refusal ends the    *)
(* behaviour, and so does a step on which the two layers disagree.         *)
(* All pairs get one Combine step; the pairs built from the Deep* options  *)
(* (same version) get all op sequences up to MaxDepth.                     *)
(*                                                                         *)
(* Invariants = the clauses of the property on the definition layer, plus  *)
(* ImplEqDef: the transcription agrees with the definition except on the   *)
(* one class TLC exhibits (KnownDivergence, DESIGN section 6 row 11).      *)
(***************************************************************************)
EXTENDS WorkspaceOps, Json

CONSTANTS Chans,        \* channel names, subset of 1..3
          ChOpts,       \* set of codes 100*channel + 10*content variant (1..3) + observation variant (1..2)
          MeasNames,    \* measurement names, subset of 1..2
          MeasOpts,     \* set of codes 100*measurement + 10*poi (1|2) + parameter-config variant (0..3)
          VersR,        \* versions of the right workspace (1 = same as left, 2 = different)
          DeepChOpts, DeepMeasOpts,   \* sub-pools whose pairs are explored to MaxDepth
          MaxDepth, MaxSel, SwapRenames,
          EmitCases, EmitMod, EmitRes

VARIABLES left, right, cur, icur, hist, deep
vars == <<left, right, cur, icur, hist, deep>>

Fresh   == 9       \* a name no pool uses
Missing == 99      \* a name that never exists
HISTOSYS == 1      \* used by S4 only: the shared name 3 carries a normsys AND a histosys there
LUMI     == 2      \* a modifier type no pool uses

-----------------------------------------------------------------------------
(* pools *)
Mod(n, t, d) == [name |-> n, type |-> t, d |-> d]
\* signal-like sample: shared normsys 3 listed before the normfactor 1 (unsorted on purpose), and a
\* second modifier of the same type (the channel's private normsys) so that a sort key matters
S1(c, dv) == [name |-> 1, d |-> 100 * c + 10 + dv,
              mods |-> <<Mod(3, NORMSYS, 100 * c + 11), Mod(1, NORMFACTOR, 0), Mod(10 + c, NORMSYS, 100 * c + 12)>>]
\* background: per-channel staterror 20+c, normfactor 2, private normsys 10+c (unsorted)
S2(c)     == [name |-> 2, d |-> 100 * c + 21, mods |-> <<Mod(20 + c, STATERROR, 100 * c + 22), Mod(2, NORMFACTOR, 0), Mod(10 + c, NORMSYS, 100 * c + 23)>>]
S3(c)     == [name |-> 3, d |-> 100 * c + 31, mods |-> <<Mod(3, NORMSYS, 100 * c + 32), Mod(1, NORMFACTOR, 0)>>]
\* one NAME with two TYPES on the same sample (normsys 3 and histosys 3): selections by type and by name must not be confused
S4(c)     == [name |-> 3, d |-> 100 * c + 41, mods |-> <<Mod(3, NORMSYS, 100 * c + 42), Mod(3, HISTOSYS, 100 * c + 43), Mod(1, NORMFACTOR, 0)>>]
Samples(c, v) == CASE v = 1 -> <<S2(c), S1(c, 1)>>
                   [] v = 4 -> <<S2(c), S4(c)>>
                   [] v = 2 -> <<S1(c, 2), S3(c)>>     \* S1 clashes with variant 1; S3 is new
                   [] v = 3 -> <<S3(c)>>
ParVariant(pv) == CASE pv = 0 -> <<>>
                    [] pv = 1 -> <<[name |-> 3, v |-> 1], [name |-> 1, v |-> 1]>>
                    [] pv = 2 -> <<[name |-> 3, v |-> 2]>>       \* conflicts with variant 1 on parameter 3
                    [] pv = 3 -> <<[name |-> 2, v |-> 1]>>       \* disjoint from variants 1 and 2

Code(n, p) == 100 * n + 10 * p[1] + p[2]
VO == {<<(t \div 10) % 10, t % 10>> : t \in ChOpts}
PP == {<<(t \div 10) % 10, t % 10>> : t \in MeasOpts}
ChSels == {f \in [Chans -> ({<<0, 0>>} \cup VO)] :
             /\ \A c \in Chans : f[c] = <<0, 0>> \/ Code(c, f[c]) \in ChOpts
             /\ \E c \in Chans : f[c] # <<0, 0>>}
MSels  == {f \in [MeasNames -> ({<<0, 0>>} \cup PP)] :
             /\ \A m \in MeasNames : f[m] = <<0, 0>> \/ Code(m, f[m]) \in MeasOpts
             /\ \E m \in MeasNames : f[m] # <<0, 0>>}
\* the left workspace lists channels and measurements in descending, observations in ascending
\* order; the right one the other way round
MkWS(cs, ms, ver, side) ==
  LET cn == {c \in Chans : cs[c] # <<0, 0>>}
      mn == {m \in MeasNames : ms[m] # <<0, 0>>}
      co == IF side = "L" THEN Desc(cn) ELSE Asc(cn)
      oo == IF side = "L" THEN Asc(cn) ELSE Desc(cn)
      mo == IF side = "L" THEN Desc(mn) ELSE Asc(mn)
  IN [ch   |-> [i \in DOMAIN co |-> [name |-> co[i], samples |-> Samples(co[i], cs[co[i]][1])]],
      obs  |-> [i \in DOMAIN oo |-> [name |-> oo[i], d |-> 10 * oo[i] + cs[oo[i]][2]]],
      meas |-> [i \in DOMAIN mo |-> [name |-> mo[i], poi |-> ms[mo[i]][1], pars |-> ParVariant(ms[mo[i]][2])]],
      ver  |-> ver]
IsDeep(cl, cr, ml, mr, vr) ==
  /\ vr = 1
  /\ \A c \in Chans : \A f \in {cl, cr} : f[c] = <<0, 0>> \/ Code(c, f[c]) \in DeepChOpts
  /\ \A m \in MeasNames : \A f \in {ml, mr} : f[m] = <<0, 0>> \/ Code(m, f[m]) \in DeepMeasOpts

Init == \E cl \in ChSels : \E cr \in ChSels : \E ml \in MSels : \E mr \in MSels : \E vr \in VersR :
          /\ left = MkWS(cl, ml, 1, "L")
          /\ right = MkWS(cr, mr, vr, "R")
          /\ deep = IsDeep(cl, cr, ml, mr, vr)
          /\ cur = Ok(left) /\ icur = Ok(left) /\ hist = <<>>

-----------------------------------------------------------------------------
(* actions *)
OpRec(op, join, merge, kind, sel, pairs, d, i) ==
  [op |-> op, join |-> join, merge |-> merge, kind |-> kind, sel |-> sel, pairs |-> pairs, def |-> d, impl |-> i]
Combined == \E i \in DOMAIN hist : hist[i].op = "combine"
DepthBound == IF deep THEN MaxDepth ELSE 1
CanStep == Len(hist) < DepthBound /\ cur.st = "ok" /\ icur = cur

Step(rec) == /\ hist' = Append(hist, rec) /\ cur' = rec.def /\ icur' = rec.impl
             /\ UNCHANGED <<left, right, deep>>

Combine(j, m) ==
  /\ CanStep /\ ~Combined
  /\ Step(OpRec("combine", j, m, "", <<>>, <<>>, DefCombine(cur.ws, right, j, m), ImplCombine(icur.ws, right, j, m)))

PruneKinds  == {"channels", "samples", "modifiers", "modifier_types", "measurements"}
RenameKinds == {"channels", "samples", "modifiers", "measurements"}
ExistingOf(w, kind) ==
  CASE kind = "channels" -> NamesOf(w.ch) [] kind = "samples" -> AllSamples(w) [] kind = "modifiers" -> ModNames(w)
    [] kind = "modifier_types" -> ModTypes(w) [] kind = "measurements" -> NamesOf(w.meas)
PruneSels(w, kind) ==
  LET cand == ExistingOf(w, kind) \cup {IF kind = "modifier_types" THEN LUMI ELSE Missing}
  IN {s \in SUBSET cand : Cardinality(s) >= 1 /\ Cardinality(s) <= MaxSel}
Prune(kind, sel) ==
  /\ CanStep /\ deep
  /\ Step(OpRec("prune", "", FALSE, kind, Asc(sel), <<>>, DefPrune(cur.ws, kind, sel), ImplPrune(icur.ws, kind, sel)))

\* every name a renaming of this kind touches: for modifiers also the parameter configs and POIs of the
\* measurements (they may name a modifier that was pruned away)
NameSpace(w, kind) ==
  IF kind = "modifiers"
  THEN ModNames(w) \cup UNION {NamesOf(m.pars) \cup {m.poi} : m \in Range(w.meas)}
  ELSE ExistingOf(w, kind)
\* relabellings (injective on NameSpace): one name to the fresh name, a swap of two existing names;
\* and a missing name to the fresh one (refused)
RenameMaps(w, kind) ==
  LET ex == ExistingOf(w, kind) IN
  (IF Fresh \in NameSpace(w, kind) THEN {} ELSE {<< <<a, Fresh>> >> : a \in ex \cup {Missing}})
  \cup (IF SwapRenames THEN UNION {{<< <<a, b>>, <<b, a>> >> : b \in {x \in ex : x > a /\ x < a + 3}} : a \in ex} ELSE {})
Rename(kind, pairs) ==
  /\ CanStep /\ deep
  /\ Step(OpRec("rename", "", FALSE, kind, <<>>, pairs, DefRename(cur.ws, kind, pairs), ImplRename(icur.ws, kind, pairs)))

Sorted ==
  /\ CanStep /\ deep
  /\ Step(OpRec("sorted", "", FALSE, "", <<>>, <<>>, DefSorted(cur.ws), ImplSorted(icur.ws)))

Next == \/ \E j \in Joins : \E m \in BOOLEAN : Combine(j, m)
        \/ (deep /\ Combine("inner", FALSE))                      \* not a join operation
        \/ \E k \in PruneKinds : \E s \in PruneSels(cur.ws, k) : Prune(k, s)
        \/ \E k \in RenameKinds : \E p \in RenameMaps(cur.ws, k) : Rename(k, p)
        \/ Sorted
Spec == Init /\ [][Next]_vars

-----------------------------------------------------------------------------
(* invariants: the clauses of C16 on the definition layer *)
Last   == hist[Len(hist)]
Pre    == IF Len(hist) = 1 THEN left ELSE hist[Len(hist) - 1].def.ws     \* workspace the last op acted on
IsOp(o) == Len(hist) > 0 /\ Last.op = o
OkOp(o) == IsOp(o) /\ Last.def.st = "ok"
Out    == Last.def.ws

InputsWF == WF(left) /\ WF(right)

\* sections clash under 'outer' when a name is shared with different content
ClashIn(L, R) == \E i \in DOMAIN L : \E j \in DOMAIN R : L[i].name = R[j].name /\ L[i] # R[j]
SampleClash(L, R) == \E i \in DOMAIN L : \E j \in DOMAIN R : L[i].name = R[j].name /\ ClashIn(L[i].samples, R[j].samples)
MeasClash(L, R) == \E i \in DOMAIN L : \E j \in DOMAIN R :
                     L[i].name = R[j].name /\ (L[i].poi # R[j].poi \/ ClashIn(L[i].pars, R[j].pars))
Overlap(L, R) == NamesOf(L) \cap NamesOf(R) # {}
Disjoint(L, R) == ~Overlap(L.ch, R.ch)

\* "for disjoint channels the result contains every channel/observation/measurement of both unchanged,
\*  main likelihood = product of the two, each constrained parameter once"
DisjointKeepsAll ==
  (OkOp("combine") /\ Disjoint(Pre, right)) =>
    /\ Range(Out.ch) = Range(Pre.ch) \cup Range(right.ch)
    /\ Len(Out.ch) = Len(Pre.ch) + Len(right.ch)
    /\ Range(Out.obs) = Range(Pre.obs) \cup Range(right.obs)
    /\ Len(Out.obs) = Len(Pre.obs) + Len(right.obs)
    /\ NamesOf(Out.meas) = NamesOf(Pre.meas) \cup NamesOf(right.meas)
    /\ Unique(Out.meas)
    /\ \A m \in Range(Pre.meas) : (~Has(right.meas, m.name) \/ m \in Range(right.meas)) => m \in Range(Out.meas)
    /\ \A m \in Range(right.meas) : (~Has(Pre.meas, m.name) \/ m \in Range(Pre.meas)) => m \in Range(Out.meas)
    /\ MainTerms(Out) = MainTerms(Pre) \cup MainTerms(right)
    /\ Cardinality(MainTerms(Out)) = Cardinality(MainTerms(Pre)) + Cardinality(MainTerms(right))
    /\ ConstrainedParams(Out) = ConstrainedParams(Pre) \cup ConstrainedParams(right)
\* with nothing in common at all every join mode must accept
DisjointAccepted ==
  (IsOp("combine") /\ Last.join \in Joins /\ ~(Last.merge /\ Last.join = "none") /\ Pre.ver = right.ver
   /\ ~Overlap(Pre.ch, right.ch) /\ ~Overlap(Pre.obs, right.obs) /\ ~Overlap(Pre.meas, right.meas)) => Last.def.st = "ok"
\* "clashing definitions, different versions, or a join mode that forbids the overlap are refused"
Refusals ==
  IsOp("combine") =>
    /\ Pre.ver # right.ver => Last.def.st = "refuse"
    /\ (Last.join = "none" /\ (Overlap(Pre.ch, right.ch) \/ Overlap(Pre.obs, right.obs) \/ Overlap(Pre.meas, right.meas)))
         => Last.def.st = "refuse"
    /\ (Last.join = "outer" /\ ~Last.merge /\ ClashIn(Pre.ch, right.ch)) => Last.def.st = "refuse"
    /\ (Last.join = "outer" /\ Last.merge /\ SampleClash(Pre.ch, right.ch)) => Last.def.st = "refuse"
    /\ (Last.join = "outer" /\ (ClashIn(Pre.obs, right.obs) \/ MeasClash(Pre.meas, right.meas))) => Last.def.st = "refuse"
    /\ (Last.join \notin Joins \/ (Last.merge /\ Last.join = "none")) => Last.def.st = "refuse"
\* 'left outer' / 'right outer' keep the primary
PrimaryWins ==
  (OkOp("combine") /\ Last.join \in {"left outer", "right outer"}) =>
    LET P == IF Last.join = "left outer" THEN Pre ELSE right
        S == IF Last.join = "left outer" THEN right ELSE Pre IN
    /\ Range(P.obs) \subseteq Range(Out.obs) /\ Range(P.meas) \subseteq Range(Out.meas)
    /\ ~Last.merge => Range(P.ch) \subseteq Range(Out.ch)
    /\ Last.merge => \A c \in Range(P.ch) : Has(Out.ch, c.name) /\ Range(c.samples) \subseteq Range(Item(Out.ch, c.name).samples)
    /\ NamesOf(Out.ch) = NamesOf(P.ch) \cup NamesOf(S.ch)
    /\ \A c \in Range(S.ch) : ~Has(P.ch, c.name) => c \in Range(Out.ch)
\* 'outer' accepted: nothing of either side is lost (merged measurements: configs are the union)
OuterKeepsBoth ==
  (OkOp("combine") /\ Last.join = "outer") =>
    /\ Range(Out.obs) = Range(Pre.obs) \cup Range(right.obs)
    /\ ~Last.merge => Range(Out.ch) = Range(Pre.ch) \cup Range(right.ch)
    /\ Last.merge => \A c \in Range(Pre.ch) \cup Range(right.ch) :
                        Has(Out.ch, c.name) /\ Range(c.samples) \subseteq Range(Item(Out.ch, c.name).samples)
    /\ \A m \in Range(Pre.meas) \cup Range(right.meas) :
         /\ Has(Out.meas, m.name) /\ Item(Out.meas, m.name).poi = m.poi
         /\ Range(m.pars) \subseteq Range(Item(Out.meas, m.name).pars)

\* "Prune removes exactly the named items" and the terms of the remainder are those of the original
PruneExact ==
  OkOp("prune") =>
    LET k == Last.kind  sel == Range(Last.sel)
        Strip(t) == [t EXCEPT !.samples = {[s EXCEPT !.mods = {m \in @ : ~(k = "modifiers" /\ m.name \in sel)
                                                                     /\ ~(k = "modifier_types" /\ m.type \in sel)}] :
                                             s \in {x \in @ : ~(k = "samples" /\ x.name \in sel)}}]
    IN
    /\ ExistingOf(Out, k) = ExistingOf(Pre, k) \ sel
    /\ k # "channels" => NamesOf(Out.ch) = NamesOf(Pre.ch) /\ Out.obs = Pre.obs
    /\ k = "channels" => NamesOf(Out.obs) = NamesOf(Pre.obs) \ sel
    /\ k \notin {"measurements"} => NamesOf(Out.meas) = NamesOf(Pre.meas)
    /\ k \notin {"measurements", "modifiers"} => Out.meas = Pre.meas
    /\ k = "modifiers" => \A m \in Range(Out.meas) : NamesOf(m.pars) = NamesOf(Item(Pre.meas, m.name).pars) \ sel
    /\ MainTerms(Out) = {Strip(t) : t \in {x \in MainTerms(Pre) : ~(k = "channels" /\ x.ch \in sel)}}
PruneRefusesMissing ==
  IsOp("prune") => ((\E n \in Range(Last.sel) : ~Exists(Pre, Last.kind, n)) => Last.def = Refuse(IWO))

\* "Rename then inverse Rename = identity (POI follows)"; both layers
Injective(pairs, w, kind) ==
  /\ \A i \in DOMAIN pairs : \A j \in DOMAIN pairs : pairs[i][2] = pairs[j][2] => i = j
  /\ \A i \in DOMAIN pairs : pairs[i][2] \in NameSpace(w, kind) => \E j \in DOMAIN pairs : pairs[j][1] = pairs[i][2]
RenameInverse ==
  OkOp("rename") =>
    /\ Injective(Last.pairs, Pre, Last.kind)
    /\ DefRename(Out, Last.kind, InversePairs(Last.pairs)) = Ok(Pre)
    /\ ImplRename(Out, Last.kind, InversePairs(Last.pairs)) = Ok(Pre)
    /\ Last.kind = "modifiers" => \A i \in DOMAIN Out.meas : Out.meas[i].poi = Apply(Last.pairs, Pre.meas[i].poi)
    /\ Cardinality(MainTerms(Out)) = Cardinality(MainTerms(Pre))
    /\ Cardinality(ConstrainedParams(Out)) = Cardinality(ConstrainedParams(Pre))

\* "Sorted idempotent and canonical under permutation", terms unchanged
\* (evaluated on the behaviours of the Deep pool: every workspace any operation produced there)
SortedLaws ==
  (deep /\ Len(hist) > 0 /\ Last.def.st = "ok") =>
    LET w == Out  s == SortW(Out) IN
    /\ SortW(s) = s
    /\ SortW(PermW(w, "rev")) = s /\ SortW(PermW(w, "rot")) = s
    /\ MainTerms(s) = MainTerms(w) /\ ConstrainedParams(s) = ConstrainedParams(w) /\ FitConfig(s) = FitConfig(w)
    /\ ImplSorted(w) = Ok(s) /\ ImplSorted(PermW(w, "rev")) = Ok(s)

OutputsValid == (Len(hist) > 0 /\ Last.def.st = "ok" /\ right.ver = 1) => WF(Out)

\* where the transcription of workspace.py and the definition differ: 'outer' with merge_channels on
\* same-named channels that hold a same-named sample of different content (deep merge is 'left outer')
KnownDivergence ==
  /\ IsOp("combine") /\ Last.join = "outer" /\ Last.merge /\ Pre.ver = right.ver
  /\ SampleClash(Pre.ch, right.ch)
\* since the repair (fix: combine(join='outer', merge_channels=True) refuses ...) the two layers agree everywhere;
\* KnownDivergence is kept as the description of the class the unrepaired code got wrong
ImplEqDef == Len(hist) > 0 => Last.impl = Last.def
\* and on that class the code accepts what the definition refuses, unless another section refuses too
DivergenceIsSilentAccept ==
  (Len(hist) > 0 /\ Last.impl # Last.def) => (Last.def = Refuse(IWO) /\ Last.impl.st = "ok")

-----------------------------------------------------------------------------
(* case emission *)
RECURSIVE SumNat(_)
SumNat(s) == IF s = <<>> THEN 0 ELSE Head(s) + SumNat(Tail(s))
WHash(w) == SumNat([i \in DOMAIN w.ch |-> w.ch[i].name * 13 + i * SumNat([k \in DOMAIN w.ch[i].samples |-> w.ch[i].samples[k].d])])
            + SumNat([i \in DOMAIN w.obs |-> w.obs[i].d * 7]) + w.ver * 3
            + SumNat([i \in DOMAIN w.meas |-> w.meas[i].name * 5 + w.meas[i].poi * 11 + i * SumNat([k \in DOMAIN w.meas[i].pars |-> w.meas[i].pars[k].name + 2 * w.meas[i].pars[k].v])])
OpHash(e) == Len(e.op) + Len(e.join) * 3 + (IF e.merge THEN 17 ELSE 0) + Len(e.kind) * 5 + SumNat(e.sel) * 7
             + SumNat([i \in DOMAIN e.pairs |-> e.pairs[i][1] * 3 + e.pairs[i][2]])
CaseHash == WHash(left) + 31 * WHash(right) + SumNat([i \in DOMAIN hist |-> i * i * OpHash(hist[i])])

EmitHist == [i \in DOMAIN hist |-> IF hist[i].impl = hist[i].def THEN [hist[i] EXCEPT !.impl = Refuse("same")] ELSE hist[i]]
Case == [left |-> left, right |-> right, deep |-> deep, hist |-> EmitHist,
         disjoint |-> Disjoint(left, right), diverge |-> (Last.impl # Last.def)]
\* cases on which the layers differ, and the (rare) Sorted steps, are emitted eight times as densely
DivMod == (EmitMod \div 8) + 1
Emit == (EmitCases /\ Len(hist) > 0
         /\ (CaseHash % EmitMod = EmitRes \/ ((Last.impl # Last.def \/ Last.op = "sorted") /\ CaseHash % DivMod = EmitRes % DivMod)))
        => PrintT(ToJson(Case))
=============================================================================
