----------------------------- MODULE UpperLimit -----------------------------
(***************************************************************************)
(* C09 -- upper limits solve CLs(mu) = level at the requested level.        *)
(*                                                                         *)
(* CLs curves are abstract: six piecewise-linear functions of mu (index 0 = *)
(* observed, 1..5 = expected band from -2 sigma to +2 sigma) with rational  *)
(* knots, CLs(0) = 1, strictly decreasing down to a floor that lies below   *)
(* every level, constant afterwards.  Curve k is one master shape G         *)
(* stretched horizontally by a scale c_k:  F_k(mu) = G(mu / c_k); with      *)
(* c_1 < ... < c_5 the band is ordered pointwise, as a real CLs band is.    *)
(*                                                                         *)
(* Definition layer:  Crossing(k, level) -- the exact mu with F_k = level;  *)
(*   CrossingCell, LinInterpInCell for a grid.                              *)
(* Implementation layer (infer/intervals/upper_limits.py as coded):         *)
(*   NpInterp (np.interp on the reversed arrays), BestBracket (from the     *)
(*   insertion-ordered cache), the loops live in MC_UpperLimit.tla.         *)
(***************************************************************************)
EXTENDS Rat, Sequences, FiniteSets

\* comparisons that cancel the common factor of the denominators before cross-multiplying (Rat.RLt multiplies
\* the raw denominators; on these curves that overflows TLC's 32-bit integers although both operands are small)
Lt(a, b) == LET g == GCD(a[2], b[2]) IN a[1] * (b[2] \div g) < b[1] * (a[2] \div g)
Le(a, b) == LET g == GCD(a[2], b[2]) IN a[1] * (b[2] \div g) <= b[1] * (a[2] \div g)
Gt(a, b) == Lt(b, a)
Ge(a, b) == Le(b, a)

\* ---------------------------------------------------------------- master shapes (knots)
\* x strictly increasing from 0, y strictly decreasing from 1; beyond the last knot G is constant
ShapeX == << <<R(0), R(1), R(2), R(3), R(4), R(6)>>,
             <<R(0), RN(1, 2), R(1), R(2), R(4), R(8)>>,
             <<R(0), R(2), R(3), R(4), R(5), R(7)>> >>
ShapeY == << <<R(1), RN(1, 2), RN(1, 4), RN(1, 10), RN(1, 25), RN(1, 200)>>,
             <<R(1), RN(3, 10), RN(3, 20), RN(3, 50), RN(1, 50), RN(1, 200)>>,
             <<R(1), RN(4, 5), RN(1, 2), RN(1, 8), RN(1, 40), RN(1, 200)>> >>
NShapes == Len(ShapeX)

\* scales <<c_0 (observed), c_1, ..., c_5>>;  c_1 < c_2 < c_3 < c_4 < c_5
ScaleSets == << <<R(1), RN(1, 2), RN(3, 4), R(1), RN(3, 2), R(2)>>,
                <<RN(7, 5), RN(3, 5), RN(4, 5), R(1), RN(6, 5), RN(8, 5)>>,
                <<RN(1, 3), RN(1, 2), RN(2, 3), R(1), RN(4, 3), RN(5, 3)>>,
                <<R(3), R(1), R(2), R(3), R(5), R(6)>>,
                \* an excess: the observed curve crosses the level beyond the +2 sigma expected curve
                <<R(12), RN(1, 2), RN(3, 4), R(1), RN(3, 2), R(2)>> >>
NScales == Len(ScaleSets)

LevelSet == {RN(1, 100), RN(1, 20), RN(1, 10), RN(1, 5), RN(2, 5)}
DefaultLevel == RN(1, 20)            \* the default of every level= parameter in upper_limits.py

ASSUME ShapesWellFormed ==
  \A s \in 1..NShapes :
     /\ Len(ShapeX[s]) = Len(ShapeY[s]) /\ ShapeX[s][1] = RZero /\ ShapeY[s][1] = ROne
     /\ \A j \in 1..(Len(ShapeX[s]) - 1) : Lt(ShapeX[s][j], ShapeX[s][j + 1]) /\ Gt(ShapeY[s][j], ShapeY[s][j + 1])
     /\ \A l \in LevelSet : Gt(l, ShapeY[s][Len(ShapeY[s])]) /\ Lt(l, ROne)        \* every level is crossed
ASSUME ScalesOrdered ==
  \A c \in 1..NScales : \A k \in 2..5 : Lt(ScaleSets[c][k], ScaleSets[c][k + 1]) /\ Gt(ScaleSets[c][1], RZero) /\ Gt(ScaleSets[c][2], RZero)

\* ---------------------------------------------------------------- the curves
\* G(s, x): linear interpolation through the knots of shape s, constant beyond the last knot (x >= 0)
G(s, x) ==
  LET X == ShapeX[s]  Y == ShapeY[s]  n == Len(X) IN
  IF Ge(x, X[n]) THEN Y[n]
  ELSE LET j == CHOOSE j \in 1..(n - 1) : Le(X[j], x) /\ Lt(x, X[j + 1]) IN
       RAdd(Y[j], RMul(RSub(Y[j + 1], Y[j]), RDiv(RSub(x, X[j]), RSub(X[j + 1], X[j]))))
\* exact inverse on the strictly decreasing part: the x with G(s, x) = l  (Y[n] < l <= 1)
InvG(s, l) ==
  LET X == ShapeX[s]  Y == ShapeY[s]  n == Len(X)
      j == CHOOSE j \in 1..(n - 1) : Ge(Y[j], l) /\ Gt(l, Y[j + 1]) IN
  RAdd(X[j], RMul(RSub(X[j + 1], X[j]), RDiv(RSub(Y[j], l), RSub(Y[j], Y[j + 1]))))

\* curve k in 0..5 of the case (shape s, scale set c) at mu >= 0
F(s, c, k, mu)  == G(s, RDiv(mu, ScaleSets[c][k + 1]))
AllF(s, c, mu)  == [k \in 1..6 |-> F(s, c, k - 1, mu)]           \* what one hypotest(mu) returns: obs + 5 expected
\* DEFINITION: the exact crossing X_k(level)
Crossing(s, c, k, l) == RMul(ScaleSets[c][k + 1], InvG(s, l))

ASSUME CrossingIsTheRoot ==
  \A s \in 1..NShapes, c \in 1..NScales, k \in 0..5, l \in LevelSet : F(s, c, k, Crossing(s, c, k, l)) = l
ASSUME BandIsOrderedPointwise ==       \* on a witness grid of mu
  \A s \in 1..NShapes, c \in 1..NScales, m \in {RN(i, 4) : i \in 0..40} :
     \A k \in 1..4 : Le(F(s, c, k, m), F(s, c, k + 1, m))

\* ---------------------------------------------------------------- sequences
Reverse(q) == [i \in 1..Len(q) |-> q[Len(q) + 1 - i]]
Mus(ev)    == [i \in 1..Len(ev) |-> ev[i].mu]              \* ev: sequence of evaluations [mu, v]
Col(ev, k) == [i \in 1..Len(ev) |-> ev[i].v[k + 1]]        \* curve k over the evaluations
HasMu(ev, m) == \E i \in 1..Len(ev) : ev[i].mu = m

\* ---------------------------------------------------------------- grid scan
\* np.interp(x, xp, fp) for non-decreasing xp (numpy's compiled loop, incl. the clamping at both ends)
NpInterp(x, xp, fp) ==
  LET n == Len(xp) IN
  IF Gt(x, xp[n]) THEN fp[n]
  ELSE IF Lt(x, xp[1]) THEN fp[1]
  ELSE LET j == CHOOSE j \in 1..n : Le(xp[j], x) /\ (j = n \/ Lt(x, xp[j + 1])) IN
       IF j = n THEN fp[n]
       ELSE IF xp[j] = x THEN fp[j]
       ELSE RAdd(RMul(RDiv(RSub(fp[j + 1], fp[j]), RSub(xp[j + 1], xp[j])), RSub(x, xp[j])), fp[j])
\* linear_grid_scan as coded: _interp(level, result_array[idx][::-1], scan[::-1])
GridLimit(ev, k, l) == NpInterp(l, Reverse(Col(ev, k)), Reverse(Mus(ev)))

\* DEFINITION for a grid (increasing scan): the cell in which curve k crosses the level
Bracketed(ev, k, l) == Ge(ev[1].v[k + 1], l) /\ Le(ev[Len(ev)].v[k + 1], l)
CellIndex(ev, k, l) == CHOOSE i \in 1..Len(ev) : Ge(ev[i].v[k + 1], l) /\ (i = Len(ev) \/ Lt(ev[i + 1].v[k + 1], l))
CellHi(ev, i)       == IF i = Len(ev) THEN i ELSE i + 1
LinInterpInCell(ev, k, l) ==
  LET i == CellIndex(ev, k, l)  j == CellHi(ev, i)  yi == ev[i].v[k + 1]  yj == ev[j].v[k + 1] IN
  IF i = j \/ yi = l THEN ev[i].mu
  ELSE RAdd(ev[i].mu, RMul(RSub(ev[j].mu, ev[i].mu), RDiv(RSub(yi, l), RSub(yi, yj))))

\* ---------------------------------------------------------------- automatic scan
\* best_bracket(limit) as coded: over the insertion-ordered cache,
\*   lower = key of the smallest value >= 0, upper = key of the largest value < 0  (first one wins a tie)
ArgFirstBest(ev, k, l, wantPos) ==
  LET val(i) == RSub(ev[i].v[k + 1], l)
      ok(i)  == IF wantPos THEN Ge(val(i), RZero) ELSE Lt(val(i), RZero)
      I      == {i \in 1..Len(ev) : ok(i)}
      better(a, b) == IF wantPos THEN Lt(val(a), val(b)) ELSE Gt(val(a), val(b)) IN
  IF I = {} THEN 0
  ELSE CHOOSE i \in I : \A j \in I : ~better(j, i) /\ (j < i => better(i, j))
BestBracket(ev, k, l) ==
  LET a == ArgFirstBest(ev, k, l, TRUE)  b == ArgFirstBest(ev, k, l, FALSE) IN
  [defined |-> a # 0 /\ b # 0, lo |-> IF a = 0 THEN RZero ELSE ev[a].mu, hi |-> IF b = 0 THEN RZero ELSE ev[b].mu]
=============================================================================
