--------------------------------- MODULE Fit ---------------------------------
(***************************************************************************)
(* C05: the fit pipeline  mle.fit / fixed_poi_fit -> _validate_fit_inputs  *)
(* -> OptimizerMixin.minimize -> shim (strip fixed parameters, or hand     *)
(* them to the minimiser) -> minimiser -> _internal_postprocess (stitch).  *)
(*                                                                         *)
(* Values are abstract grid positions 0..G (their order is all that the    *)
(* index algebra needs).  The minimiser is nondeterministic but            *)
(* constrained: it returns any point of the box it was given, holding the  *)
(* fixed coordinates it was told about.  The invariants are the protocol   *)
(* clauses of the property; optimality is decided outside (closed forms,   *)
(* competitor sets).                                                        *)
(***************************************************************************)
EXTENDS Naturals, Sequences, FiniteSets, TLC, Json

CONSTANTS N,        \* number of parameters
          G,        \* grid 0..G of abstract values; bounds are <<lo, hi>> pairs of grid values
          EmitCases, EmitMod, EmitRes

VARIABLES phase, init, bounds, fixed, poi, usePoi, doStitch,
          fixedVals,      \* sequence of <<index, value>> in index order (mle.fit)
          x0, vb, mf,     \* what the minimiser receives
          raw, ok, final
vars == <<phase, init, bounds, fixed, poi, usePoi, doStitch, fixedVals, x0, vb, mf, raw, ok, final>>

Idx == 1..N
Vals == 0..G
SeqOf(S, f(_)) == LET RECURSIVE B(_)
                      B(k) == IF k > N THEN <<>> ELSE (IF k \in S THEN <<f(k)>> ELSE <<>>) \o B(k + 1)
                  IN B(1)

Init ==
  /\ phase = "call"
  /\ init \in [Idx -> Vals] /\ bounds \in [Idx -> {<<0, G>>, <<1, G>>, <<0, G - 1>>}]
  /\ fixed \in [Idx -> BOOLEAN] /\ poi \in Idx /\ usePoi \in BOOLEAN /\ doStitch \in BOOLEAN
  /\ fixedVals = <<>> /\ x0 = <<>> /\ vb = <<>> /\ mf = <<>> /\ raw = <<>> /\ ok = FALSE /\ final = <<>>

\* fixed_poi_fit forces the POI: init[poi] = mu (here: the value already in init), fixed[poi] = TRUE
EffFixed == [i \in Idx |-> fixed[i] \/ (usePoi /\ i = poi)]

\* _validate_fit_inputs: an initial value outside its bounds is refused
Validate ==
  /\ phase = "call"
  /\ IF \E i \in Idx : init[i] < bounds[i][1] \/ init[i] > bounds[i][2]
     THEN phase' = "refused" /\ UNCHANGED fixedVals
     ELSE /\ phase' = "validated"
          /\ fixedVals' = SeqOf({i \in Idx : EffFixed[i]}, LAMBDA i : <<i, init[i]>>)
  /\ UNCHANGED <<init, bounds, fixed, poi, usePoi, doStitch, x0, vb, mf, raw, ok, final>>

FixedIdx == {fixedVals[k][1] : k \in DOMAIN fixedVals}
VarIdx == Idx \ FixedIdx
Shim ==
  /\ phase = "validated"
  /\ IF doStitch
     THEN /\ x0' = SeqOf(VarIdx, LAMBDA i : init[i])
          /\ vb' = SeqOf(VarIdx, LAMBDA i : bounds[i])
          /\ mf' = <<>>
     ELSE /\ x0' = [i \in Idx |-> init[i]] /\ vb' = [i \in Idx |-> bounds[i]] /\ mf' = fixedVals
  /\ phase' = "shimmed"
  /\ UNCHANGED <<init, bounds, fixed, poi, usePoi, doStitch, fixedVals, raw, ok, final>>

\* the minimiser: any point of the box, holding the coordinates it was told to hold
Minimise ==
  /\ phase = "shimmed"
  /\ raw' \in {x \in [1..Len(x0) -> Vals] :
                 /\ \A k \in 1..Len(x0) : vb[k][1] <= x[k] /\ x[k] <= vb[k][2]
                 /\ \A q \in DOMAIN mf : x[mf[q][1]] = mf[q][2]}
  /\ ok' \in BOOLEAN
  /\ phase' = "minimised"
  /\ UNCHANGED <<init, bounds, fixed, poi, usePoi, doStitch, fixedVals, x0, vb, mf, final>>

\* _internal_postprocess: _TensorViewer([fixed_idx, variable_idx]).stitch([fixed_values, pars]) =
\* gather of the concatenation by argsort of the concatenated indices
Stitch(fv, x) ==
  LET fi == [k \in DOMAIN fv |-> fv[k][1]]
      vi == SeqOf(VarIdx, LAMBDA i : i)
      cidx == fi \o vi
      cdat == [k \in DOMAIN fv |-> fv[k][2]] \o x
  IN [j \in Idx |-> cdat[CHOOSE k \in DOMAIN cidx : cidx[k] = j]]
Post ==
  /\ phase = "minimised"
  /\ IF ~ok THEN phase' = "failed" /\ UNCHANGED final         \* assert result.success -> FailedMinimization
     ELSE /\ final' = IF doStitch THEN Stitch(fixedVals, raw) ELSE raw
          /\ phase' = "returned"
  /\ UNCHANGED <<init, bounds, fixed, poi, usePoi, doStitch, fixedVals, x0, vb, mf, raw, ok>>

Next == Validate \/ Shim \/ Minimise \/ Post
Spec == Init /\ [][Next]_vars

-----------------------------------------------------------------------------
Returned == phase = "returned"
InBounds  == Returned => \A i \in Idx : bounds[i][1] <= final[i] /\ final[i] <= bounds[i][2]
FixedHeld == Returned => \A i \in Idx : EffFixed[i] => final[i] = init[i]
FreeFromMinimiser == Returned =>       \* the free coordinates are exactly what the minimiser returned
   IF doStitch THEN SeqOf(VarIdx, LAMBDA i : final[i]) = raw ELSE final = raw
NoSuccessNoReturn == Returned => ok
RefusedOnlyOutside == phase = "refused" => \E i \in Idx : init[i] < bounds[i][1] \/ init[i] > bounds[i][2]

\* Binding A: one case per validated/refused call; the competitor set is the minimiser's choice set
CHash == LET RECURSIVE H(_)
             H(i) == IF i > N THEN 0 ELSE (init[i] * 3 + bounds[i][1] * 5 + bounds[i][2] * 7 + (IF fixed[i] THEN 11 ELSE 0)) * (i + 1) + H(i + 1)
         IN H(1) + poi * 13 + (IF usePoi THEN 17 ELSE 0) + (IF doStitch THEN 19 ELSE 0)
Emit == (EmitCases /\ phase \in {"validated", "refused"} /\ CHash % EmitMod = EmitRes) =>
          PrintT(ToJson([init |-> init, bounds |-> bounds, fixed |-> fixed, poi |-> poi, use_poi |-> usePoi,
                         do_stitch |-> doStitch, refused |-> (phase = "refused"),
                         eff_fixed |-> EffFixed]))
=============================================================================
