------------------------------ MODULE TraceFit ------------------------------
(***************************************************************************)
(* Binding B for C05 (and the fits inside C06/C08/C14/C15 runs): every fit *)
(* the real pyhf executes is recorded by hook H4 (optimize/mixins.py) as   *)
(*   fit.shim   what mle.fit handed over and what shim made of it          *)
(*   fit.raw    what the minimiser returned                                *)
(*   fit.return what the caller receives                                   *)
(*   fit.failed FailedMinimization                                         *)
(* and validated against the Fit state machine.  Floats travel in the      *)
(* ORDER LANE: a float64 is its order-preserving 64-bit key split in three *)
(* limbs <<h, m, l>> of at most 22 bits, so TLC decides =, <, <= on the     *)
(* observed values exactly.  'fun_ulps' is the ulp distance between the    *)
(* returned objective and twice_nll re-evaluated at the returned point     *)
(* through Model.logpdf (computed by the harness, compared here).          *)
(***************************************************************************)
EXTENDS Naturals, Sequences, FiniteSets, Json, IOUtils, TLC

CONSTANT MaxUlps
Traces == ndJsonDeserialize(IOEnv.TRACE_FILE)

VARIABLES tid, l, phase, shim, raw
vars == <<tid, l, phase, shim, raw>>

\* order lane
Lt(a, b) == \/ a[1] < b[1] \/ (a[1] = b[1] /\ a[2] < b[2]) \/ (a[1] = b[1] /\ a[2] = b[2] /\ a[3] < b[3])
Le(a, b) == a = b \/ Lt(a, b)

Tr == Traces[tid]
Ev == Tr.events[l]
More == tid <= Len(Traces) /\ l <= Len(Tr.events)
Is(e) == More /\ Ev.ev = e
Consume == l' = l + 1 /\ tid' = tid

Init == tid = 1 /\ l = 1 /\ phase = "idle" /\ shim = <<>> /\ raw = <<>>

FixedIdx(s) == {s.fixed_vals[k][1] : k \in DOMAIN s.fixed_vals}
VarSeq(s) == LET RECURSIVE B(_)
                 B(k) == IF k >= s.npars THEN <<>> ELSE (IF k \in FixedIdx(s) THEN <<>> ELSE <<k>>) \o B(k + 1)
             IN B(0)                               \* 0-based parameter indices, in order

TShim ==
  /\ Is("fit.shim") /\ phase = "idle" /\ Consume
  /\ LET s == Ev  vs == VarSeq(Ev) IN
     /\ Len(s.init) = s.npars /\ Len(s.bounds) = s.npars
     /\ \A k \in DOMAIN s.fixed_vals : s.fixed_vals[k][1] \in 0..(s.npars - 1)
     /\ Cardinality(FixedIdx(s)) = Len(s.fixed_vals)
     \* _validate_fit_inputs let it through: every initial value lies within its bounds
     /\ \A i \in 1..s.npars : Le(s.bounds[i][1], s.init[i]) /\ Le(s.init[i], s.bounds[i][2])
     \* mle.fit derives the fixed values from the initial point
     /\ \A k \in DOMAIN s.fixed_vals : s.fixed_vals[k][2] = s.init[s.fixed_vals[k][1] + 1]
     \* shim: strip (stitch mode) or pass through
     /\ IF s.do_stitch
        THEN /\ s.x0 = [k \in 1..Len(vs) |-> s.init[vs[k] + 1]]
             /\ s.vbounds = [k \in 1..Len(vs) |-> s.bounds[vs[k] + 1]]
             /\ s.mfixed = <<>>
        ELSE /\ s.x0 = s.init /\ s.vbounds = s.bounds /\ s.mfixed = s.fixed_vals
  /\ shim' = Ev /\ phase' = "shimmed" /\ UNCHANGED raw

TFailed ==
  /\ Is("fit.failed") /\ phase = "shimmed" /\ Consume
  /\ phase' = "idle" /\ shim' = <<>> /\ UNCHANGED raw

\* an exception other than FailedMinimization propagated out of the minimiser: the call returned nothing
\* (NoSuccessNoReturn holds trivially); the next record opens a new fit
TAbandon ==
  /\ Is("fit.shim") /\ phase = "shimmed"
  /\ phase' = "idle" /\ shim' = <<>> /\ UNCHANGED <<tid, l, raw>>

TRaw ==
  /\ Is("fit.raw") /\ phase = "shimmed" /\ Consume
  /\ Ev.success = TRUE                              \* success asserted before anything is returned
  /\ Len(Ev.x) = Len(shim.x0)
  /\ raw' = Ev /\ phase' = "minimised" /\ UNCHANGED shim

TReturn ==
  /\ Is("fit.return") /\ phase = "minimised" /\ Consume
  /\ LET s == shim  vs == VarSeq(shim) IN
     /\ Len(Ev.x) = s.npars
     \* InBounds
     /\ \A i \in 1..s.npars : Le(s.bounds[i][1], Ev.x[i]) /\ Le(Ev.x[i], s.bounds[i][2])
     \* FixedHeld: exactly at the supplied value
     /\ \A k \in DOMAIN s.fixed_vals : Ev.x[s.fixed_vals[k][1] + 1] = s.fixed_vals[k][2]
     \* the free coordinates are what the minimiser returned (stitch = inverse of strip)
     /\ IF s.do_stitch THEN \A k \in 1..Len(vs) : Ev.x[vs[k] + 1] = raw.x[k] ELSE Ev.x = raw.x
     \* Honest: the objective value returned is the minimiser's, and it is twice_nll at the returned point
     /\ Ev.fun = raw.fun
     /\ Ev.fun_ulps <= MaxUlps
  /\ phase' = "idle" /\ shim' = <<>> /\ raw' = <<>>

\* fits nest (a test statistic runs two): other records are skipped by the writer, so none appear here
NextTrace ==
  /\ tid <= Len(Traces) /\ l = Len(Tr.events) + 1 /\ phase \in {"idle", "shimmed"}
  /\ PrintT(<<"TRACE-OK", Tr.id>>)
  /\ tid' = tid + 1 /\ l' = 1 /\ phase' = "idle" /\ shim' = <<>> /\ raw' = <<>>

Next == TShim \/ TFailed \/ TAbandon \/ TRaw \/ TReturn \/ NextTrace
TraceSpec == Init /\ [][Next]_vars
=============================================================================
