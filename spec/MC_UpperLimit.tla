---------------------------- MODULE MC_UpperLimit ----------------------------
(***************************************************************************)
(* C09 as a state machine over the abstract CLs curves of UpperLimit.tla.   *)
(* One behaviour = one call of an entry point of                            *)
(* pyhf/infer/intervals/upper_limits.py, transcribed step by step:          *)
(*                                                                         *)
(*   DeprecatedForward   intervals.upperlimit -> upper_limits.upper_limit   *)
(*   Dispatch            upper_limit: `if scan is not None` -> grid scan,   *)
(*                       else toms748_scan with the POI bounds of the model *)
(*   DirectToms/DirectGrid   toms748_scan / linear_grid_scan called directly*)
(*   EvalLo, LoHalve, LoDone, EvalHi, HiDouble, HiDone                      *)
(*                       f_cached(bounds) and the two `while np.any(...)`   *)
(*                       extension loops (bounds_low /= 2, bounds_up *= 2)  *)
(*   Bisect, Converge    one root search per curve (0 = observed on the     *)
(*                       extended bounds, 1..5 on best_bracket(idx) from    *)
(*                       the cache): ANY bracketing search -- modelled as   *)
(*                       0..MaxBisect cached bisection steps followed by    *)
(*                       convergence onto the root of f(.) - level; if      *)
(*                       best_bracket finds no cached point strictly below  *)
(*                       the level the scan stops in pc = "nobracket"       *)
(*                       (np.argmax of an empty array raises ValueError)    *)
(*   GridEval, GridInterp    one hypotest per scan point, then np.interp on *)
(*                       the reversed arrays per curve                      *)
(*                                                                         *)
(* ForwardLevel is the one place where the DEFINITION and the code as       *)
(* currently written may differ: upper_limit must hand `level` to           *)
(* toms748_scan (TRUE).  With FALSE (the call as coded on the unchanged     *)
(* tree: level omitted, toms748_scan uses its default 0.05) the invariants  *)
(* LevelUsedIsLevelPassed and TomsOK fail -- the check runs that instance   *)
(* as a self-test of the invariants and decides by replay which of the two  *)
(* the tree under test implements.                                          *)
(***************************************************************************)
EXTENDS UpperLimit, Json, TLC

CONSTANTS Shapes, Scales,       \* subsets of 1..NShapes, 1..NScales
          LevelIdx,             \* subset of 1..5 (indices into LevelSeq)
          BoundsIdx, GridIdx,   \* subsets of DOMAIN BoundsSeq, DOMAIN GridSeq
          MaxBisect,            \* cached bisection steps per root search
          MaxTotalBisect,       \* ... and per scan
          ForwardLevel,         \* BOOLEAN, see above
          EmitCases, EmitMod, EmitRes

LevelSeq  == <<RN(1, 100), RN(1, 20), RN(1, 10), RN(1, 5), RN(2, 5)>>
BoundsSeq == << <<R(0), R(10)>>, <<R(0), RN(11, 2)>>, <<R(0), R(1)>>, <<R(4), R(7)>>, <<RN(1, 2), R(1)>>, <<R(0), R(40)>>, <<RN(1, 10), RN(3, 10)>> >>
GridSeq   == << <<R(0), R(1), R(2), R(3), R(4), R(5)>>,
                <<R(0), R(2), R(4), R(8), R(16)>>,
                <<R(0), RN(1, 4), R(1), R(3), R(9), R(27)>>,
                <<RN(1, 10), RN(7, 10), RN(13, 10), RN(19, 10), RN(5, 2), RN(31, 10)>>,
                <<R(0), R(5), R(50)>>,
                <<R(0), RN(1, 3), RN(2, 3), R(1), R(3), R(12)>>,
                <<R(0), RN(1, 2), R(1), RN(3, 2), R(2), RN(5, 2), R(3)>> >>
ASSUME {LevelSeq[i] : i \in DOMAIN LevelSeq} = LevelSet
ASSUME \A g \in DOMAIN GridSeq : \A i \in 1..(Len(GridSeq[g]) - 1) : Lt(GridSeq[g][i], GridSeq[g][i + 1])

Entries == {<<"upper_limit", "toms">>, <<"upperlimit", "toms">>, <<"toms748_scan", "toms">>,
            <<"upper_limit", "grid">>, <<"upperlimit", "grid">>, <<"linear_grid_scan", "grid">>}

VARIABLES entry,      \* the entry point the caller used (history)
          api,        \* the function currently executing
          mode,       \* "toms" (scan is None) / "grid"
          shape, sc,  \* the curves
          li,         \* index of the level the caller passed
          bi, gi,     \* index of the POI bounds (toms) / of the scan (grid); 0 = not applicable
          pc, levelUsed, lo, hi,
          cache,      \* insertion-ordered evaluations [mu, v]  (toms: `cache`; grid: `results`)
          k, br, steps, nbis, res
vars == <<entry, api, mode, shape, sc, li, bi, gi, pc, levelUsed, lo, hi, cache, k, br, steps, nbis, res>>

level == LevelSeq[li]
Scan  == GridSeq[gi]
Eval(m) == [mu |-> m, v |-> AllF(shape, sc, m)]                       \* the hypotest stub
CacheAdd(ev, m) == IF HasMu(ev, m) THEN ev ELSE Append(ev, Eval(m))    \* f_cached
Cached(ev, m) == ev[CHOOSE i \in 1..Len(ev) : ev[i].mu = m].v          \* cache[poi]
NoBr == [lo |-> RZero, hi |-> RZero]

Init == /\ \E e \in Entries : entry = e[1] /\ api = e[1] /\ mode = e[2]
        /\ shape \in Shapes /\ sc \in Scales /\ li \in LevelIdx
        /\ IF mode = "toms" THEN bi \in BoundsIdx /\ gi = 0 ELSE gi \in GridIdx /\ bi = 0
        /\ pc = "call" /\ levelUsed = RZero /\ lo = RZero /\ hi = RZero /\ cache = <<>>
        /\ k = 0 /\ br = NoBr /\ steps = 0 /\ nbis = 0 /\ res = <<>>

\* intervals/__init__.py:upperlimit -> upper_limit(data, model, scan, level, return_results, **kw)
DeprecatedForward ==
  /\ pc = "call" /\ api = "upperlimit"
  /\ api' = "upper_limit"
  /\ UNCHANGED <<entry, mode, shape, sc, li, bi, gi, pc, levelUsed, lo, hi, cache, k, br, steps, nbis, res>>

\* Once the scan function runs, nothing depends on how it was reached except the level it received: `entry` is
\* reset, so that the scans of the three entry points are explored once per distinct (level received) -- the
\* replay drives every applicable entry point for each emitted case.
StartToms(l) == /\ levelUsed' = l /\ lo' = BoundsSeq[bi][1] /\ hi' = BoundsSeq[bi][2] /\ pc' = "evalLo" /\ entry' = "-"
                /\ UNCHANGED <<mode, shape, sc, li, bi, gi, cache, k, br, steps, nbis, res>>
StartGrid(l) == /\ levelUsed' = l /\ pc' = "gridEval" /\ entry' = "-"
                /\ UNCHANGED <<mode, shape, sc, li, bi, gi, lo, hi, cache, k, br, steps, nbis, res>>

\* upper_limit: dispatch on `scan is not None`
Dispatch ==
  /\ pc = "call" /\ api = "upper_limit"
  /\ IF mode = "grid"
     THEN api' = "linear_grid_scan" /\ StartGrid(level)                   \* level passed positionally
     ELSE api' = "toms748_scan" /\ StartToms(IF ForwardLevel THEN level ELSE DefaultLevel)
DirectToms == pc = "call" /\ api = "toms748_scan" /\ api' = api /\ StartToms(level)
DirectGrid == pc = "call" /\ api = "linear_grid_scan" /\ api' = api /\ StartGrid(level)

\* ---- toms748_scan
TomsFrame == UNCHANGED <<entry, api, mode, shape, sc, li, bi, gi, levelUsed>>
AnyBelow(v) == \E j \in 1..6 : Lt(v[j], levelUsed)       \* np.any(asarray([r[0]] + r[1]) < level)
AnyAbove(v) == \E j \in 1..6 : Gt(v[j], levelUsed)

EvalLo == /\ pc = "evalLo" /\ cache' = CacheAdd(cache, lo) /\ pc' = "loLoop"
          /\ TomsFrame /\ UNCHANGED <<lo, hi, k, br, steps, nbis, res>>
LoHalve == /\ pc = "loLoop" /\ AnyBelow(Cached(cache, lo))
           /\ lo' = RDiv(lo, R(2)) /\ cache' = CacheAdd(cache, lo')
           /\ TomsFrame /\ UNCHANGED <<pc, hi, k, br, steps, nbis, res>>
LoDone == /\ pc = "loLoop" /\ ~AnyBelow(Cached(cache, lo)) /\ pc' = "evalHi"
          /\ TomsFrame /\ UNCHANGED <<lo, hi, cache, k, br, steps, nbis, res>>
EvalHi == /\ pc = "evalHi" /\ cache' = CacheAdd(cache, hi) /\ pc' = "hiLoop"
          /\ TomsFrame /\ UNCHANGED <<lo, hi, k, br, steps, nbis, res>>
HiDouble == /\ pc = "hiLoop" /\ AnyAbove(Cached(cache, hi))
            /\ hi' = RMul(hi, R(2)) /\ cache' = CacheAdd(cache, hi')
            /\ TomsFrame /\ UNCHANGED <<pc, lo, k, br, steps, nbis, res>>
\* obs = toms748(f, bounds_low, bounds_up, args=(level, 0))
HiDone == /\ pc = "hiLoop" /\ ~AnyAbove(Cached(cache, hi))
          /\ pc' = "root" /\ k' = 0 /\ br' = [lo |-> lo, hi |-> hi] /\ steps' = 0
          /\ TomsFrame /\ UNCHANGED <<lo, hi, cache, nbis, res>>

Mid == RDiv(RAdd(br.lo, br.hi), R(2))
\* one evaluation of the root search: f(poi, level, limit) goes through f_cached
Bisect ==
  /\ pc = "root" /\ steps < MaxBisect /\ nbis < MaxTotalBisect /\ br.lo # br.hi
  /\ cache' = CacheAdd(cache, Mid)
  /\ br' = IF Ge(Cached(cache', Mid)[k + 1], levelUsed) THEN [br EXCEPT !.lo = Mid] ELSE [br EXCEPT !.hi = Mid]
  /\ steps' = steps + 1 /\ nbis' = nbis + 1
  /\ TomsFrame /\ UNCHANGED <<pc, lo, hi, k, res>>
\* the search ends on the root of f(., level, k) inside its bracket (the converged iterate is an evaluated point)
Converge ==
  /\ pc = "root"
  /\ LET x == Crossing(shape, sc, k, levelUsed)
         c2 == CacheAdd(cache, x) IN
     /\ res' = Append(res, x)
     /\ cache' = c2
     /\ IF k = 5 THEN pc' = "done" /\ k' = k /\ br' = br
        ELSE LET b == BestBracket(c2, k + 1, levelUsed) IN                 \* toms748(f, *best_bracket(idx), ...)
             IF b.defined THEN k' = k + 1 /\ pc' = pc /\ br' = [lo |-> b.lo, hi |-> b.hi]
             \* no cached point with curve k+1 strictly below the level (the curve EQUALS the level at the extended
             \* upper bound): ks[neg] is empty and np.argmax raises ValueError.  The crossing sits on the edge of the
             \* scanned range, outside the property; kept as a terminal state so that the replay sees these inputs.
             ELSE k' = k + 1 /\ pc' = "nobracket" /\ br' = br
  /\ steps' = 0
  /\ TomsFrame /\ UNCHANGED <<lo, hi, nbis>>

\* ---- linear_grid_scan
GridFrame == UNCHANGED <<entry, api, mode, shape, sc, li, bi, gi, levelUsed, lo, hi, k, br, steps, nbis>>
GridEval == /\ pc = "gridEval" /\ Len(cache) < Len(Scan)
            /\ cache' = Append(cache, Eval(Scan[Len(cache) + 1]))           \* results = [hypotest(mu, ...) for mu in scan]
            /\ GridFrame /\ UNCHANGED <<pc, res>>
GridInterp == /\ pc = "gridEval" /\ Len(cache) = Len(Scan)
              /\ res' = [j \in 1..6 |-> GridLimit(cache, j - 1, levelUsed)]
              /\ pc' = "done"
              /\ GridFrame /\ UNCHANGED cache

Next == \/ DeprecatedForward \/ Dispatch \/ DirectToms \/ DirectGrid
        \/ EvalLo \/ LoHalve \/ LoDone \/ EvalHi \/ HiDouble \/ HiDone \/ Bisect \/ Converge
        \/ GridEval \/ GridInterp
Spec == Init /\ [][Next]_vars

-----------------------------------------------------------------------------
Done == pc = "done"
X(j) == Crossing(shape, sc, j, level)           \* the DEFINITION: crossing at the level the CALLER passed

\* the threshold used is the one the caller passed, whichever scan mode is chosen
LevelUsedIsLevelPassed == pc # "call" => levelUsed = level

\* automatic scan: each limit is the crossing (the abstract search converges exactly; the replay allows rtol)
TomsOK == (Done /\ mode = "toms") => \A j \in 0..5 : res[j + 1] = X(j)

\* every root search starts from a bracket of its own curve, and the bracket of best_bracket exists
BracketValid ==
  pc = "root" => /\ Ge(F(shape, sc, k, br.lo), levelUsed) /\ Le(F(shape, sc, k, br.hi), levelUsed)
                 /\ Le(br.lo, br.hi)
                 /\ Le(br.lo, Crossing(shape, sc, k, levelUsed)) /\ Le(Crossing(shape, sc, k, levelUsed), br.hi)

\* user grid: each limit of a bracketed curve lies in the cell where the curve crosses the level ...
ResultInCrossingCell ==
  (Done /\ mode = "grid") =>
     \A j \in 0..5 : Bracketed(cache, j, level) =>
        LET i == CellIndex(cache, j, level)  h == CellHi(cache, i) IN
        /\ Le(cache[i].mu, res[j + 1]) /\ Le(res[j + 1], cache[h].mu)
        /\ Le(cache[i].mu, X(j)) /\ Le(X(j), cache[h].mu)
\* ... and is the exact linear interpolation in that cell (np.interp on the reversed arrays = definition)
GridOK ==
  (Done /\ mode = "grid") => \A j \in 0..5 : Bracketed(cache, j, level) => res[j + 1] = LinInterpInCell(cache, j, level)

\* expected limits ordered from -2 sigma to +2 sigma
BandOrdered == Done => \A j \in 2..5 : Le(res[j], res[j + 1])

\* the per-point results are the hypothesis-test results at the reported scan points
ResultsAreEvaluations ==
  \* inductive form: the evaluation appended last is the hypotest result at its scan point, at a new point
  /\ cache # <<>> => LET n == Len(cache) IN
                     /\ cache[n].v = AllF(shape, sc, cache[n].mu)
                     /\ mode = "toms" => \A i \in 1..(n - 1) : cache[i].mu # cache[n].mu
  /\ (Done /\ mode = "grid") => Mus(cache) = Scan
  /\ (Done /\ mode = "toms") => \A j \in 1..6 : HasMu(cache, res[j])

-----------------------------------------------------------------------------
Case ==
  [mode |-> mode, shape |-> shape, sc |-> sc,
   kx |-> ShapeX[shape], ky |-> ShapeY[shape], scales |-> ScaleSets[sc],
   level |-> level, levelIsDefault |-> (level = DefaultLevel),
   crossings |-> [j \in 1..6 |-> X(j - 1)],
   crossingsAtDefault |-> [j \in 1..6 |-> Crossing(shape, sc, j - 1, DefaultLevel)],
   bounds |-> IF mode = "toms" THEN BoundsSeq[bi] ELSE <<>>,
   scan   |-> IF mode = "grid" THEN Scan ELSE <<>>,
   finalBounds |-> IF mode = "toms" THEN <<lo, hi>> ELSE <<>>,
   nevals |-> Len(cache), edge |-> (pc = "nobracket"), edgeCurve |-> k,
   grid |-> IF mode = "grid"
            THEN [j \in 1..6 |-> [bracketed |-> Bracketed(cache, j - 1, level),
                                  cellLo |-> IF Bracketed(cache, j - 1, level) THEN cache[CellIndex(cache, j - 1, level)].mu ELSE RZero,
                                  cellHi |-> IF Bracketed(cache, j - 1, level) THEN cache[CellHi(cache, CellIndex(cache, j - 1, level))].mu ELSE RZero,
                                  lin |-> res[j]]]
            ELSE <<>>]

Hash == shape * 7 + sc * 11 + li * 13 + bi * 17 + gi * 19
Emit == (EmitCases /\ (Done \/ pc = "nobracket") /\ nbis = 0 /\ Hash % EmitMod = EmitRes) => PrintT(ToJson(Case))
=============================================================================
