------------------------------- MODULE Rat -------------------------------
(***************************************************************************)
(* Exact rational arithmetic for TLC.  A rational is a pair <<n, d>> with   *)
(* d > 0 and gcd(|n|, d) = 1.  TLC integers are checked 32-bit: an overflow *)
(* aborts the run (never wraps), so a result that TLC prints is exact.      *)
(* Every pyhf quantity the specification computes (yields, modifier data,   *)
(* parameter values, rates, interpolation polynomials, Phi-arguments) is a  *)
(* value of this type; floats only exist on the Python side of the bridge.  *)
(***************************************************************************)
EXTENDS Integers, Sequences

Abs(x) == IF x < 0 THEN -x ELSE x

RECURSIVE GCD(_, _)
GCD(a, b) == IF b = 0 THEN a ELSE GCD(b, a % b)

\* normalise an arbitrary pair (d # 0)
RN(n, d) ==
    LET s == IF d < 0 THEN -1 ELSE 1
        g == GCD(Abs(n), Abs(d))
    IN  IF n = 0 THEN <<0, 1>> ELSE <<(s * n) \div g, (s * d) \div g>>

R(n)        == <<n, 1>>                       \* integer -> rational
RZero       == <<0, 1>>
ROne        == <<1, 1>>
IsRat(r)    == /\ r \in Int \X Int /\ r[2] > 0 /\ GCD(Abs(r[1]), r[2]) = 1

\* intermediate products are kept as small as the result allows (lcm denominators,
\* cross-cancellation before multiplying) so that 32-bit overflow means the RESULT is big
RAdd(a, b)  == LET g == GCD(a[2], b[2]) IN
               RN(a[1] * (b[2] \div g) + b[1] * (a[2] \div g), (a[2] \div g) * b[2])
RNeg(a)     == <<-a[1], a[2]>>
RSub(a, b)  == RAdd(a, RNeg(b))
RMul(a, b)  == IF a[1] = 0 \/ b[1] = 0 THEN <<0, 1>>
               ELSE LET g1 == GCD(Abs(a[1]), b[2])  g2 == GCD(Abs(b[1]), a[2])
                    IN  <<(a[1] \div g1) * (b[1] \div g2), (a[2] \div g2) * (b[2] \div g1)>>
RInv(a)     == IF a[1] < 0 THEN <<-a[2], -a[1]>> ELSE <<a[2], a[1]>>     \* a # 0
RDiv(a, b)  == RMul(a, RInv(b))                \* b # 0

RLt(a, b)   == a[1] * b[2] <  b[1] * a[2]
RLe(a, b)   == a[1] * b[2] <= b[1] * a[2]
RGt(a, b)   == RLt(b, a)
RGe(a, b)   == RLe(b, a)
REq(a, b)   == a = b                            \* normal forms are unique
RCmp(a, b)  == IF RLt(a, b) THEN -1 ELSE IF a = b THEN 0 ELSE 1
RSign(a)    == IF a[1] < 0 THEN -1 ELSE IF a[1] = 0 THEN 0 ELSE 1
RMax(a, b)  == IF RLt(a, b) THEN b ELSE a
RMin(a, b)  == IF RLt(a, b) THEN a ELSE b
RAbs(a)     == <<Abs(a[1]), a[2]>>
RIsInt(a)   == a[2] = 1

RECURSIVE RPowNat(_, _)
RPowNat(a, k) == IF k = 0 THEN ROne ELSE RMul(a, RPowNat(a, k - 1))
\* integer powers (k may be negative; a # 0 then)
RPow(a, k)  == IF k >= 0 THEN RPowNat(a, k) ELSE RPowNat(RInv(a), -k)

\* folds over sequences of rationals
RECURSIVE RSumSeq(_)
RSumSeq(s)  == IF s = <<>> THEN RZero ELSE RAdd(Head(s), RSumSeq(Tail(s)))
RECURSIVE RProdSeq(_)
RProdSeq(s) == IF s = <<>> THEN ROne ELSE RMul(Head(s), RProdSeq(Tail(s)))

\* vectors (sequences of rationals of equal length)
VAdd(u, v)   == [i \in 1..Len(u) |-> RAdd(u[i], v[i])]
VMul(u, v)   == [i \in 1..Len(u) |-> RMul(u[i], v[i])]
VScale(k, v) == [i \in 1..Len(v) |-> RMul(k, v[i])]
VDot(u, v)   == RSumSeq([i \in 1..Len(u) |-> RMul(u[i], v[i])])

\* n x n matrices as sequences of rows
MatMul(A, B) == [i \in 1..Len(A) |-> [j \in 1..Len(B[1]) |->
                   RSumSeq([k \in 1..Len(B) |-> RMul(A[i][k], B[k][j])])]]
MatVec(A, v) == [i \in 1..Len(A) |-> VDot(A[i], v)]
Ident(n)     == [i \in 1..n |-> [j \in 1..n |-> IF i = j THEN ROne ELSE RZero]]
=============================================================================
