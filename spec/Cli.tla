-------------------------------- MODULE Cli --------------------------------
(***************************************************************************)
(* C19: the command line returns what the library returns.                 *)
(*                                                                         *)
(* Every sub-command of `pyhf` is a function from an OPTION RECORD (what   *)
(* stands on the command line; "" or <<>> = the option is not given) to    *)
(*   (a) the library call it must make: which function, with which         *)
(*       arguments taken from which options, under which backend /         *)
(*       optimiser state                                       (Call)      *)
(*   (b) where the documents come from and where the result goes           *)
(*       (Argv routes: file | stdin, OutputPlan: stdout | file)            *)
(*   (c) the exit status: 0 iff that library call returns     (Expect)     *)
(*                                                                         *)
(* Two layers.                                                             *)
(*   DefCall    definition-shaped: "every option takes effect as           *)
(*              documented" -- the argument an option names is the         *)
(*              argument the library receives; an option that is not       *)
(*              given leaves the library's own default in place            *)
(*              (LIBDEFAULT = the argument is not passed at all).          *)
(*   ImplCall   implementation-shaped: what the click functions of         *)
(*              src/pyhf/cli/{infer,spec,patchset,rootio}.py forward,      *)
(*              one operator per function, click defaults included.        *)
(* Norm resolves LIBDEFAULT with the library's signature defaults and      *)
(* click's aliases, so that the two layers can be compared:                *)
(*   ImplForwardsAll  ==  Norm(ImplCall) = Norm(DefCall)                   *)
(*                                                                         *)
(* The documents are a small fixed world (workspaces with two              *)
(* measurements, a workspace whose first measurement cannot be built,      *)
(* patches, a patch set); the harness builds the same world as files and   *)
(* checks this catalogue against them before it replays anything.          *)
(***************************************************************************)
EXTENDS Naturals, Sequences, FiniteSets

LIBDEFAULT == "<library default>"
SeqToSet(s) == {s[i] : i \in DOMAIN s}

-----------------------------------------------------------------------------
(* the world                                                                 *)
Meas(n, poi, ok) == [name |-> n, poi |-> poi, ok |-> ok]   \* ok: Workspace.model(measurement_name = n) can be built
WS(meas, ch, sa, mo, mt) == [measurements |-> meas, channels |-> ch, samples |-> sa, modifiers |-> mo, modtypes |-> mt]

TwoMods  == {"mu", "mu_alt", "shape", "norm", "uncorr"}
TwoTypes == {"normfactor", "histosys", "normsys", "shapesys"}
World == [
  \* two measurements with different POIs and parameter settings; listed unsorted (SR before CR, sig before bkg)
  two      |-> WS(<<Meas("meas_mu", "mu", TRUE), Meas("meas_alt", "mu_alt", TRUE)>>, {"SR", "CR"}, {"sig", "bkg", "alt"}, TwoMods, TwoTypes),
  \* the same channels; the FIRST (= default) measurement names a POI no modifier defines: only --measurement meas_mu can be built
  badfirst |-> WS(<<Meas("broken", "nonexistent", FALSE), Meas("meas_mu", "mu", TRUE)>>, {"SR", "CR"}, {"sig", "bkg", "alt"}, TwoMods, TwoTypes),
  \* disjoint from `two`: another channel, another measurement name
  other    |-> WS(<<Meas("meas_vr", "mu", TRUE)>>, {"VR"}, {"sig", "bkg"}, {"mu", "vr_norm"}, {"normfactor", "normsys"}),
  \* shares channel SR (one more sample in it) and measurement meas_mu (same definition) with `two`
  overlap  |-> WS(<<Meas("meas_mu", "mu", TRUE)>>, {"SR", "TR"}, {"extra", "bkg"}, {"mu", "tr_norm"}, {"normfactor", "normsys"}),
  \* background-only workspace the patch set `ps` records digests of
  bkgonly  |-> WS(<<Meas("meas_mu", "mu", FALSE)>>, {"SR"}, {"bkg"}, {"bkg_norm"}, {"normsys"})
]
WsNames == {"two", "badfirst", "other", "overlap", "bkgonly"}
MeasNamesOf(w) == {World[w].measurements[i].name : i \in DOMAIN World[w].measurements}
MeasByName(w, n) == World[w].measurements[CHOOSE i \in DOMAIN World[w].measurements : World[w].measurements[i].name = n]
FirstMeas(w) == World[w].measurements[1]

\* JSON patches (files).  pA and pB replace the same signal yields (so their order is visible), pbad removes a missing member
GoodPatches == {"pA", "pB"}
AllPatches  == GoodPatches \cup {"pbad"}
\* the patch set: two patches, digests recorded for `bkgonly`
PatchSetNames == {"p_one", "p_two"}
Verified(w)   == w = "bkgonly"
Hashlib == {"sha256", "md5", "sha512", "sha1", "blake2b"}

\* optimiser settings a constructor accepts (optimize/mixins.py, opt_scipy.py, opt_minuit.py)
ValidConf(optimizer) == IF optimizer = "minuit" THEN {"maxiter", "verbose", "errordef", "steps", "strategy", "tolerance"}
                        ELSE {"maxiter", "verbose", "tolerance", "solver_options"}
Conf(k, v, ty) == [k |-> k, v |-> v, type |-> ty]      \* --optconf k=v; v as written; type of the value the library must receive

-----------------------------------------------------------------------------
(* option records                                                            *)
Sel(ch, sa, mo, mt, me) == [channels |-> ch, samples |-> sa, modifiers |-> mo, modifier_types |-> mt, measurements |-> me]
Ren(ch, sa, mo, me)     == [channels |-> ch, samples |-> sa, modifiers |-> mo, measurements |-> me]   \* sequences of <<old, new>>
NoSel == Sel(<<>>, <<>>, <<>>, <<>>, <<>>)
NoRen == Ren(<<>>, <<>>, <<>>, <<>>)
NoOpt == [ws |-> "", ws2 |-> "", meas |-> "", patches |-> <<>>, poi |-> "", stat |-> "", calc |-> "", backend |-> "",
          optimizer |-> "", optconf |-> <<>>, value |-> "", sel |-> NoSel, ren |-> NoRen, join |-> "", merge |-> "",
          algs |-> <<>>, fmt |-> "", pname |-> "", meta |-> "", roots |-> "", progress |-> "", valerr |-> ""]

Commands == {"cls", "fit", "inspect", "prune", "rename", "combine", "sort", "digest",
             "ps_extract", "ps_apply", "ps_verify", "ps_inspect", "json2xml", "xml2json"}
\* the options of a command (positional documents first), in the order ChooseOption walks through them
OptOrder(c) ==
  CASE c = "cls"        -> <<"ws", "meas", "patches", "poi", "stat", "calc", "backend", "optimizer", "optconf">>
    [] c = "fit"        -> <<"ws", "meas", "patches", "value", "backend", "optimizer", "optconf">>
    [] c = "inspect"    -> <<"ws", "meas">>
    [] c = "prune"      -> <<"ws", "sel">>
    [] c = "rename"     -> <<"ws", "ren">>
    [] c = "combine"    -> <<"ws", "ws2", "join", "merge">>
    [] c = "sort"       -> <<"ws">>
    [] c = "digest"     -> <<"ws", "algs", "fmt">>
    [] c = "ps_extract" -> <<"pname", "meta">>
    [] c = "ps_apply"   -> <<"ws", "pname">>
    [] c = "ps_verify"  -> <<"ws">>
    [] c = "ps_inspect" -> <<>>
    [] c = "json2xml"   -> <<"ws", "patches", "roots">>
    [] c = "xml2json"   -> <<"ws", "progress", "valerr">>
Positional == {"ws", "ws2"}
Unset(name) == NoOpt[name]

Arg(v)  == IF v = "" THEN LIBDEFAULT ELSE v
Flag(v) == CASE v = "" -> LIBDEFAULT [] v = "on" -> "True" [] v = "off" -> "False"
\* click.Choice lists the short backend names next to the long ones
CanonBackend(b) == CASE b = "np" -> "numpy" [] b = "torch" -> "pytorch" [] b = "tf" -> "tensorflow" [] OTHER -> b

-----------------------------------------------------------------------------
(* DEFINITION-shaped layer: the call each option record stands for           *)
DefEnv(o) == [backend |-> IF o.backend = "" THEN LIBDEFAULT ELSE CanonBackend(o.backend),
              optimizer |-> Arg(o.optimizer), optconf |-> o.optconf]

DefCall(c, o) ==
  CASE c = "cls" ->
         \* hypotest(test_poi, ws.data(model), model, test_stat, calctype, return_expected_set = True) with
         \* model = ws.model(measurement_name, patches), under set_backend(backend, optimizer(**optconf))
         [fn |-> "hypotest", ws |-> o.ws, measurement |-> Arg(o.meas), patches |-> o.patches, modifier_settings |-> LIBDEFAULT,
          poi |-> IF o.poi = "" THEN "1.0" ELSE o.poi,        \* --test-poi has its own default, 1.0
          test_stat |-> Arg(o.stat), calctype |-> Arg(o.calc), expected_set |-> "True", env |-> DefEnv(o)]
    [] c = "fit" ->
         [fn |-> "mle.fit", ws |-> o.ws, measurement |-> Arg(o.meas), patches |-> o.patches, modifier_settings |-> LIBDEFAULT,
          return_fitted_val |-> Flag(o.value), env |-> DefEnv(o)]
    [] c = "inspect" ->
         \* the summary of ws with the model of the measurement named (the one marked in the listing)
         [fn |-> "inspect", ws |-> o.ws, measurement |-> Arg(o.meas)]
    [] c = "prune" ->
         [fn |-> "Workspace.prune", ws |-> o.ws, channels |-> o.sel.channels, samples |-> o.sel.samples, modifiers |-> o.sel.modifiers,
          modifier_types |-> o.sel.modifier_types, measurements |-> o.sel.measurements]
    [] c = "rename" ->
         [fn |-> "Workspace.rename", ws |-> o.ws, channels |-> o.ren.channels, samples |-> o.ren.samples, modifiers |-> o.ren.modifiers,
          measurements |-> o.ren.measurements]
    [] c = "combine" ->
         [fn |-> "Workspace.combine", ws |-> o.ws, right |-> o.ws2, join |-> Arg(o.join), merge_channels |-> Flag(o.merge)]
    [] c = "sort"   -> [fn |-> "Workspace.sorted", ws |-> o.ws]
    [] c = "digest" ->
         \* one digest per algorithm named, in the order named; `pyhf digest` alone prints sha256 (docstring)
         [fn |-> "utils.digest", ws |-> o.ws, algorithms |-> IF o.algs = <<>> THEN <<"sha256">> ELSE o.algs,
          as_json |-> IF o.fmt = "on" THEN "True" ELSE "False"]
    [] c = "ps_extract" -> [fn |-> "PatchSet.getitem", name |-> Arg(o.pname), with_metadata |-> IF o.meta = "on" THEN "True" ELSE "False"]
    [] c = "ps_apply"   -> [fn |-> "PatchSet.apply", ws |-> o.ws, name |-> Arg(o.pname)]
    [] c = "ps_verify"  -> [fn |-> "PatchSet.verify", ws |-> o.ws]
    [] c = "ps_inspect" -> [fn |-> "PatchSet.patches"]
    [] c = "json2xml" ->
         \* writexml(patched spec, <dir>/specroot, <dir>/dataroot, resultprefix) -> <dir>/resultprefix.xml
         [fn |-> "writexml", ws |-> o.ws, patches |-> o.patches,
          specroot |-> IF o.roots = "" THEN "config" ELSE "cfg_x", dataroot |-> IF o.roots = "" THEN "data" ELSE "dat_x",
          resultprefix |-> IF o.roots = "" THEN "FitConfig" ELSE "Res_x"]
    [] c = "xml2json" ->
         [fn |-> "readxml.parse", ws |-> o.ws, track_progress |-> IF o.progress = "off" THEN "False" ELSE "True",
          validation_as_error |-> IF o.valerr = "off" THEN "False" ELSE "True"]

-----------------------------------------------------------------------------
(* IMPLEMENTATION-shaped layer: what each click function forwards.           *)
(* click defaults: an option that is not given arrives as its declared       *)
(* default (None where the decorator says default=None).                     *)
ClickBackend(b)   == IF b = "" THEN "numpy" ELSE b            \* default="numpy"
ClickOptimizer(p) == IF p = "" THEN "scipy" ELSE p            \* default="scipy"
\* "set the backend if not NumPy": the if/elif chain of fit and cls; numpy / np fall through and keep the process's
\* backend, which is numpy when `pyhf` starts
ImplBackend(b) == LET cb == ClickBackend(b) IN
  CASE cb \in {"pytorch", "torch"} -> "pytorch" [] cb \in {"tensorflow", "tf"} -> "tensorflow" [] cb = "jax" -> "jax" [] OTHER -> "numpy"
\* optconf = {k: v for item in optconf for k, v in item.items()};  set_backend(tensorlib, new_optimizer(**optconf))
ImplEnv(o) == [backend |-> ImplBackend(o.backend), optimizer |-> ClickOptimizer(o.optimizer), optconf |-> o.optconf]
ClickNone(v) == IF v = "" THEN LIBDEFAULT ELSE v               \* default=None reaches the library as None = not given

ImplCls(o) ==      \* cli/infer.py: cls
  [fn |-> "hypotest", ws |-> o.ws, measurement |-> ClickNone(o.meas), patches |-> o.patches,
   modifier_settings |-> "code4,code4p",                       \* written out in the call to ws.model
   poi |-> IF o.poi = "" THEN "1.0" ELSE o.poi,                \* default=1.0
   test_stat |-> IF o.stat = "" THEN "qtilde" ELSE o.stat,     \* default='qtilde'
   calctype |-> IF o.calc = "" THEN "asymptotics" ELSE o.calc, \* default='asymptotics'
   expected_set |-> "True", env |-> ImplEnv(o)]
ImplFit(o) ==      \* cli/infer.py: fit
  [fn |-> "mle.fit", ws |-> o.ws, measurement |-> ClickNone(o.meas), patches |-> o.patches, modifier_settings |-> LIBDEFAULT,
   return_fitted_val |-> IF o.value = "on" THEN "True" ELSE "False", env |-> ImplEnv(o)]
ImplInspect(o, forwardsMeasurement) ==     \* cli/spec.py: inspect -- ws.get_measurement() and ws.model() are called without arguments
  [fn |-> "inspect", ws |-> o.ws, measurement |-> IF forwardsMeasurement THEN ClickNone(o.meas) ELSE LIBDEFAULT]
ImplPrune(o) ==    \* cli/spec.py: prune
  [fn |-> "Workspace.prune", ws |-> o.ws, channels |-> o.sel.channels, samples |-> o.sel.samples, modifiers |-> o.sel.modifiers,
   modifier_types |-> o.sel.modifier_types, measurements |-> o.sel.measurements]
ImplRename(o) ==   \* cli/spec.py: rename (dict(channel) ...)
  [fn |-> "Workspace.rename", ws |-> o.ws, channels |-> o.ren.channels, samples |-> o.ren.samples, modifiers |-> o.ren.modifiers,
   measurements |-> o.ren.measurements]
ImplCombine(o) ==  \* cli/spec.py: combine; default='none', --merge-channels/--no-merge-channels default=False
  [fn |-> "Workspace.combine", ws |-> o.ws, right |-> o.ws2, join |-> IF o.join = "" THEN "none" ELSE o.join,
   merge_channels |-> IF o.merge = "on" THEN "True" ELSE "False"]
ImplSort(o)   == [fn |-> "Workspace.sorted", ws |-> o.ws]
ImplDigest(o) ==   \* default=['sha256'], multiple=True; -j/-p default False
  [fn |-> "utils.digest", ws |-> o.ws, algorithms |-> IF o.algs = <<>> THEN <<"sha256">> ELSE o.algs,
   as_json |-> IF o.fmt = "on" THEN "True" ELSE "False"]
ImplPsExtract(o) == [fn |-> "PatchSet.getitem", name |-> ClickNone(o.pname), with_metadata |-> IF o.meta = "on" THEN "True" ELSE "False"]
ImplPsApply(o)   == [fn |-> "PatchSet.apply", ws |-> o.ws, name |-> ClickNone(o.pname)]
ImplPsVerify(o)  == [fn |-> "PatchSet.verify", ws |-> o.ws]
ImplPsInspect(o) == [fn |-> "PatchSet.patches"]
ImplJson2Xml(o) == \* cli/rootio.py: json2xml; the patches are applied with jsonpatch in the order given
  [fn |-> "writexml", ws |-> o.ws, patches |-> o.patches,
   specroot |-> IF o.roots = "" THEN "config" ELSE "cfg_x", dataroot |-> IF o.roots = "" THEN "data" ELSE "dat_x",
   resultprefix |-> IF o.roots = "" THEN "FitConfig" ELSE "Res_x"]
ImplXml2Json(o) == \* cli/rootio.py: xml2json; --track-progress/--hide-progress default True, --validation-as-error default True
  [fn |-> "readxml.parse", ws |-> o.ws, track_progress |-> IF o.progress = "off" THEN "False" ELSE "True",
   validation_as_error |-> IF o.valerr = "off" THEN "False" ELSE "True"]

ImplCall(c, o, inspectForwardsMeasurement) ==
  CASE c = "cls" -> ImplCls(o)           [] c = "fit" -> ImplFit(o)
    [] c = "inspect" -> ImplInspect(o, inspectForwardsMeasurement)
    [] c = "prune" -> ImplPrune(o)       [] c = "rename" -> ImplRename(o)     [] c = "combine" -> ImplCombine(o)
    [] c = "sort" -> ImplSort(o)         [] c = "digest" -> ImplDigest(o)
    [] c = "ps_extract" -> ImplPsExtract(o) [] c = "ps_apply" -> ImplPsApply(o) [] c = "ps_verify" -> ImplPsVerify(o)
    [] c = "ps_inspect" -> ImplPsInspect(o)
    [] c = "json2xml" -> ImplJson2Xml(o) [] c = "xml2json" -> ImplXml2Json(o)

-----------------------------------------------------------------------------
(* the library's own defaults (signatures of hypotest / create_calculator,   *)
(* Model, mle.fit, set_backend at import, Workspace.get_measurement,         *)
(* Workspace.combine, PatchSet.__getitem__(None))                            *)
Lib(v, d) == IF v = LIBDEFAULT THEN d ELSE v
NormEnv(e) == [backend |-> Lib(e.backend, "numpy"), optimizer |-> Lib(e.optimizer, "scipy"), optconf |-> SeqToSet(e.optconf)]
NormMeas(w, m) == Lib(m, FirstMeas(w).name)          \* get_measurement: "if ... none of the above have been specified, return the 0th"
Norm(call) ==
  CASE call.fn = "hypotest" ->
         [call EXCEPT !.measurement = NormMeas(call.ws, @), !.modifier_settings = Lib(@, "code4,code4p"),
                      !.test_stat = Lib(@, "qtilde"), !.calctype = Lib(@, "asymptotics"), !.env = NormEnv(@)]
    [] call.fn = "mle.fit" ->
         [call EXCEPT !.measurement = NormMeas(call.ws, @), !.modifier_settings = Lib(@, "code4,code4p"),
                      !.return_fitted_val = Lib(@, "False"), !.env = NormEnv(@)]
    [] call.fn = "inspect" -> [call EXCEPT !.measurement = NormMeas(call.ws, @)]
    [] call.fn = "Workspace.combine" -> [call EXCEPT !.join = Lib(@, "none"), !.merge_channels = Lib(@, "False")]
    [] call.fn \in {"PatchSet.getitem", "PatchSet.apply"} -> [call EXCEPT !.name = Lib(@, "<None>")]
    [] OTHER -> call

-----------------------------------------------------------------------------
(* exit status: "ok" / "fail" where the world decides it, "lib" where only   *)
(* the library can (a fit that converges or not, a join that clashes)        *)
ModelOK(w, m) == m \in MeasNamesOf(w) /\ MeasByName(w, m).ok
PatchesOK(ps) == SeqToSet(ps) \subseteq GoodPatches
ConfOK(e)     == \A c \in e.optconf : c.k \in ValidConf(e.optimizer)
Firsts(pairs) == {pairs[i][1] : i \in DOMAIN pairs}
Expect(ncall) ==          \* of a normalised call
  CASE ncall.fn \in {"hypotest", "mle.fit"} ->
         IF ~ModelOK(ncall.ws, ncall.measurement) \/ ~PatchesOK(ncall.patches) \/ ~ConfOK(ncall.env) THEN "fail" ELSE "lib"
    [] ncall.fn = "inspect" -> IF ModelOK(ncall.ws, ncall.measurement) THEN "ok" ELSE "fail"
    [] ncall.fn = "Workspace.prune" ->
         IF /\ SeqToSet(ncall.channels) \subseteq World[ncall.ws].channels /\ SeqToSet(ncall.samples) \subseteq World[ncall.ws].samples
            /\ SeqToSet(ncall.modifiers) \subseteq World[ncall.ws].modifiers /\ SeqToSet(ncall.modifier_types) \subseteq World[ncall.ws].modtypes
            /\ SeqToSet(ncall.measurements) \subseteq MeasNamesOf(ncall.ws)
         THEN "ok" ELSE "fail"
    [] ncall.fn = "Workspace.rename" ->
         IF /\ Firsts(ncall.channels) \subseteq World[ncall.ws].channels /\ Firsts(ncall.samples) \subseteq World[ncall.ws].samples
            /\ Firsts(ncall.modifiers) \subseteq World[ncall.ws].modifiers /\ Firsts(ncall.measurements) \subseteq MeasNamesOf(ncall.ws)
         THEN "ok" ELSE "fail"
    [] ncall.fn = "Workspace.combine" ->
         \* Workspace.combine: merge_channels "is only done with outer, left outer, and right outer" (the click help still says left/right only)
         IF ncall.merge_channels = "True" /\ ncall.join = "none" THEN "fail" ELSE "lib"
    [] ncall.fn = "Workspace.sorted" -> "ok"
    [] ncall.fn = "utils.digest" -> IF SeqToSet(ncall.algorithms) \subseteq Hashlib THEN "ok" ELSE "fail"
    [] ncall.fn = "PatchSet.getitem" -> IF ncall.name \in PatchSetNames THEN "ok" ELSE "fail"
    [] ncall.fn = "PatchSet.apply" -> IF ncall.name \in PatchSetNames /\ Verified(ncall.ws) THEN "ok" ELSE "fail"
    [] ncall.fn = "PatchSet.verify" -> IF Verified(ncall.ws) THEN "ok" ELSE "fail"
    [] ncall.fn = "PatchSet.patches" -> "ok"
    [] ncall.fn = "writexml" -> IF PatchesOK(ncall.patches) THEN "ok" ELSE "fail"
    [] ncall.fn = "readxml.parse" -> "ok"

-----------------------------------------------------------------------------
(* routes.  Input: every document argument is a path or "-" (standard        *)
(* input; also the default of an omitted argument).  Output: commands with   *)
(* --output-file write the SAME text there instead of printing it; inspect   *)
(* prints its table and writes the JSON summary in addition; json2xml        *)
(* writes a directory.                                                       *)
TwoDocs(c)  == c \in {"combine", "ps_apply", "ps_verify"}        \* two document arguments
TakesPatches(c) == c \in {"cls", "fit", "json2xml"}
InRoutes(c, o) ==
  IF c = "xml2json" THEN {"file"}                                 \* click.Path(exists=True): no standard input
  ELSE IF TwoDocs(c) THEN {"file", "stdin1", "stdin2"}
  ELSE {"file", "stdin", "omitted"} \cup (IF TakesPatches(c) /\ o.patches # <<>> THEN {"patchstdin"} ELSE {})
HasOutputFile(c) == c \in {"cls", "fit", "inspect", "prune", "rename", "combine", "sort", "ps_extract", "ps_apply", "xml2json"}
OutRoutes(c) == IF c = "json2xml" THEN {"dir"} ELSE IF HasOutputFile(c) THEN {"stdout", "file"} ELSE {"stdout"}
PayloadKind(c) == CASE c \in {"ps_verify", "ps_inspect", "inspect"} -> "text"
                    [] c = "digest" -> "text-or-json" [] c = "json2xml" -> "xml+root" [] OTHER -> "json"
\* what appears where when the call succeeds
DefOutputPlan(c, out) ==
  CASE c = "inspect"  -> [stdout |-> "table", file |-> IF out = "file" THEN "json" ELSE "none"]
    [] c = "json2xml" -> [stdout |-> "empty", file |-> "directory"]
    [] out = "file"   -> [stdout |-> "empty", file |-> "payload"]
    [] OTHER          -> [stdout |-> "payload", file |-> "none"]
\* as coded: `if output_file is None: click.echo(json.dumps(..)) else: json.dump(.., out_file)` in every function with the
\* option; inspect echoes unconditionally and dumps `if output_file`
ImplOutputPlan(c, out) ==
  CASE c = "inspect"  -> [stdout |-> "table", file |-> IF out = "file" THEN "json" ELSE "none"]
    [] c = "json2xml" -> [stdout |-> "empty", file |-> "directory"]
    [] HasOutputFile(c) /\ out = "file" -> [stdout |-> "empty", file |-> "payload"]
    [] OTHER          -> [stdout |-> "payload", file |-> "none"]
=============================================================================
