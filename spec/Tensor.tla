------------------------------- MODULE Tensor -------------------------------
(***************************************************************************)
(* The tensor-library contract every pyhf backend (numpy, jax, pytorch,    *)
(* tensorflow) has to honour: the STRUCTURAL operations of                  *)
(* pyhf.tensor.*_backend - the ones whose result is determined by shapes    *)
(* and exact arithmetic (reshape, ravel, transpose, sum/product over an     *)
(* axis, stack, concatenate, tile, outer, gather, boolean_mask, where,      *)
(* clip, abs, simple_broadcast, einsum, percentile, divide, power).         *)
(* Every HistFactory quantity of HFModel.tla is assembled from these (the   *)
(* mega-channel tensors, parameter views, batched stitching), so C01, C02,  *)
(* C10, C11 and C14 "on every backend" rest on this contract.  Leaf         *)
(* functions over reals (log, exp, erf, Poisson, Normal) are C04 and are    *)
(* not specified here.                                                      *)
(*                                                                         *)
(* A tensor is [sh |-> shape (sequence of naturals), d |-> row-major data]. *)
(* Data are integers, or exact rationals <<n, d>> after divide/percentile.  *)
(***************************************************************************)
EXTENDS Rat, FiniteSets, TLC

RECURSIVE Prod(_)
Prod(s) == IF s = <<>> THEN 1 ELSE Head(s) * Prod(Tail(s))
RECURSIVE SumI(_)
SumI(s) == IF s = <<>> THEN 0 ELSE Head(s) + SumI(Tail(s))
Range(s) == {s[i] : i \in DOMAIN s}
Reverse(s) == [i \in 1..Len(s) |-> s[Len(s) + 1 - i]]
Remove(s, k) == SubSeq(s, 1, k - 1) \o SubSeq(s, k + 1, Len(s))            \* drop position k (1-based)
Insert(s, k, x) == SubSeq(s, 1, k - 1) \o <<x>> \o SubSeq(s, k, Len(s))      \* x becomes position k

T(sh, d) == [sh |-> sh, d |-> d]
WF(t) == Len(t.d) = Prod(t.sh) /\ \A k \in DOMAIN t.sh : t.sh[k] \in Nat
Rank(t) == Len(t.sh)
Scalar(x) == T(<<>>, <<x>>)

\* row-major addressing: multi-index (0-based components) <-> flat position (1-based)
Stride(sh, k) == Prod(SubSeq(sh, k + 1, Len(sh)))
Flat(sh, ix) == 1 + SumI([k \in 1..Len(sh) |-> ix[k] * Stride(sh, k)])
Unflat(sh, p) == [k \in 1..Len(sh) |-> ((p - 1) \div Stride(sh, k)) % sh[k]]
At(t, ix) == t.d[Flat(t.sh, ix)]
Build(sh, f(_)) == T(sh, [p \in 1..Prod(sh) |-> f(Unflat(sh, p))])

-----------------------------------------------------------------------------
\* reshape: one entry of the new shape may be -1 (inferred)
Resolve(nsh, n) ==
  LET known == Prod([k \in 1..Len(nsh) |-> IF nsh[k] = -1 THEN 1 ELSE nsh[k]])
  IN [k \in 1..Len(nsh) |-> IF nsh[k] = -1 THEN n \div known ELSE nsh[k]]
CanReshape(t, nsh) ==
  /\ Cardinality({k \in DOMAIN nsh : nsh[k] = -1}) <= 1
  /\ \A k \in DOMAIN nsh : nsh[k] = -1 \/ nsh[k] >= 1
  /\ Prod(Resolve(nsh, Len(t.d))) = Len(t.d)
Reshape(t, nsh) == T(Resolve(nsh, Len(t.d)), t.d)
Ravel(t) == T(<<Len(t.d)>>, t.d)
Transpose(t) == Build(Reverse(t.sh), LAMBDA ix : At(t, Reverse(ix)))

\* reductions over one axis (1-based position ax) or over everything
ReduceAxis(t, ax, Fold(_)) ==
  Build(Remove(t.sh, ax), LAMBDA ix : Fold([j \in 1..t.sh[ax] |-> At(t, Insert(ix, ax, j - 1))]))
SumAxis(t, ax) == ReduceAxis(t, ax, SumI)
ProdAxis(t, ax) == ReduceAxis(t, ax, Prod)
SumAll(t) == Scalar(SumI(t.d))
ProdAll(t) == Scalar(Prod(t.d))

\* stack: equal shapes, new axis at position ax; concatenate: shapes equal off the axis
Stack(ts, ax) == Build(Insert(ts[1].sh, ax, Len(ts)), LAMBDA ix : At(ts[ix[ax] + 1], Remove(ix, ax)))
CanConcat(ts, ax) == /\ \A i \in DOMAIN ts : Rank(ts[i]) = Rank(ts[1]) /\ ax \in 1..Rank(ts[1])
                     /\ \A i \in DOMAIN ts : Remove(ts[i].sh, ax) = Remove(ts[1].sh, ax)
Concat(ts, ax) ==
  LET lens == [i \in DOMAIN ts |-> ts[i].sh[ax]]
      off(i) == SumI(SubSeq(lens, 1, i - 1))
      piece(j) == CHOOSE i \in DOMAIN ts : off(i) <= j /\ j < off(i) + lens[i]
      nsh == [ts[1].sh EXCEPT ![ax] = SumI(lens)]
  IN Build(nsh, LAMBDA ix : LET i == piece(ix[ax]) IN At(ts[i], [ix EXCEPT ![ax] = ix[ax] - off(i)]))

\* tile (numpy semantics): the shorter of shape and repeats is padded with leading ones
PadLeft(s, n) == [k \in 1..(n - Len(s)) |-> 1] \o s
Tile(t, reps) ==
  LET n == IF Len(reps) > Rank(t) THEN Len(reps) ELSE Rank(t)
      sh == PadLeft(t.sh, n)  rp == PadLeft(reps, n)
      src == T(sh, t.d)
  IN Build([k \in 1..n |-> sh[k] * rp[k]], LAMBDA ix : At(src, [k \in 1..n |-> ix[k] % sh[k]]))

Outer(u, v) == Build(<<u.sh[1], v.sh[1]>>, LAMBDA ix : u.d[ix[1] + 1] * v.d[ix[2] + 1])

\* gather along the first axis by an integer tensor of any rank; negative indices are not part of the contract
Gather(t, idx) ==
  Build(idx.sh \o Tail(t.sh), LAMBDA ix : At(t, <<At(idx, SubSeq(ix, 1, Rank(idx)))>> \o SubSeq(ix, Rank(idx) + 1, Len(ix))))
\* boolean mask of the same shape: the selected entries in row-major order
RECURSIVE Select(_, _)
Select(d, m) == IF d = <<>> THEN <<>> ELSE (IF Head(m) = 1 THEN <<Head(d)>> ELSE <<>>) \o Select(Tail(d), Tail(m))
BooleanMask(t, m) == LET s == Select(t.d, m.d) IN T(<<Len(s)>>, s)
Where(m, a, b) == T(a.sh, [p \in DOMAIN a.d |-> IF m.d[p] = 1 THEN a.d[p] ELSE b.d[p]])
Clip(t, lo, hi) == T(t.sh, [p \in DOMAIN t.d |-> IF t.d[p] < lo THEN lo ELSE IF t.d[p] > hi THEN hi ELSE t.d[p]])
AbsT(t) == T(t.sh, [p \in DOMAIN t.d |-> Abs(t.d[p])])
PowT(t, k) == T(t.sh, [p \in DOMAIN t.d |-> Prod([q \in 1..k |-> t.d[p]])])
DivT(a, b) == T(a.sh, [p \in DOMAIN a.d |-> RN(a.d[p], b.d[p])])             \* same shapes, no zero divisor

\* simple_broadcast: scalars and length-1 vectors are repeated to the common length
BLen(t) == IF Rank(t) = 0 THEN 1 ELSE t.sh[1]
CanBroadcast(ts) == LET m == CHOOSE m \in {BLen(ts[i]) : i \in DOMAIN ts} : \A i \in DOMAIN ts : BLen(ts[i]) <= m
                    IN /\ \A i \in DOMAIN ts : Rank(ts[i]) <= 1 /\ BLen(ts[i]) \in {1, m}
                       /\ \E i \in DOMAIN ts : Rank(ts[i]) = 1          \* "a sequence of 1 dimensional arrays": all-scalar input is not part of the contract
SimpleBroadcast(ts) ==
  LET m == CHOOSE m \in {BLen(ts[i]) : i \in DOMAIN ts} : \A i \in DOMAIN ts : BLen(ts[i]) <= m
  IN [i \in DOMAIN ts |-> IF BLen(ts[i]) = m /\ Rank(ts[i]) = 1 THEN ts[i] ELSE T(<<m>>, [p \in 1..m |-> ts[i].d[1]])]

-----------------------------------------------------------------------------
(* einsum: ins = one sequence of labels per operand, out = labels of the    *)
(* result (labels are integers; the bridge writes them a, b, c ...).        *)
(* result[o] = sum over the labels absent from out of the product of the    *)
(* operands' entries.                                                       *)
PosOf(s, x) == CHOOSE p \in DOMAIN s : s[p] = x
Einsum(ins, out, ops) ==
  LET labels == UNION {Range(ins[k]) : k \in DOMAIN ins}
      dim(l) == LET k == CHOOSE k \in DOMAIN ins : l \in Range(ins[k]) IN ops[k].sh[PosOf(ins[k], l)]
      summed == SelectSeq(<<1, 2, 3, 4, 5, 6, 7, 8>>, LAMBDA l : l \in labels /\ l \notin Range(out))
      sdims == [k \in DOMAIN summed |-> dim(summed[k])]
  IN Build([k \in DOMAIN out |-> dim(out[k])],
           LAMBDA ix : SumI([q \in 1..Prod(sdims) |-> LET f == Unflat(sdims, q) IN
              Prod([k \in DOMAIN ins |-> At(ops[k], [p \in DOMAIN ins[k] |->
                        LET l == ins[k][p] IN IF l \in Range(summed) THEN f[PosOf(summed, l)] ELSE ix[PosOf(out, l)]])])]))
EinsumOK(ins, out, ops) ==
  /\ \A k \in DOMAIN ins : Len(ins[k]) = Rank(ops[k])
  /\ \A k1 \in DOMAIN ins, k2 \in DOMAIN ins : \A p1 \in DOMAIN ins[k1], p2 \in DOMAIN ins[k2] :
        ins[k1][p1] = ins[k2][p2] => ops[k1].sh[p1] = ops[k2].sh[p2]
  /\ Range(out) \subseteq UNION {Range(ins[k]) : k \in DOMAIN ins}
  /\ \A p1 \in DOMAIN out, p2 \in DOMAIN out : p1 # p2 => out[p1] # out[p2]
  /\ \A k \in DOMAIN ins : \A p1 \in DOMAIN ins[k], p2 \in DOMAIN ins[k] : p1 # p2 => ins[k][p1] # ins[k][p2]

-----------------------------------------------------------------------------
(* percentile (q in 0..100, integer) of a sequence, per interpolation       *)
(* method; along an axis or over the flattened tensor.  "nearest" is only   *)
(* part of the contract where the index is not exactly half-way.            *)
RECURSIVE InsertSorted(_, _)
InsertSorted(s, x) == IF s = <<>> THEN <<x>> ELSE IF x <= Head(s) THEN <<x>> \o s ELSE <<Head(s)>> \o InsertSorted(Tail(s), x)
RECURSIVE Sort(_)
Sort(s) == IF s = <<>> THEN <<>> ELSE InsertSorted(Sort(Tail(s)), Head(s))
PctDefined(n, q, method) == method # "nearest" \/ (2 * ((q * (n - 1)) % 100)) # 100
PctSeq(s, q, method) ==
  LET n == Len(s)  srt == Sort(s)
      num == q * (n - 1)                      \* position = num / 100 (0-based)
      lo == num \div 100   fr == RN(num % 100, 100)
      i == srt[lo + 1]     j == srt[IF lo + 2 <= n THEN lo + 2 ELSE n]
  IN CASE method = "linear"   -> RAdd(R(i), RMul(R(j - i), fr))
       [] method = "lower"    -> R(i)
       [] method = "higher"   -> IF fr = RZero THEN R(i) ELSE R(j)
       [] method = "midpoint" -> IF fr = RZero THEN R(i) ELSE RN(i + j, 2)
       [] method = "nearest"  -> IF RLt(fr, RN(1, 2)) THEN R(i) ELSE R(j)
PctAll(t, q, method) == Scalar(PctSeq(t.d, q, method))
PctAxis(t, ax, q, method) ==
  Build(Remove(t.sh, ax), LAMBDA ix : PctSeq([j \in 1..t.sh[ax] |-> At(t, Insert(ix, ax, j - 1))], q, method))
\* a vector of q values puts the q axis first
PctAllQ(t, qs, method) == T(<<Len(qs)>>, [k \in DOMAIN qs |-> PctSeq(t.d, qs[k], method)])
=============================================================================
