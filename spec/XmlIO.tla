------------------------------- MODULE XmlIO -------------------------------
(***************************************************************************)
(* C18: export of a workspace to HistFactory XML + ROOT histograms and     *)
(* re-import (pyhf.writexml / pyhf.readxml / pyhf.compat).                 *)
(*                                                                         *)
(* Two layers of state.                                                    *)
(*                                                                         *)
(* 1. Conversion layer (exact rationals).  A workspace is a value          *)
(*      [channels |-> <<[name, obs, samples |-> <<[name, data, mods]>>]>>, *)
(*       meas     |-> <<[name, poi, pars |-> <<parameter configs>>]>>]     *)
(*    an exported document is a value                                      *)
(*      [channels |-> <<[name, data, samples |-> <<[name, hist, norm,      *)
(*                                                  els]>>]>>,             *)
(*       meas     |-> <<[name, lumi, relerr, poi, const]>>]                *)
(*    (histograms are the sequences stored in the ROOT file, attributes    *)
(*    are the XML attributes, `const` is the blank-separated text of the   *)
(*    <ParamSetting Const="True"> element).                                *)
(*      DefExport / DefImport   what the property demands (A.9 of DESIGN)  *)
(*      ImplExport / ImplImport transcribed from writexml.py / readxml.py, *)
(*                              one operator per function / loop of the    *)
(*                              code; the constant-like argument lumiAbs   *)
(*                              selects "absolute sigma is written as      *)
(*                              LumiRelErr" (the tree as read) or the      *)
(*                              relative one (repaired tree)               *)
(*      Terms(w)                the likelihood terms of a workspace modulo *)
(*                              the names the format dictates, the POI,    *)
(*                              the constant flags and the settings the    *)
(*                              format carries                             *)
(*      RoundTrip(w)            Terms(DefImport(DefExport(w))) = Terms(w)  *)
(*                                                                         *)
(* 2. History layer.  fs: directory -> content version on disk (with a     *)
(*    write stamp = file identity), cache: directory -> content held by    *)
(*    readxml.__FILECACHE__.  DefRead is the definition ("every import     *)
(*    reads the file content current at that moment"), ImplRead the cache  *)
(*    of import_root_histogram (keyed by the resolved path only, never     *)
(*    invalidated; or keyed on the file identity when stale = FALSE).      *)
(***************************************************************************)
EXTENDS Rat, FiniteSets, TLC

\* TLC re-evaluates a LET definition at every use but evaluates an operator ARGUMENT once; values that are
\* used several times are therefore passed as arguments of a local operator (LET F(v) == .. IN F(expr)).
Range(s) == {s[i] : i \in DOMAIN s}
RECURSIVE Flat(_)
Flat(ss) == IF ss = <<>> THEN <<>> ELSE Head(ss) \o Flat(Tail(ss))

-----------------------------------------------------------------------------
(* Values *)
Mod(n, t, d1, d2) == [name |-> n, type |-> t, d1 |-> d1, d2 |-> d2]
El(tag, n, d1, d2) == [tag |-> tag, name |-> n, d1 |-> d1, d2 |-> d2]
NoPar == [name |-> "", inits |-> <<>>, bounds |-> <<>>, auxdata |-> <<>>, sigmas |-> <<>>, fixed |-> FALSE]
LumiMod == Mod("lumi", "lumi", <<>>, <<>>)

BinWise(t) == t \in {"shapesys", "staterror", "shapefactor"}
\* Python string order of the modifier types (dict(mixin.modifiers) keeps the LAST of the sorted pairs)
TypeRank(t) == CASE t = "histosys" -> 1 [] t = "lumi" -> 2 [] t = "normfactor" -> 3 [] t = "normsys" -> 4
                 [] t = "shapefactor" -> 5 [] t = "shapesys" -> 6 [] t = "staterror" -> 7

AllMods(w) == UNION {UNION {Range(w.channels[c].samples[s].mods) : s \in DOMAIN w.channels[c].samples} : c \in DOMAIN w.channels}
TypesOf(w, n) == {m.type : m \in {mm \in AllMods(w) : mm.name = n}}
ParamNames(w) == {m.name : m \in AllMods(w)}
HasLumiMod(w) == \E m \in AllMods(w) : m.type = "lumi"
NormFactorNames(w) == {m.name : m \in {mm \in AllMods(w) : mm.type = "normfactor"}}

HasPar(ms, n) == \E i \in DOMAIN ms.pars : ms.pars[i].name = n
ParOf(ms, n) == IF HasPar(ms, n) THEN ms.pars[CHOOSE i \in DOMAIN ms.pars : ms.pars[i].name = n]
                ELSE [NoPar EXCEPT !.name = n]
\* normfactor settings; the published defaults where the measurement says nothing
NfSetting(par) == [val  |-> IF par.inits = <<>> THEN ROne ELSE par.inits[1],
                   low  |-> IF par.bounds = <<>> THEN RZero ELSE par.bounds[1][1],
                   high |-> IF par.bounds = <<>> THEN R(10) ELSE par.bounds[1][2]]

-----------------------------------------------------------------------------
(* The exportable fragment: what HistFactory XML (as pyhf writes it) can express.          *)
ExportableWith(w, pn, nfn, haslumi) ==
  \* one staterror parameter per channel (the format has no name for it), never shared between channels
  /\ \A c \in DOMAIN w.channels :
       LET st == {m \in UNION {Range(w.channels[c].samples[s].mods) : s \in DOMAIN w.channels[c].samples} : m.type = "staterror"}
       IN /\ Cardinality({m.name : m \in st}) <= 1
          /\ \A m \in st : \A c2 \in DOMAIN w.channels : c2 # c =>
                \A s2 \in DOMAIN w.channels[c2].samples : \A m2 \in Range(w.channels[c2].samples[s2].mods) : m2.name # m.name
  \* relative uncertainties are undefined where the nominal yield is 0
  /\ \A c \in DOMAIN w.channels : \A s \in DOMAIN w.channels[c].samples :
       LET sm == w.channels[c].samples[s] IN
       \A m \in Range(sm.mods) : m.type \in {"staterror", "shapesys"} =>
           \A b \in DOMAIN sm.data : sm.data[b] = RZero => m.d1[b] = RZero
  /\ \A i \in DOMAIN w.meas :
       LET ms == w.meas[i] IN
       \* NormFactor Val/Low/High live in the channel files: one setting for all measurements
       /\ \A n \in nfn : NfSetting(ParOf(ms, n)) = NfSetting(ParOf(w.meas[1], n))
       \* luminosity settings iff a lumi modifier; the format has one number for auxdata and inits
       /\ HasPar(ms, "lumi") = haslumi
       /\ HasPar(ms, "lumi") => LET lp == ParOf(ms, "lumi") IN lp.inits = lp.auxdata /\ lp.auxdata # <<>> /\ lp.sigmas # <<>> /\ lp.auxdata[1] # RZero
       /\ \A j \in DOMAIN ms.pars :
            LET p == ms.pars[j] IN
            /\ p.name \in pn
            \* only scalar parameters can be held constant; only normfactor (and lumi) carry other settings
            /\ p.fixed => \A t \in TypesOf(w, p.name) : ~BinWise(t)
            /\ (p.name # "lumi" /\ p.name \notin nfn) => p.inits = <<>> /\ p.bounds = <<>> /\ p.auxdata = <<>> /\ p.sigmas = <<>>
            /\ p.name \in nfn => TypesOf(w, p.name) = {"normfactor"}
Exportable(w) == ExportableWith(w, ParamNames(w), NormFactorNames(w), HasLumiMod(w))

-----------------------------------------------------------------------------
(* Definition layer (DESIGN A.9)                                                            *)
Rel(abs, nom) == [b \in DOMAIN nom |-> IF nom[b] = RZero THEN RZero ELSE RDiv(abs[b], nom[b])]

DefElement(w, sm, m) ==
  CASE m.type = "histosys"    -> El("HistoSys", m.name, m.d1, m.d2)           \* lo, hi histograms (absolute)
    [] m.type = "normsys"     -> El("OverallSys", m.name, m.d1, m.d2)         \* <<lo>>, <<hi>>
    [] m.type = "normfactor"  -> LET st == NfSetting(ParOf(w.meas[1], m.name))
                                 IN El("NormFactor", m.name, <<st.val>>, <<st.low, st.high>>)
    [] m.type = "staterror"   -> El("StatError", "", Rel(m.d1, sm.data), <<>>)
    [] m.type = "shapesys"    -> El("ShapeSys", m.name, Rel(m.d1, sm.data), <<>>)
    [] m.type = "shapefactor" -> El("ShapeFactor", m.name, <<>>, <<>>)

DefExportSample(w, sm) ==
  LET ms == SelectSeq(sm.mods, LAMBDA m : m.type # "lumi") IN
  [name |-> sm.name, hist |-> sm.data, norm |-> \E i \in DOMAIN sm.mods : sm.mods[i].type = "lumi",
   els |-> [i \in DOMAIN ms |-> DefElement(w, sm, ms[i])]]

DefRootName(w, n) ==
  IF n = "lumi" THEN "Lumi"
  ELSE LET ts == TypesOf(w, n) IN
       IF ts \cap {"normsys", "histosys"} # {} THEN "alpha_" \o n
       ELSE IF ts \cap {"shapesys", "staterror"} # {} THEN "gamma_" \o n
       ELSE n

DefExportMeas(w, ms) ==
  LET lp == ParOf(ms, "lumi")
      has == lp.auxdata # <<>>
      fx == SelectSeq(ms.pars, LAMBDA p : p.fixed)
  IN [name |-> ms.name, poi |-> ms.poi,
      lumi |-> IF has THEN lp.auxdata[1] ELSE ROne,
      relerr |-> IF has THEN RDiv(lp.sigmas[1], lp.auxdata[1]) ELSE RZero,
      const |-> [i \in DOMAIN fx |-> DefRootName(w, fx[i].name)]]

DefExport(w) ==
  [channels |-> [c \in DOMAIN w.channels |->
                   [name |-> w.channels[c].name, data |-> w.channels[c].obs,
                    samples |-> [s \in DOMAIN w.channels[c].samples |-> DefExportSample(w, w.channels[c].samples[s])]]],
   meas |-> [i \in DOMAIN w.meas |-> DefExportMeas(w, w.meas[i])]]

\* ---- import
ElementsOf(x) == UNION {UNION {Range(x.channels[c].samples[s].els) : s \in DOMAIN x.channels[c].samples} : c \in DOMAIN x.channels}
ElementNames(x) == {e.name : e \in ElementsOf(x)} \ {""}

\* compat.interpret_rootname restricted to the names that occur in the document (U)
Interpret(r, U) ==
  IF r = "Lumi" THEN [name |-> "lumi", scalar |-> TRUE]
  ELSE IF \E n \in U : r = "gamma_" \o n THEN [name |-> CHOOSE n \in U : r = "gamma_" \o n, scalar |-> FALSE]
  ELSE IF \E n \in U : r = "alpha_" \o n THEN [name |-> CHOOSE n \in U : r = "alpha_" \o n, scalar |-> TRUE]
  ELSE [name |-> r, scalar |-> TRUE]

ModOfElement(chname, hist, e) ==
  CASE e.tag = "HistoSys"    -> Mod(e.name, "histosys", e.d1, e.d2)
    [] e.tag = "OverallSys"  -> Mod(e.name, "normsys", e.d1, e.d2)
    [] e.tag = "NormFactor"  -> Mod(e.name, "normfactor", <<>>, <<>>)
    [] e.tag = "StatError"   -> Mod("staterror_" \o chname, "staterror", VMul(e.d1, hist), <<>>)   \* abs = rel * nom
    [] e.tag = "ShapeSys"    -> Mod(e.name, "shapesys", VMul(hist, e.d1), <<>>)
    [] e.tag = "ShapeFactor" -> Mod(e.name, "shapefactor", <<>>, <<>>)

ImportSample(chname, xs) ==
  [name |-> xs.name, data |-> xs.hist,
   mods |-> (IF xs.norm THEN <<LumiMod>> ELSE <<>>) \o [i \in DOMAIN xs.els |-> ModOfElement(chname, xs.hist, xs.els[i])]]

ImportChannels(x) ==
  [c \in DOMAIN x.channels |->
     [name |-> x.channels[c].name, obs |-> x.channels[c].data,
      samples |-> [s \in DOMAIN x.channels[c].samples |-> ImportSample(x.channels[c].name, x.channels[c].samples[s])]]]

\* parameter configurations carried by the NormFactor elements, in document order, first occurrence kept
NfParOf(e) == [name |-> e.name, inits |-> e.d1, bounds |-> << e.d2 >>, auxdata |-> <<>>, sigmas |-> <<>>, fixed |-> FALSE]
RECURSIVE Dedupe(_, _)
Dedupe(s, seen) == IF s = <<>> THEN <<>>
                   ELSE IF Head(s).name \in seen THEN Dedupe(Tail(s), seen)
                   ELSE <<Head(s)>> \o Dedupe(Tail(s), seen \cup {Head(s).name})
NfConfigs(x) ==
  LET per(xs) == LET nf == SelectSeq(xs.els, LAMBDA e : e.tag = "NormFactor") IN [i \in DOMAIN nf |-> NfParOf(nf[i])]
  IN Dedupe(Flat([c \in DOMAIN x.channels |-> Flat([s \in DOMAIN x.channels[c].samples |-> per(x.channels[c].samples[s])])]), {})

LumiPar(L, sg, fixed) ==
  [name |-> "lumi", inits |-> <<L>>, auxdata |-> <<L>>, sigmas |-> <<sg>>, fixed |-> fixed,
   bounds |-> << <<RSub(L, RMul(R(5), sg)), RAdd(L, RMul(R(5), sg))>> >>]

DefImportMeas(xm, U, nf) ==
  LET G(cn, nfn) ==
        LET cset == {cn[i].name : i \in DOMAIN cn}
            others == SelectSeq(cn, LAMBDA c : c.name # "lumi" /\ c.name \notin nfn)
        IN [name |-> xm.name, poi |-> xm.poi,
            pars |-> <<LumiPar(xm.lumi, RMul(xm.lumi, xm.relerr), "lumi" \in cset)>>        \* sigma = Lumi * LumiRelErr
                     \o [i \in DOMAIN nf |-> [nf[i] EXCEPT !.fixed = nf[i].name \in cset]]
                     \o [i \in DOMAIN others |-> [NoPar EXCEPT !.name = others[i].name, !.fixed = TRUE]]]
  IN G([i \in DOMAIN xm.const |-> Interpret(xm.const[i], U)], {nf[i].name : i \in DOMAIN nf})

\* a Const entry that names a bin-wise ("gamma") parameter cannot be imported (pyhf refuses)
ImportRefuses(x) == \E i \in DOMAIN x.meas : \E j \in DOMAIN x.meas[i].const : ~Interpret(x.meas[i].const[j], ElementNames(x)).scalar

DefImport(x) ==
  LET G(U, nf) == [channels |-> ImportChannels(x), meas |-> [i \in DOMAIN x.meas |-> DefImportMeas(x.meas[i], U, nf)]]
  IN G(ElementNames(x), NfConfigs(x))

-----------------------------------------------------------------------------
(* Implementation-shaped layer                                                              *)

\* writexml.build_modifier, branch 'normfactor': loop over the parameters of the FIRST measurement
ImplNormFactorAttrs(w, n) ==
  LET ps == w.meas[1].pars
      RECURSIVE Loop(_, _)
      Loop(i, st) == IF i > Len(ps) THEN st
                     ELSE IF ps[i].name = n
                          THEN Loop(i + 1, [val  |-> IF ps[i].inits = <<>> THEN st.val ELSE ps[i].inits[1],
                                            low  |-> IF ps[i].bounds = <<>> THEN st.low ELSE ps[i].bounds[1][1],
                                            high |-> IF ps[i].bounds = <<>> THEN st.high ELSE ps[i].bounds[1][2]])
                          ELSE Loop(i + 1, st)
  IN Loop(1, [val |-> ROne, low |-> RZero, high |-> R(10)])

\* writexml.build_modifier (lumi returns None and is handled by build_sample: NormalizeByTheory)
ImplBuildModifier(w, sm, m) ==
  CASE m.type = "histosys"    -> El("HistoSys", m.name, m.d1, m.d2)
    [] m.type = "normsys"     -> El("OverallSys", m.name, m.d1, m.d2)
    [] m.type = "normfactor"  -> LET a == ImplNormFactorAttrs(w, m.name) IN El("NormFactor", m.name, <<a.val>>, <<a.low, a.high>>)
    [] m.type = "staterror"   -> El("StatError", "", Rel(m.d1, sm.data), <<>>)      \* np.divide(.., where=sampledata != 0), Name deleted
    [] m.type = "shapesys"    -> El("ShapeSys", m.name, Rel(m.d1, sm.data), <<>>)
    [] m.type = "shapefactor" -> El("ShapeFactor", m.name, <<>>, <<>>)

ImplBuildSample(w, sm) ==
  LET RECURSIVE Loop(_, _, _)
      Loop(i, norm, els) ==
        IF i > Len(sm.mods) THEN [name |-> sm.name, hist |-> sm.data, norm |-> norm, els |-> els]
        ELSE IF sm.mods[i].type = "lumi" THEN Loop(i + 1, TRUE, els)
        ELSE Loop(i + 1, norm, Append(els, ImplBuildModifier(w, sm, sm.mods[i])))
  IN Loop(1, FALSE, <<>>)

\* dict(_ChannelSummaryMixin.modifiers)[name]: last type in sorted (name, type) order
ImplModType(w, n) == CHOOSE t \in TypesOf(w, n) : \A u \in TypesOf(w, n) : TypeRank(u) <= TypeRank(t)
ImplPrefix(t) == CASE t \in {"normsys", "histosys"} -> "alpha_" [] t \in {"shapesys", "staterror"} -> "gamma_" [] OTHER -> ""

\* writexml.build_measurement: one pass over config['parameters']
ImplBuildMeasurement(w, ms, lumiAbs) ==
  LET RECURSIVE Loop(_, _)
      Loop(i, st) ==
        IF i > Len(ms.pars) THEN st
        ELSE LET p == ms.pars[i]
                 st1 == IF p.fixed
                        THEN [st EXCEPT !.fixed = Append(@, IF p.name = "lumi" THEN "Lumi" ELSE ImplPrefix(ImplModType(w, p.name)) \o p.name)]
                        ELSE st
                 st2 == IF p.name = "lumi" THEN [st1 EXCEPT !.lumi = p.auxdata[1], !.lumierr = p.sigmas[1]] ELSE st1
             IN Loop(i + 1, st2)
      Fin(fin) == [name |-> ms.name, poi |-> ms.poi, lumi |-> fin.lumi,
                   relerr |-> IF lumiAbs THEN fin.lumierr ELSE RDiv(fin.lumierr, fin.lumi),     \* LumiRelErr=str(lumierr)
                   const |-> fin.fixed]
  IN Fin(Loop(1, [fixed |-> <<>>, lumi |-> ROne, lumierr |-> RZero]))

ImplExport(w, lumiAbs) ==
  [channels |-> [c \in DOMAIN w.channels |->
                   [name |-> w.channels[c].name, data |-> w.channels[c].obs,
                    samples |-> [s \in DOMAIN w.channels[c].samples |-> ImplBuildSample(w, w.channels[c].samples[s])]]],
   meas |-> [i \in DOMAIN w.meas |-> ImplBuildMeasurement(w, w.meas[i], lumiAbs)]]

\* readxml.process_measurements: the ordered dict of the other parameter configurations is
\* popped and re-inserted (at the end) for every Const name
ImplProcessMeasurement(xm, U, nf) ==
  LET lumierr == RMul(xm.lumi, xm.relerr)                                       \* lumierr = lumi * float(LumiRelErr)
      RECURSIVE Loop(_, _, _)
      Loop(i, lfix, map) ==
        IF i > Len(xm.const) THEN [lfix |-> lfix, map |-> map]
        ELSE LET Step(it) ==
                   IF it.name = "lumi" THEN Loop(i + 1, TRUE, map)
                   ELSE LET old == SelectSeq(map, LAMBDA p : p.name = it.name)
                            obj == IF old = <<>> THEN [NoPar EXCEPT !.name = it.name] ELSE old[1]
                        IN Loop(i + 1, lfix, Append(SelectSeq(map, LAMBDA p : p.name # it.name), [obj EXCEPT !.fixed = TRUE]))
             IN Step(Interpret(xm.const[i], U))
      Fin(fin) == [name |-> xm.name, poi |-> xm.poi, pars |-> <<LumiPar(xm.lumi, lumierr, fin.lfix)>> \o fin.map]
  IN Fin(Loop(1, FALSE, nf))

ImplImport(x) ==
  LET G(U, nf) == [channels |-> ImportChannels(x), meas |-> [i \in DOMAIN x.meas |-> ImplProcessMeasurement(x.meas[i], U, nf)]]
  IN G(ElementNames(x), NfConfigs(x))

-----------------------------------------------------------------------------
(* Likelihood terms modulo the names the format dictates                                    *)
PName(chname, m) == IF m.type = "staterror" THEN "staterror_" \o chname ELSE m.name
BinData(m, b) == CASE m.type = "histosys" -> <<m.d1[b], m.d2[b]>>
                   [] m.type = "normsys"  -> <<m.d1[1], m.d2[1]>>
                   [] OTHER -> <<>>

\* one Poisson term per (channel, bin): observed count and, per sample, the nominal yield and its modifiers
MainTerms(w) ==
  UNION {{[ch |-> w.channels[c].name, bin |-> b, n |-> w.channels[c].obs[b],
           samples |-> {[s |-> sm.name, nom |-> sm.data[b],
                         factors |-> {[p |-> PName(w.channels[c].name, m), type |-> m.type, v |-> BinData(m, b)] : m \in Range(sm.mods)}]
                        : sm \in Range(w.channels[c].samples)}]
          : b \in DOMAIN w.channels[c].obs} : c \in DOMAIN w.channels}

\* constraint terms that do not depend on the measurement
ConstraintTerms(w) ==
  {[kind |-> "normal(0|alpha,1)", p |-> m.name, bin |-> 0, x |-> RZero, y |-> RZero]
     : m \in {mm \in AllMods(w) : mm.type \in {"histosys", "normsys"}}}
  \cup
  \* staterror: Normal(1 | gamma_b, delta_b), delta_b = sqrt(sum abs^2) / sum nom over the samples carrying it
  UNION {LET ab(sm, b) == LET m == CHOOSE mm \in Range(sm.mods) : mm.type = "staterror" IN m.d1[b]
             RECURSIVE SumSq(_, _)
             SumSq(S, b) == IF S = {} THEN RZero ELSE LET sm == CHOOSE z \in S : TRUE IN RAdd(RMul(ab(sm, b), ab(sm, b)), SumSq(S \ {sm}, b))
             RECURSIVE SumNom(_, _)
             SumNom(S, b) == IF S = {} THEN RZero ELSE LET sm == CHOOSE z \in S : TRUE IN RAdd(sm.data[b], SumNom(S \ {sm}, b))
             G(carriers) ==
               IF carriers = {} THEN {}
               ELSE {[kind |-> "normal(1|gamma,delta)", p |-> "staterror_" \o w.channels[c].name, bin |-> b,
                      x |-> SumSq(carriers, b), y |-> SumNom(carriers, b)] : b \in DOMAIN w.channels[c].obs}
         IN G({sm \in Range(w.channels[c].samples) : \E m \in Range(sm.mods) : m.type = "staterror"})
        : c \in DOMAIN w.channels}
  \cup
  \* shapesys: Poisson(tau_b | gamma_b tau_b), tau_b = (nom/abs)^2
  UNION {UNION {UNION {IF m.type # "shapesys" THEN {}
                       ELSE {[kind |-> "poisson(tau|gamma*tau)", p |-> m.name, bin |-> b,
                              x |-> w.channels[c].samples[s].data[b], y |-> m.d1[b]] : b \in DOMAIN m.d1}
                       : m \in Range(w.channels[c].samples[s].mods)}
                : s \in DOMAIN w.channels[c].samples} : c \in DOMAIN w.channels}

\* per measurement: POI, constant flags, luminosity constraint Normal(aux | lumi, sigma), normfactor settings
MeasTermsWith(w, pn, nfn, haslumi) ==
  {LET ms == w.meas[i] IN
   [name |-> ms.name, poi |-> ms.poi,
    const |-> {p.name : p \in {q \in Range(ms.pars) : q.fixed /\ q.name \in pn}},
    lumi |-> IF haslumi THEN LET lp == ParOf(ms, "lumi") IN <<lp.auxdata[1], lp.sigmas[1], lp.inits[1]>> ELSE <<>>,
    nf |-> {[p |-> n, st |-> NfSetting(ParOf(ms, n))] : n \in nfn}]
   : i \in DOMAIN w.meas}
MeasTerms(w) == MeasTermsWith(w, ParamNames(w), NormFactorNames(w), HasLumiMod(w))

Terms(w) == [main |-> MainTerms(w), constraints |-> ConstraintTerms(w), meas |-> MeasTerms(w)]

RoundTrip(w) == Terms(DefImport(DefExport(w))) = Terms(w)

\* w2 with the luminosity sigma of every measurement replaced by that of w (to isolate one deviation)
WithLumiSigmaOf(w2, w) ==
  [w2 EXCEPT !.meas = [i \in DOMAIN w2.meas |->
      [w2.meas[i] EXCEPT !.pars = [j \in DOMAIN w2.meas[i].pars |->
          IF w2.meas[i].pars[j].name = "lumi" /\ HasPar(w.meas[i], "lumi")
          THEN [w2.meas[i].pars[j] EXCEPT !.sigmas = ParOf(w.meas[i], "lumi").sigmas]
          ELSE w2.meas[i].pars[j]]]]]

-----------------------------------------------------------------------------
(* History layer: file system and readxml.__FILECACHE__                                     *)
\* a file: content version (0 = no file) and a write stamp (its identity: mtime/size/inode)
NoFile == [ver |-> 0, stamp |-> 0]
WriteFile(fs, d, v, stamp) == [fs EXCEPT ![d] = [ver |-> v, stamp |-> stamp]]
\* definition: an import returns what is on disk now
DefRead(fs, d) == fs[d].ver
\* import_root_histogram: `if fullpath not in filecache: open` -- the entry is keyed by the path only.
\* stale = FALSE models a cache that compares the file identity before reusing the entry.
ImplHit(fs, cache, d, stale) == cache[d].ver # 0 /\ (stale \/ cache[d].stamp = fs[d].stamp)
ImplCacheAfterRead(fs, cache, d, stale) == IF ImplHit(fs, cache, d, stale) THEN cache ELSE [cache EXCEPT ![d] = fs[d]]
ImplRead(fs, cache, d, stale) == ImplCacheAfterRead(fs, cache, d, stale)[d].ver
EmptyCache(D) == [d \in D |-> NoFile]        \* clear_filecache
=============================================================================
