--------------------------- MODULE MC_Asymptotics ---------------------------
(***************************************************************************)
(* C07 as a state machine mirroring the calculator protocol that            *)
(* pyhf.infer.hypotest runs on an AsymptoticCalculator:                     *)
(*                                                                         *)
(*   ChooseCase(kind, base, r, rA)   AsymptoticCalculator(test_stat=kind,   *)
(*                                   calc_base_dist=base); the two fits      *)
(*                                   will yield q = r^2, q_A = rA^2          *)
(*   DistributionsEarly              .distributions() before .teststatistic()*)
(*                                   -> RuntimeError                         *)
(*   TestStatistic                   .teststatistic(): transform into        *)
(*                                   -muhat/sigma space, caches sqrtqmuA_v   *)
(*   Distributions                   .distributions(): shifts and cutoff     *)
(*   PValuesStep                     .pvalues(teststat, sb, b)               *)
(*   ExpectedPValuesStep             .expected_pvalues(sb, b)                *)
(*                                                                         *)
(* Invariants (one per clause of the property):                             *)
(*   ArgsEqual        implementation route = paper route (exact arguments)  *)
(*   SeamContinuous   the qtilde branches agree at r = rA, so attributing   *)
(*                    the seam to either branch ('<' or '<=') is the same   *)
(*   Ordering         arg_sb <= arg_b  (=> 0 <= CLsb <= CLb <= 1, CLs<=1)    *)
(*   BandEqualsPaper  band arguments are -(N + rA), -N  (capped if clipped)  *)
(*   BandMonotone     list order N = 2,1,0,-1,-2: arguments non-decreasing  *)
(*                    with constant gap rA  (=> CLs non-decreasing, since    *)
(*                    Phi(x - a)/Phi(x) increases in x for a > 0: Phi is     *)
(*                    log-concave; the replay re-checks the numbers)         *)
(*   ClippedOnlyClips clipped: every expected value has sqrt(q) >= 0, and   *)
(*                    every N > -rA is unchanged; normal: nothing changes   *)
(*   NeverNaN         observed and expected statistics are >= cutoff        *)
(*   CacheIsAsimov    the cached sqrtqmuA_v is rA whenever it is consumed   *)
(***************************************************************************)
EXTENDS Asymptotics, Json, TLC

CONSTANTS Quarters,     \* naturals k: k/4 is on the grid        (dyadic stratum)
          Thirds,       \* naturals k: k/3 is on the grid        (non-dyadic stratum)
          Larges,       \* naturals on the grid up to and beyond the underflow boundary (|argument| ~ 37)
          EmitCases, EmitMod, EmitRes

\* grid of r = sqrt(q) >= 0 and of rA = sqrt(q_A) > 0
RVals  == {RN(k, 4) : k \in Quarters} \cup {RN(k, 3) : k \in Thirds} \cup {R(k) : k \in Larges}
RAVals == {x \in RVals : x[1] > 0}

ASSUME \A x \in RVals : IsRat(x) /\ x[1] >= 0
ASSUME \A x \in RAVals : IsRat(x) /\ x[1] > 0

VARIABLES pc, kind, base, r, rA, hasCache, cached, t, dists, pv, band,
          prev       \* the statistic pair of an earlier scan point served by the SAME calculator object (Rescan), or unused
vars == <<pc, kind, base, r, rA, hasCache, cached, t, dists, pv, band, prev>>
NoPrev == [used |-> FALSE, r |-> RZero, rA |-> ROne]

NoDists == MkDists("normal", RZero)
NoPV    == [sb |-> RZero, b |-> RZero, valid |-> FALSE]

Init == /\ pc = "idle" /\ kind = "q" /\ base = "normal" /\ r = RZero /\ rA = ROne
        /\ hasCache = FALSE /\ cached = RZero /\ t = RZero /\ dists = NoDists /\ pv = NoPV /\ band = <<>> /\ prev = NoPrev

ChooseCase(k, b, x, y) ==
  /\ pc = "idle"
  /\ kind' = k /\ base' = b /\ r' = x /\ rA' = y /\ pc' = "chosen"
  /\ UNCHANGED <<hasCache, cached, t, dists, pv, band, prev>>

\* distributions(): `if self.sqrtqmuA_v is None: raise RuntimeError`
DistributionsEarly ==
  /\ pc = "chosen" /\ ~hasCache
  /\ pc' = "refused"
  /\ UNCHANGED <<kind, base, r, rA, hasCache, cached, t, dists, pv, band, prev>>

TestStatistic ==
  /\ pc = "chosen"
  /\ t' = TS(kind, r, rA)
  /\ cached' = rA /\ hasCache' = TRUE          \* self.sqrtqmuA_v = sqrt(qmuA_v)
  /\ pc' = "stat"
  /\ UNCHANGED <<kind, base, r, rA, dists, pv, band, prev>>

Distributions ==
  /\ pc = "stat" /\ hasCache
  /\ dists' = MkDists(base, cached)
  /\ pc' = "dist"
  /\ UNCHANGED <<kind, base, r, rA, hasCache, cached, t, pv, band, prev>>

PValuesStep ==
  /\ pc = "dist"
  /\ pv' = PValues(dists, t)
  /\ pc' = "pvals"
  /\ UNCHANGED <<kind, base, r, rA, hasCache, cached, t, dists, band, prev>>

ExpectedPValuesStep ==
  /\ pc = "pvals"
  /\ band' = ExpectedPValues(dists)
  /\ pc' = "band"
  /\ UNCHANGED <<kind, base, r, rA, hasCache, cached, t, dists, pv, prev>>

\* the same calculator object is asked for a second scan point (teststatistic(mu') after a complete first protocol): the
\* statistics are new, the object and everything it remembers (cached sqrt(qA), distributions) stay - TestStatistic must
\* overwrite the cache before anything reads it
RescanR  == {x \in RVals : x \in {ROne}}
RescanRA == {y \in RAVals : y \in {RN(1, 2), R(4)}}
Rescan(x, y) ==
  /\ pc = "band" /\ ~prev.used /\ <<x, y>> # <<r, rA>>
  /\ prev' = [used |-> TRUE, r |-> r, rA |-> rA]
  /\ r' = x /\ rA' = y /\ pc' = "chosen"
  /\ UNCHANGED <<kind, base, hasCache, cached, t, dists, pv, band>>

Next == \/ \E k \in Kinds, b \in Bases, x \in RVals, y \in RAVals : ChooseCase(k, b, x, y)
        \/ \E x \in RescanR, y \in RescanRA : Rescan(x, y)
        \/ DistributionsEarly \/ TestStatistic \/ Distributions \/ PValuesStep \/ ExpectedPValuesStep
Spec == Init /\ [][Next]_vars

-----------------------------------------------------------------------------
HasStat == pc \in {"stat", "dist", "pvals", "band"}
HasPV   == pc \in {"pvals", "band"}

ArgsEqual == HasPV => /\ pv.sb = PaperSB(kind, r, rA)
                      /\ pv.b  = PaperB(kind, r, rA)

SeamContinuous ==
  HasStat => /\ t = TSAlt(kind, r, rA)                                   \* '<' and '<=' give the same statistic
             /\ (r = rA => /\ TrueCase(r, rA) = FalseCase(r, rA) /\ t = RZero
                           /\ PaperSB("qtilde", r, rA) = PaperSB("q", r, rA)
                           /\ PaperB("qtilde", r, rA) = PaperB("q", r, rA))
             \* approaching the seam from above the second branch lies above the first by (r-rA)^2/(2rA) >= 0
             /\ (kind = "qtilde" /\ RGt(r, rA) =>
                   RSub(FalseCase(r, rA), TrueCase(r, rA)) = RDiv(RSq(RSub(r, rA)), RMul(RTwo, rA)))

Ordering ==
  /\ HasPV => RLe(pv.sb, pv.b)
  /\ pc = "band" => \A i \in 1..Len(band) : RLe(band[i].sb, band[i].b)

BandEqualsPaper ==
  pc = "band" => /\ Len(band) = 5
                 /\ \A i \in 1..5 : /\ band[i].n = NSigmas[i]
                                    /\ band[i].sb = PaperBandSB(base, NSigmas[i], rA)
                                    /\ band[i].b  = PaperBandB(base, NSigmas[i], rA)

BandMonotone ==
  pc = "band" => /\ \A i \in 1..4 : /\ RGe(band[i].e, band[i + 1].e)
                                    /\ RLe(band[i].sb, band[i + 1].sb)
                                    /\ RLe(band[i].b, band[i + 1].b)
                 /\ \A i \in 1..5 : RSub(band[i].b, band[i].sb) = rA

ClippedOnlyClips ==
  pc = "band" => \A i \in 1..5 :
     LET n == R(NSigmas[i]) IN
     /\ base = "clipped_normal" => RGe(RAdd(band[i].e, rA), RZero)       \* sqrt(q) of the expected statistic >= 0
     /\ RGt(n, RNeg(rA)) => band[i].e = n                                 \* everything else unchanged
     /\ base = "normal" => band[i].e = n

NeverNaN ==
  /\ HasPV => pv.valid
  /\ pc = "band" => \A i \in 1..5 : band[i].valid

CacheIsAsimov == /\ (hasCache /\ pc \in {"stat", "dist", "pvals", "band"}) => cached = rA    \* between Rescan and TestStatistic the cache is stale by design
                 /\ pc \in {"dist", "pvals", "band"} => hasCache /\ dists.sb.shift = RNeg(rA) /\ dists.b.shift = RZero

-----------------------------------------------------------------------------
Case ==
  [kind |-> kind, base |-> base, r |-> r, rA |-> rA, q |-> RSq(r), qA |-> RSq(rA),
   cmp |-> RCmp(r, rA), branch2 |-> PaperSecondBranch(kind, r, rA),
   def  |-> [sb |-> PaperSB(kind, r, rA), b |-> PaperB(kind, r, rA),
             band |-> [i \in 1..5 |-> [n |-> NSigmas[i], sb |-> PaperBandSB(base, NSigmas[i], rA),
                                       b |-> PaperBandB(base, NSigmas[i], rA),
                                       capped |-> PaperE(base, NSigmas[i], rA) # R(NSigmas[i])]]],
   impl |-> [t |-> t, shift |-> dists.sb.shift, cutfin |-> dists.sb.cutoff.fin, cutoff |-> dists.sb.cutoff.v,
             sb |-> pv.sb, b |-> pv.b, e |-> [i \in 1..5 |-> band[i].e]],
   prev |-> IF prev.used THEN << [r |-> prev.r, rA |-> prev.rA, q |-> RSq(prev.r), qA |-> RSq(prev.rA)] >> ELSE <<>>]

KindNo == IF kind = "q" THEN 0 ELSE IF kind = "qtilde" THEN 1 ELSE 2
Hash == r[1] * 7 + r[2] * 13 + rA[1] * 17 + rA[2] * 29 + KindNo * 5 + (IF base = "normal" THEN 0 ELSE 3)
        + (IF prev.used THEN prev.r[1] * 3 + prev.rA[1] * 11 + prev.rA[2] ELSE 0)
Emit == (EmitCases /\ pc = "band" /\ Hash % EmitMod = EmitRes) => PrintT(ToJson(Case))
=============================================================================
