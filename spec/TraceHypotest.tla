--------------------------- MODULE TraceHypotest ---------------------------
(***************************************************************************)
(* Binding B for C08 and C14: one trace = one successful call of           *)
(* pyhf.infer.hypotest on the real code.                                   *)
(*   ht.call    (driver) kind, calculator, ntoys, tested mu, POI index,    *)
(*              observed dataset, flags -- and, derived by the driver      *)
(*              AFTER the run from the recorded fit results through the    *)
(*              model's own public API: the Asimov dataset =                *)
(*              expected_data(result of the Asimov fit), or the toy         *)
(*              datasets = make_pdf(result of the signal/background fit)    *)
(*              .sample(ntoys) with the random generator re-seeded           *)
(*   fit.*      H4 records of every fit, with the dataset each ran on       *)
(*   ht.return  (driver) the layout of the returned object as codes         *)
(* TLC checks every fit against HypotestDefs.Plan: POI treatment, dataset   *)
(* (exact, order lane), order; the Fit protocol of each fit (TraceFit);     *)
(* and the layout against HypotestDefs.Assemble.                            *)
(***************************************************************************)
EXTENDS TraceFit, HypotestDefs

VARIABLES ht, nfit
hvars == <<vars, ht, nfit>>

Zero == <<524288, 0, 0>>
One  == <<786176, 0, 0>>
NoHt == [kind |-> "none"]
HInit == Init /\ ht = NoHt /\ nfit = 0

HtCall == /\ Is("ht.call") /\ phase = "idle" /\ ht = NoHt /\ Consume
          /\ ht' = Ev /\ nfit' = 0 /\ UNCHANGED <<phase, shim, raw>>

ThePlan == Plan(ht.kind, ht.calc, ht.ntoys)
DataOf(d) == CASE d[1] = "obs" -> ht.obs [] d[1] = "asimov" -> ht.asimov
               [] d[1] = "sig" -> ht.sig[d[2]] [] d[1] = "bkg" -> ht.bkg[d[2]]
PoiValue(p) == CASE p = "mu" -> ht.mu [] p = "zero" -> Zero [] p = "one" -> One

HShim ==
  /\ TShim /\ ht # NoHt /\ nfit < Len(ThePlan)
  /\ LET f == ThePlan[nfit + 1]  fixedIdx == {Ev.fixed_vals[k][1] : k \in DOMAIN Ev.fixed_vals} IN
     /\ IF f.poi = "free" THEN ht.poi \notin fixedIdx
        ELSE \E k \in DOMAIN Ev.fixed_vals : Ev.fixed_vals[k][1] = ht.poi /\ Ev.fixed_vals[k][2] = PoiValue(f.poi)
     /\ Ev.data = DataOf(f.data)
     \* the caller's own fixed mask and bounds (where the driver logged them) reach EVERY fit of the test
     /\ ("held" \in DOMAIN ht =>
           /\ fixedIdx \ {ht.poi} = {ht.held[h][1] : h \in DOMAIN ht.held}
           /\ \A h \in DOMAIN ht.held : \E k \in DOMAIN Ev.fixed_vals : Ev.fixed_vals[k] = ht.held[h])
     /\ ("bounds" \in DOMAIN ht => Ev.bounds = ht.bounds)
  /\ UNCHANGED <<ht, nfit>>
HRaw == TRaw /\ UNCHANGED <<ht, nfit>>
HReturn == TReturn /\ nfit' = nfit + 1 /\ UNCHANGED ht

HtReturn ==
  /\ Is("ht.return") /\ phase = "idle" /\ ht # NoHt /\ nfit = Len(ThePlan) /\ Consume
  /\ Ev.layout = AssembleCodes(ht.tail, ht.exp, ht.expset, ht.calcflag, ht.kind = "q0")
  /\ ht' = NoHt /\ nfit' = 0 /\ UNCHANGED <<phase, shim, raw>>

HNextTrace ==
  /\ tid <= Len(Traces) /\ l = Len(Tr.events) + 1 /\ phase = "idle" /\ ht = NoHt
  /\ PrintT(<<"TRACE-OK", Tr.id>>)
  /\ tid' = tid + 1 /\ l' = 1 /\ UNCHANGED <<phase, shim, raw, ht, nfit>>

HNext == HtCall \/ HShim \/ HRaw \/ HReturn \/ HtReturn \/ HNextTrace
TraceSpecH == HInit /\ [][HNext]_hvars
=============================================================================
