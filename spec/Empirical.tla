------------------------------ MODULE Empirical ------------------------------
(***************************************************************************)
(* C14: the empirical p-value of an observed statistic is EXACTLY the      *)
(* fraction of sampled statistics greater than or equal to it.             *)
(* State machine: samples are appended one at a time (a toy at a time),    *)
(* then an observed value is chosen; invariants: the implementation-shaped *)
(* computation (sum of where(sample >= v, 1, 0) / number of samples) equals *)
(* the definition, lies in [0, 1], never increases with v, counts ties.     *)
(***************************************************************************)
EXTENDS Rat, FiniteSets, Json, TLC

CONSTANTS MaxSamples, Vals, EmitCases       \* Vals: small set of integers (statistic values scaled)
VARIABLES samples, v, phase
vars == <<samples, v, phase>>

Init == samples = <<>> /\ v = 0 /\ phase = "sampling"
AddSample(x) == /\ phase = "sampling" /\ Len(samples) < MaxSamples
                /\ samples' = Append(samples, x) /\ UNCHANGED <<v, phase>>
Observe(x) == /\ phase = "sampling" /\ Len(samples) >= 1
              /\ v' = x /\ phase' = "observed" /\ UNCHANGED samples
Next == (\E x \in Vals : AddSample(x)) \/ (\E x \in Vals \cup {-1, 99} : Observe(x))
Spec == Init /\ [][Next]_vars

\* definition
PValue(s, x) == RN(Cardinality({i \in DOMAIN s : s[i] >= x}), Len(s))
\* implementation: elementwise where, sum, divide by the length of the raveled sample tensor
RECURSIVE SumWhere(_, _, _)
SumWhere(s, x, i) == IF i > Len(s) THEN 0 ELSE (IF s[i] >= x THEN 1 ELSE 0) + SumWhere(s, x, i + 1)
ImplPValue(s, x) == RN(SumWhere(s, x, 1), Len(s))

Obs == phase = "observed"
ImplEqDef == Obs => ImplPValue(samples, v) = PValue(samples, v)
InUnit == Obs => RLe(RZero, PValue(samples, v)) /\ RLe(PValue(samples, v), ROne)
Monotone == Obs => \A w \in Vals \cup {-1, 99} : w >= v => RLe(PValue(samples, w), PValue(samples, v))
\* a sample equal to the observed value counts: the p-value strictly drops just above it
TiesCounted == Obs /\ (\E i \in DOMAIN samples : samples[i] = v) => RGt(PValue(samples, v), PValue(samples, v + 1))
OutsideRange == Obs => (v = 99 => PValue(samples, v) = RZero) /\ (v = -1 => PValue(samples, v) = ROne)
Emit == (EmitCases /\ Obs) => PrintT(ToJson([samples |-> samples, v |-> v, p |-> PValue(samples, v)]))
=============================================================================
