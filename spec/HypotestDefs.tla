---------------------------- MODULE HypotestDefs ----------------------------
(***************************************************************************)
(* C08 / C14: what a hypothesis test must do, as data.                     *)
(*  Plan(kind, calc, ntoys)  the sequence of fits the test runs, each with *)
(*      the POI treatment ("mu": fixed at the tested value, "zero"/"one":  *)
(*      fixed at 0/1, "free") and the dataset it runs on ("obs", "asimov", *)
(*      <<"sig", i>>, <<"bkg", i>>).                                       *)
(*  Assemble(flags, isQ0)    the documented layout of the returned tuple.  *)
(***************************************************************************)
EXTENDS Naturals, Sequences

MuEff(kind) == IF kind = "q0" THEN "zero" ELSE "mu"        \* q0 always tests 0
AsimovMu(kind) == IF kind = "q0" THEN "one" ELSE "zero"    \* background-only (signal for discovery)

StatFits(kind, ds) == << [poi |-> MuEff(kind), data |-> ds], [poi |-> "free", data |-> ds] >>

RECURSIVE ToyFits(_, _, _, _)
ToyFits(kind, tag, i, n) == IF i > n THEN <<>> ELSE StatFits(kind, <<tag, i>>) \o ToyFits(kind, tag, i + 1, n)

Plan(kind, calc, ntoys) ==
  IF calc = "asymptotics"
  THEN \* hypotest: calc.teststatistic (statistic on data; Asimov fit; statistic on Asimov data), then distributions
       StatFits(kind, <<"obs", 0>>) \o << [poi |-> AsimovMu(kind), data |-> <<"obs", 0>>] >> \o StatFits(kind, <<"asimov", 0>>)
  ELSE \* toybased: teststatistic on data; signal-hypothesis fit (at the tested value as passed), background fit,
       \* statistic of every signal toy, then of every background toy
       StatFits(kind, <<"obs", 0>>)
       \o << [poi |-> "mu", data |-> <<"obs", 0>>], [poi |-> AsimovMu(kind), data |-> <<"obs", 0>>] >>
       \o ToyFits(kind, "sig", 1, ntoys) \o ToyFits(kind, "bkg", 1, ntoys)

\* which fit's result the Asimov data / the toy samples are generated from (index into Plan)
AsimovSource == 3
SigSource == 3
BkgSource == 4

\* documented result layout as codes: 1 obs = CLs (CLs+b for q0), 2 [CLs+b, CLb], 3 [CLb] (q0), 4 median expected,
\* 5 the five-point band (-2..+2 sigma), 6 the calculator
AssembleCodes(tail, exp, expset, calcflag, isQ0) ==
     <<1>>
  \o (IF tail THEN << IF isQ0 THEN 3 ELSE 2 >> ELSE <<>>)
  \o (IF expset THEN (IF exp THEN <<4>> ELSE <<>>) \o <<5>> ELSE (IF exp THEN <<4>> ELSE <<>>))
  \o (IF calcflag THEN <<6>> ELSE <<>>)
Label(c) == CASE c = 1 -> "obs" [] c = 2 -> <<"CLsb", "CLb">> [] c = 3 -> <<"CLb">> [] c = 4 -> "median"
              [] c = 5 -> <<"band-2", "band-1", "band0", "band+1", "band+2">> [] c = 6 -> "calculator"
Assemble(tail, exp, expset, calcflag, isQ0) ==
  LET cs == AssembleCodes(tail, exp, expset, calcflag, isQ0) IN [i \in 1..Len(cs) |-> Label(cs[i])]

Prereq(hasPoi, poiFixed) == IF ~hasPoi THEN "UnspecifiedPOI" ELSE IF poiFixed THEN "InvalidModel" ELSE "ok"
=============================================================================
