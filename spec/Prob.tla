-------------------------------- MODULE Prob --------------------------------
(***************************************************************************)
(* C04: the probability primitives of the tensor backends.                 *)
(*                                                                         *)
(* What a TLA+ model can carry here is the CASE STRUCTURE and the ALGEBRA   *)
(* of the primitives, not their real-number values:                         *)
(*   - the argument lattice (decimal numbers m * 10^e over 20+ orders of    *)
(*     magnitude, per precision, including 0 and the smallest denormal);    *)
(*   - the case split of the Poisson log-mass (rate -> 0 limits against the *)
(*     regular Gamma-continued formula) and which "terms are involved" in   *)
(*     each case - the error budget of the property is stated in units of   *)
(*     rounding of exactly these terms;                                     *)
(*   - the relations between calls that hold whatever the real values are:  *)
(*     variants (non-log = exp(log), distribution object = function,        *)
(*     pyhf.probability class = backend function), the Poisson recurrence   *)
(*     log P(n+1|lam) - log P(n|lam) = ln lam - ln(n+1), the reflection     *)
(*     Phi(z) + Phi(-z) = 1, monotonicity of Phi along the ordered lattice, *)
(*     and location/scale equivariance of the Normal functions on exactly   *)
(*     representable triples.                                               *)
(* The real-number value of a "regular" case is left symbolic (a term       *)
(* tree) and supplied by the leaf evaluator (mpmath, 60 digits, evaluated   *)
(* at the binary floating-point arguments actually passed).                 *)
(*                                                                         *)
(* The machine is a call session on one backend/precision: SetBackend       *)
(* chooses them, Call performs one primitive call on lattice arguments;     *)
(* the obligation attached to a call is what the harness checks.            *)
(***************************************************************************)
EXTENDS Integers, Sequences, FiniteSets, TLC

\* decimal lattice number  <<m, e>>  =  m * 10^e
D(m, e) == <<m, e>>
DZero == <<0, 0>>
IsZero(x) == x[1] = 0
DNeg(x) == <<-x[1], x[2]>>
IsIntegerValued(x) == x[2] >= 0          \* sufficient on the lattice used (no trailing-zero mantissas with e < 0)
DSucc(x) == IF x[2] = 0 THEN <<x[1] + 1, 0>> ELSE <<x[1] * 10 + 1, 0>>      \* n + 1 for the small integer counts used in recurrences

-----------------------------------------------------------------------------
(* Poisson log-mass: case split of the definition                           *)
PoisCase(n, lam) == IF IsZero(lam) THEN (IF IsZero(n) THEN "limit_one" ELSE "limit_zero") ELSE "regular"
\* the value: 0 (probability 1), -infinity (probability 0), or the symbolic tree  n ln(lam) - lam - lnGamma(n + 1)
PoisValue(n, lam) ==
  CASE PoisCase(n, lam) = "limit_one"  -> [k |-> "const", v |-> "zero"]
    [] PoisCase(n, lam) = "limit_zero" -> [k |-> "const", v |-> "-inf"]
    [] OTHER -> [k |-> "sum", terms |-> << [k |-> "xlogy", x |-> n, y |-> lam], [k |-> "neg", x |-> lam], [k |-> "neglgamma1p", x |-> n] >>]
\* Normal log-density: -(x - mu)^2 / (2 sigma^2) - ln sigma - ln(2 pi)/2     (sigma > 0)
NormValue(x, mu, sigma) ==
  [k |-> "sum", terms |-> << [k |-> "neghalfsqz", x |-> x, mu |-> mu, sigma |-> sigma], [k |-> "negln", x |-> sigma], [k |-> "const", v |-> "-halfln2pi"] >>]
\* Normal cumulative distribution Phi((x - mu)/sigma); the terms involved are 1/2 and erf/2
CdfValue(x, mu, sigma) == [k |-> "phi", x |-> x, mu |-> mu, sigma |-> sigma]

Functions == {"poisson_logpdf", "normal_logpdf", "normal_cdf"}
\* every variant must agree with its base function (the non-log ones after exponentiation)
Variants(f) == CASE f = "poisson_logpdf" -> {"poisson_logpdf", "poisson", "poisson_dist.log_prob", "probability.Poisson.log_prob"}
                 [] f = "normal_logpdf"  -> {"normal_logpdf", "normal", "normal_dist.log_prob", "probability.Normal.log_prob"}
                 [] f = "normal_cdf"     -> {"normal_cdf"}
=============================================================================
