------------------------------- MODULE Backend -------------------------------
(***************************************************************************)
(* C11: the global backend state and the weak-reference event registry.    *)
(*                                                                         *)
(* State (tensor/manager.py: this.state; events.py: __events):             *)
(*   cur    = <<name, precision>> of the current tensor backend            *)
(*   opt    = name of the current optimiser                                *)
(*   dflt   = <<name, precision, optimiser>> default backend                *)
(*   objs   : id -> [alive, pre, nsub]   tensor-holding objects ever made;  *)
(*            pre = backend tag its tensors were last derived for           *)
(*   subs   : sequence of object ids = the 'tensorlib_changed' callback     *)
(*            list in subscription order (weak entries: an id whose object *)
(*            is no longer alive is a dead weakref)                         *)
(*   pc     : "idle" | "swapped" | "fired"  -- set_backend is three steps   *)
(*   pend   : what the running set_backend decided at the swap             *)
(*   called : ids whose callback ran in the current/last fire (history)     *)
(*                                                                         *)
(* set_backend(name, precision, optimiser, default) =                       *)
(*   Refuse (bad argument: nothing changes)                                 *)
(*   Swap   this.state['current'] = ...; decide tensorlib_changed           *)
(*   Fire   trigger('tensorlib_changed') iff changed: live subscribers in   *)
(*          subscription order re-derive their tensors; dead ones are       *)
(*          skipped and flushed afterwards                                  *)
(*   Setup  new_backend._setup(); idle again                                *)
(***************************************************************************)
EXTENDS Naturals, Sequences, FiniteSets

CONSTANTS BNames, Precs, Opts, MaxObjs

VARIABLES cur, opt, dflt, objs, subs, pc, pend, called
vars == <<cur, opt, dflt, objs, subs, pc, pend, called>>

Ids == 1..MaxObjs
NoPend == [changed |-> FALSE, default |-> FALSE]

Init ==
  /\ cur = <<"numpy", "64b">> /\ opt = "scipy" /\ dflt = <<"numpy", "64b", "scipy">>
  /\ objs = <<>> /\ subs = <<>> /\ pc = "idle" /\ pend = NoPend /\ called = {}

\* object construction: derives tensors for the current backend and subscribes _precompute
Create ==
  /\ pc = "idle" /\ Len(objs) < MaxObjs
  /\ objs' = Append(objs, [alive |-> TRUE, pre |-> cur])
  /\ subs' = Append(subs, Len(objs) + 1)
  /\ UNCHANGED <<cur, opt, dflt, pc, pend, called>>

\* last strong reference dropped: the weak entry in subs is now dead (not yet flushed)
Drop(i) ==
  /\ pc = "idle" /\ i \in DOMAIN objs /\ objs[i].alive
  /\ objs' = [objs EXCEPT ![i].alive = FALSE]
  /\ UNCHANGED <<cur, opt, dflt, subs, pc, pend, called>>

Refuse == pc = "idle" /\ UNCHANGED vars       \* unsupported name / precision / optimiser

Swap(n, p, o, d) ==
  /\ pc = "idle"
  /\ pend' = [changed |-> (<<n, p>> # cur), default |-> d]
  /\ cur' = <<n, p>> /\ opt' = o
  /\ dflt' = IF d THEN <<n, p, o>> ELSE dflt
  /\ pc' = "swapped" /\ called' = {}
  /\ UNCHANGED <<objs, subs>>

Live(i) == objs[i].alive
Fire ==
  /\ pc = "swapped"
  /\ IF pend.changed
     THEN /\ objs' = [i \in DOMAIN objs |-> IF Live(i) /\ (\E k \in DOMAIN subs : subs[k] = i)
                                           THEN [objs[i] EXCEPT !.pre = cur] ELSE objs[i]]
          /\ called' = {subs[k] : k \in {k \in DOMAIN subs : Live(subs[k])}}
          /\ subs' = SelectSeq(subs, LAMBDA i : Live(i))            \* _flush after the calls
     ELSE UNCHANGED <<objs, subs, called>>
  /\ pc' = "fired"
  /\ UNCHANGED <<cur, opt, dflt, pend>>

Setup ==
  /\ pc = "fired" /\ pc' = "idle" /\ pend' = NoPend
  /\ UNCHANGED <<cur, opt, dflt, objs, subs, called>>

\* evaluation of a live object (no state change; observed by the invariants)
Eval(i) == pc = "idle" /\ i \in DOMAIN objs /\ objs[i].alive /\ UNCHANGED vars

Next ==
  \/ Create
  \/ \E i \in Ids : Drop(i)
  \/ \E n \in BNames, p \in Precs, o \in Opts, d \in BOOLEAN : Swap(n, p, o, d)
  \/ Fire \/ Setup
Spec == Init /\ [][Next]_vars

-----------------------------------------------------------------------------
TypeOK ==
  /\ cur \in BNames \X Precs /\ opt \in Opts /\ pc \in {"idle", "swapped", "fired"}
  /\ \A k \in DOMAIN subs : subs[k] \in DOMAIN objs
\* every live object evaluates with tensors of the current backend whenever no switch is in flight
StaleFree == pc \in {"idle", "fired"} => \A i \in DOMAIN objs : objs[i].alive => objs[i].pre = cur
\* objects that have been garbage-collected are not called
DeadNeverCalled == pc = "fired" => \A i \in called : objs[i].alive
\* callbacks run iff the backend (name or precision) really changed
EventIffChanged == pc = "fired" => ((called # {}) => pend.changed)
AllLiveCalled == pc = "fired" /\ pend.changed => called = {i \in DOMAIN objs : objs[i].alive}
DefaultUntouchedUnlessAsked == [][dflt' # dflt => (\E n \in BNames, p \in Precs, o \in Opts : Swap(n, p, o, TRUE))]_vars
\* dead entries do not accumulate across switches that fire
NoDeadAfterFire == pc = "fired" /\ pend.changed => \A k \in DOMAIN subs : objs[subs[k]].alive
=============================================================================
