------------------------------- MODULE HFGrad -------------------------------
(***************************************************************************)
(* C13: the exact gradient of twice the negative log-likelihood.           *)
(*                                                                         *)
(*   d(2NLL)/d theta = 2 sum_bins (1 - n/lambda) d lambda/d theta           *)
(*                     + 2 (theta - a)/sigma^2          (Gaussian constraint) *)
(*                     + 2 (tau - a/theta)              (Poisson constraint)  *)
(* with d lambda/d theta by the product/chain rule over the DECLARED         *)
(* modifiers of each sample (definition layer of HFModel).  Everything is    *)
(* rational except the derivative of the exponential normsys factor          *)
(* base^alpha, which is ln(base) base^alpha: the gradient is therefore a     *)
(* LogLin value  r0 + sum_j r_j ln(base_j)  with exact rational r's; the     *)
(* leaf evaluator supplies the logarithms.                                   *)
(* Points where the published function has a kink (codes 0 and 1 at alpha=0) *)
(* or where the code-4 core polynomial applies (|alpha| < 1) are excluded    *)
(* by Differentiable.                                                        *)
(***************************************************************************)
EXTENDS HFInterp

\* LogLin values: [r |-> rational, logs |-> sequence of [base, coef]]
LL(r) == [r |-> r, logs |-> <<>>]
LLAdd(x, y) == [r |-> RAdd(x.r, y.r), logs |-> x.logs \o y.logs]
LLScale(k, x) == [r |-> RMul(k, x.r), logs |-> [i \in DOMAIN x.logs |-> [base |-> x.logs[i].base, coef |-> RMul(k, x.logs[i].coef)]]]
RECURSIVE LLSum(_)
LLSum(s) == IF s = <<>> THEN LL(RZero) ELSE LLAdd(Head(s), LLSum(Tail(s)))

\* derivative of the additive interpolation codes with respect to alpha
DDelta(code, dn, n, up, a) ==
  LET A == RSub(RDiv(RAdd(up, dn), R(2)), n)   B == RDiv(RSub(up, dn), R(2)) IN
  CASE code = 0  -> IF RGt(a, RZero) THEN RSub(up, n) ELSE RSub(n, dn)
    [] code = 2  -> IF RGt(a, ROne) THEN RAdd(B, RMul(R(2), A))
                    ELSE IF RLt(a, R(-1)) THEN RSub(B, RMul(R(2), A))
                    ELSE RAdd(RMul(RMul(R(2), A), a), B)
    [] code = 44 -> D1_4p(DefRegime(44, Cmp3(a, ROne)), dn, n, up, a)

\* does parameter (n, i) act on bin b through modifier md?
Acts(md, n, i, b) == md.name = n /\ (IF BinWise(md.type) THEN i = b ELSE i = 1)

\* d(sample rate at bin b)/d theta[n][i]
DSample(set, sm, theta, b, n, i) ==
  LET K == DOMAIN sm.mods
      val(k) == DefFactorOrDelta(set, sm, sm.mods[k], theta, b)
      facK == {k \in K : ~IsAdditive(sm.mods[k].type)}
      addK == {k \in K : IsAdditive(sm.mods[k].type)}
      ProdOver(S) == RProdSeq([q \in 1..Cardinality(S) |-> val(SortSet(S)[q])])
      Fall == ProdOver(facK)
      Aval == RAdd(sm.data[b], RSumSeq([q \in 1..Cardinality(addK) |-> val(SortSet(addK)[q])]))
      fcon(k) == LET md == sm.mods[k] IN
                 IF ~Acts(md, n, i, b) THEN LL(RZero)
                 ELSE IF md.type = NORMSYS
                 THEN LET a == theta[n][1] IN
                      IF a[1] >= 0 THEN [r |-> RZero, logs |-> << [base |-> md.d2[1], coef |-> RMul(Fall, Aval)] >>]
                      ELSE [r |-> RZero, logs |-> << [base |-> md.d1[1], coef |-> RNeg(RMul(Fall, Aval))] >>]
                 ELSE LL(RMul(ProdOver(facK \ {k}), Aval))           \* f = theta: product of the other factors
      acon(k) == LET md == sm.mods[k] IN
                 IF ~Acts(md, n, i, b) THEN LL(RZero)
                 ELSE LL(RMul(Fall, DDelta(set.hcode, md.d1[b], sm.data[b], md.d2[b], theta[n][1])))
  IN LLAdd(LLSum([q \in 1..Cardinality(facK) |-> fcon(SortSet(facK)[q])]),
           LLSum([q \in 1..Cardinality(addK) |-> acon(SortSet(addK)[q])]))

\* d lambda / d theta[n][i] for every bin of every channel (sequence over channels of sequences over bins).
\* The combination 2 sum_bins (1 - n/lambda) d lambda is formed by the leaf evaluator from these exact pieces and the
\* exact rates (keeps TLC's 32-bit rationals small).
DLambda(spec, cfg, set, theta, n, i) ==
  [ci \in 1..Len(cfg.channels) |->
      LET ch == Chan(spec, cfg.channels[ci]) IN
      [b \in 1..Len(ch.samples[1].data) |->
          LLSum([j \in 1..Len(ch.samples) |-> DSample(set, ch.samples[j], theta, b, n, i)])]]

(* Symbolic lane (non-integer normsys alpha, inside and outside the code-4 core): the derivative of a sample's rate is a  *)
(* sum of terms  coef * prod atoms  where an atom [lo, hi, alpha, d] stands for the normsys factor (d = FALSE) or its     *)
(* derivative with respect to alpha (d = TRUE); coef is exact.  The leaf evaluator supplies atoms: code 1 and code 4     *)
(* outside the core  base^|alpha|  and  +-ln(base) base^|alpha|;  code 4 inside the core the A_inverse polynomial and    *)
(* its termwise derivative.  Code 4 is differentiable everywhere; code 1 has its kink at alpha = 0 (excluded).           *)
DSampleSym(set, sm, theta, b, n, i) ==
  LET K == DOMAIN sm.mods
      nsK  == {k \in K : sm.mods[k].type = NORMSYS}
      facK == {k \in K : ~IsAdditive(sm.mods[k].type) /\ sm.mods[k].type # NORMSYS}
      addK == {k \in K : IsAdditive(sm.mods[k].type)}
      val(k) == DefFactorOrDelta(set, sm, sm.mods[k], theta, b)
      ProdOver(S) == RProdSeq([q \in 1..Cardinality(S) |-> val(SortSet(S)[q])])
      Fall == ProdOver(facK)
      Aval == RAdd(sm.data[b], RSumSeq([q \in 1..Cardinality(addK) |-> val(SortSet(addK)[q])]))
      atoms(dk) == [q \in 1..Cardinality(nsK) |-> LET k == SortSet(nsK)[q] IN
                      [lo |-> sm.mods[k].d1[1], hi |-> sm.mods[k].d2[1], alpha |-> theta[sm.mods[k].name][1], d |-> (k = dk)]]
      term(k) == LET md == sm.mods[k] IN
                 IF ~Acts(md, n, i, b) THEN <<>>
                 ELSE IF md.type = NORMSYS THEN << [coef |-> RMul(Fall, Aval), atoms |-> atoms(k)] >>
                 ELSE IF IsAdditive(md.type)
                      THEN << [coef |-> RMul(Fall, DDelta(set.hcode, md.d1[b], sm.data[b], md.d2[b], theta[n][1])), atoms |-> atoms(0)] >>
                      ELSE << [coef |-> RMul(ProdOver(facK \ {k}), Aval), atoms |-> atoms(0)] >>
  IN Flatten([k \in 1..Len(sm.mods) |-> term(k)])

DLambdaSym(spec, cfg, set, theta, n, i) ==
  [ci \in 1..Len(cfg.channels) |->
      LET ch == Chan(spec, cfg.channels[ci]) IN
      [b \in 1..Len(ch.samples[1].data) |->
          Flatten([j \in 1..Len(ch.samples) |-> DSampleSym(set, ch.samples[j], theta, b, n, i)])]]

Differentiable(cfg, set, theta) ==
  \A q \in 1..Len(cfg.modifiers) :
     LET n == cfg.modifiers[q][1]  t == cfg.modifiers[q][2] IN
     /\ (t = HISTOSYS /\ set.hcode = 0 => theta[n][1] # RZero)
     /\ (t = NORMSYS => theta[n][1] # RZero)
=============================================================================
