------------------------------ MODULE FitClosed ------------------------------
(***************************************************************************)
(* C05/C06/C08: counting models whose maximum-likelihood estimate is known *)
(* in closed form, computed with exact rationals.                          *)
(*  F1(s, b, n): one bin, rate mu*s + b.   muhat = clip((n - b)/s, lo, hi)  *)
(*  F2(c, b[], n[]): bins with proportional signal s_i = c*b_i, rate        *)
(*      (mu*c + 1)*b_i.               muhat = clip((N/B - 1)/c, lo, hi)      *)
(*      with N = sum n_i, B = sum b_i (the likelihood is concave in mu and  *)
(*      monotone on either side of the unconstrained optimum, so clipping   *)
(*      to the bounds gives the constrained optimum).                        *)
(* The objective value is emitted as its bag of Poisson terms (symbolic     *)
(* lane); test statistics and asymptotic arguments are built from them by   *)
(* the leaf evaluator.                                                       *)
(***************************************************************************)
EXTENDS Rat, Json, TLC

CONSTANTS Tier, EmitCases        \* Tier 1: quick grid, 2: thorough grid
SVals == IF Tier = 1 THEN {R(5), RN(7, 2)} ELSE {R(5), R(12), RN(7, 2), RN(1, 2)}
BVals == IF Tier = 1 THEN {R(50), R(3)} ELSE {R(50), R(10), R(3), RN(41, 2)}
NVals == IF Tier = 1 THEN {R(0), R(3), R(55), RN(131, 2)} ELSE {R(0), R(1), R(3), R(12), R(55), R(70), RN(131, 2), R(140)}
MuTests == IF Tier = 1 THEN {R(0), R(1), R(3)} ELSE {R(0), RN(1, 2), R(1), R(3), RN(15, 2)}
Los == {R(0), R(-5)}
VARIABLES fam, s, b, n, mu, lo
vars == <<fam, s, b, n, mu, lo>>

Hi == R(10)
Clip(x, l) == RMax(l, RMin(x, Hi))
MuHat1(ss, bb, nn, l) == Clip(RDiv(RSub(nn, bb), ss), l)
Rate1(m, ss, bb) == RAdd(RMul(m, ss), bb)
\* F2: two bins b, 2b+1 ; n, n+3 ; signal c*b_i with c = s/b
B2(bb) == <<bb, RAdd(RMul(R(2), bb), ROne)>>
N2(nn) == <<nn, RAdd(nn, R(3))>>
MuHat2(ss, bb, nn, l) == LET c == RDiv(ss, bb)
                             NN == RAdd(N2(nn)[1], N2(nn)[2])  BB == RAdd(B2(bb)[1], B2(bb)[2])
                         IN Clip(RDiv(RSub(RDiv(NN, BB), ROne), c), l)
Rate2(m, ss, bb, i) == RMul(RAdd(RMul(m, RDiv(ss, bb)), ROne), B2(bb)[i])

Init == /\ fam \in {1, 2} /\ s \in SVals /\ b \in BVals /\ n \in NVals /\ mu \in MuTests /\ lo \in Los
Next == UNCHANGED vars
Spec == Init /\ [][Next]_vars

MuHat == IF fam = 1 THEN MuHat1(s, b, n, lo) ELSE MuHat2(s, b, n, lo)
Terms(m) == IF fam = 1 THEN << [k |-> "pois", n |-> n, lam |-> Rate1(m, s, b)] >>
            ELSE [i \in 1..2 |-> [k |-> "pois", n |-> N2(n)[i], lam |-> Rate2(m, s, b, i)]]
\* the same likelihood evaluated on an Asimov dataset = the expectation at mu_A (exact: no nuisance parameters)
ATerms(m, muA) == IF fam = 1 THEN << [k |-> "pois", n |-> Rate1(muA, s, b), lam |-> Rate1(m, s, b)] >>
                  ELSE [i \in 1..2 |-> [k |-> "pois", n |-> Rate2(muA, s, b, i), lam |-> Rate2(m, s, b, i)]]
\* sanity of the closed form on the model itself: muhat is feasible and, when interior, solves the score equation
Feasible == RLe(lo, MuHat) /\ RLe(MuHat, Hi)
ScoreZeroWhenInterior ==
  (RLt(lo, MuHat) /\ RLt(MuHat, Hi)) =>
     IF fam = 1 THEN Rate1(MuHat, s, b) = n
     ELSE RAdd(Rate2(MuHat, s, b, 1), Rate2(MuHat, s, b, 2)) = RAdd(N2(n)[1], N2(n)[2])
Case == [fam |-> fam, s |-> s, b |-> b, n |-> n, mu |-> mu, lo |-> lo, hi |-> Hi, muhat |-> MuHat,
         bkg |-> IF fam = 1 THEN <<b>> ELSE B2(b), sig |-> IF fam = 1 THEN <<s>> ELSE [i \in 1..2 |-> RMul(RDiv(s, b), B2(b)[i])],
         obs |-> IF fam = 1 THEN <<n>> ELSE N2(n),
         terms_hat |-> Terms(MuHat), terms_mu |-> Terms(Clip(mu, lo)), terms_0 |-> Terms(Clip(RZero, lo)),
         \* on Asimov data generated at mu_A the estimate is mu_A itself (clipped): terms at the tested mu and at the estimate
         a0_terms_mu |-> ATerms(Clip(mu, lo), RZero), a0_terms_hat |-> ATerms(Clip(RZero, lo), RZero),
         a1_terms_0 |-> ATerms(Clip(RZero, lo), ROne), a1_terms_hat |-> ATerms(ROne, ROne),
         \* Asimov data at the background-only hypothesis (mu = 0) and at mu = 1: the expectation itself
         asimov0 |-> IF fam = 1 THEN <<b>> ELSE B2(b),
         asimov1 |-> IF fam = 1 THEN <<Rate1(ROne, s, b)>> ELSE [i \in 1..2 |-> Rate2(ROne, s, b, i)]]
Emit == EmitCases => PrintT(ToJson(Case))
=============================================================================
