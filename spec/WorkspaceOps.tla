---------------------------- MODULE WorkspaceOps ----------------------------
(***************************************************************************)
(* C16: the workspace algebra of pyhf (workspace.py) as exact TLA+ values. *)
(*                                                                         *)
(* A workspace is a record                                                 *)
(*    [ch   : Seq([name, samples : Seq([name, d, mods : Seq([name,type,d])])]),*)
(*     obs  : Seq([name, d]),                                              *)
(*     meas : Seq([name, poi, pars : Seq([name, v])]),                     *)
(*     ver  : Nat]                                                         *)
(* Listing order is data (JSON lists).  Names are naturals whose numeric   *)
(* order is the string order of the harness' name pools; `d` / `v` are     *)
(* opaque content tags (the harness turns a tag into distinguishable       *)
(* numbers); modifier types are 3 normfactor, 4 normsys, 7 staterror (the  *)
(* numbering of harness/names.py, = string order).                         *)
(*                                                                         *)
(* Two layers.                                                             *)
(*   Def*   the property as stated (properties.jsonl C16, DESIGN A.8, the  *)
(*          docstring of Workspace.combine): set-like joins keyed by name, *)
(*          refusal conditions, exact pruning, relabelling, canonical sort.*)
(*   Impl*  workspace.py transcribed operator by operator: _join_items     *)
(*          with its loop, the `keys` list frozen before the loop, the     *)
(*          deep merge that hard-codes 'left outer', the per-section       *)
(*          Counter checks, the measurement mapping, the single            *)
(*          comprehension of _prune_and_rename, the key sorts of sorted(). *)
(* An operation yields an Outcome: Ok(workspace) or Refuse(exception class)*)
(***************************************************************************)
EXTENDS Naturals, Sequences, FiniteSets, TLC

NORMFACTOR == 3
NORMSYS    == 4
STATERROR  == 7
ConstrainedTypes == {NORMSYS, STATERROR}

Joins == {"none", "outer", "left outer", "right outer"}
IWO == "InvalidWorkspaceOperation"     \* pyhf.exceptions
ISP == "InvalidSpecification"          \* pyhf.exceptions (schema validation of the result)
VE  == "ValueError"                    \* documented for a bad join string / merge with 'none'

-----------------------------------------------------------------------------
(* generic helpers on sequences of named records *)
Range(s)      == {s[i] : i \in DOMAIN s}
NamesOf(s)    == {s[i].name : i \in DOMAIN s}
Has(s, n)     == \E i \in DOMAIN s : s[i].name = n
FirstIdx(s, n) == CHOOSE i \in DOMAIN s : s[i].name = n /\ \A j \in 1..(i - 1) : s[j].name # n   \* list.index
Item(s, n)    == s[FirstIdx(s, n)]
Unique(s)     == \A i \in DOMAIN s : \A j \in DOMAIN s : s[i].name = s[j].name => i = j
Rev(s)        == [i \in DOMAIN s |-> s[Len(s) + 1 - i]]
Rot(s)        == IF Len(s) < 2 THEN s ELSE Tail(s) \o <<Head(s)>>
\* stable sort of s by the parallel key sequence (Python list.sort(key=..))
SortBy(s, key) ==
  LET rank(i) == Cardinality({j \in DOMAIN s : key[j] < key[i] \/ (key[j] = key[i] /\ j < i)}) + 1
  IN [r \in DOMAIN s |-> s[CHOOSE i \in DOMAIN s : rank(i) = r]]
NameKey(s) == [i \in DOMAIN s |-> s[i].name]
ModKey(s)  == [i \in DOMAIN s |-> s[i].name * 10 + s[i].type]      \* (name, type) lexicographic; type < 10
RECURSIVE Asc(_)
Asc(S) == IF S = {} THEN <<>>                  \* ascending sequence of a finite set of names
          ELSE LET m == CHOOSE x \in S : \A y \in S : x <= y IN <<m>> \o Asc(S \ {m})
Desc(S) == Rev(Asc(S))

EmptyWS    == [ch |-> <<>>, obs |-> <<>>, meas |-> <<>>, ver |-> 0]
Ok(w)      == [st |-> "ok", ws |-> w, exc |-> ""]
Refuse(e)  == [st |-> "refuse", ws |-> EmptyWS, exc |-> e]
JOk(items) == [ok |-> TRUE, items |-> items]
JNo        == [ok |-> FALSE, items |-> <<>>]

-----------------------------------------------------------------------------
(* summaries (mixins._ChannelSummaryMixin) *)
AllSamples(w)  == UNION {NamesOf(c.samples) : c \in Range(w.ch)}
AllMods(w)     == UNION {UNION {{[name |-> m.name, type |-> m.type] : m \in Range(s.mods)} : s \in Range(c.samples)} : c \in Range(w.ch)}
ModNames(w)    == {m.name : m \in AllMods(w)}
ModTypes(w)    == {m.type : m \in AllMods(w)}
Exists(w, kind, n) ==
  CASE kind = "channels"       -> n \in NamesOf(w.ch)
    [] kind = "samples"        -> n \in AllSamples(w)
    [] kind = "modifiers"      -> n \in ModNames(w)
    [] kind = "modifier_types" -> n \in ModTypes(w)
    [] kind = "measurements"   -> n \in NamesOf(w.meas)

\* what schema 1.0.0 can object to in a value of this shape (minItems 1 on the lists)
SchemaValid(w) == /\ Len(w.ch) > 0 /\ Len(w.obs) > 0 /\ Len(w.meas) > 0
                  /\ \A c \in Range(w.ch) : Len(c.samples) > 0
\* a well-formed workspace in the sense of the property: schema-valid, names unique per list,
\* one observation per channel
WF(w) == /\ SchemaValid(w)
         /\ Unique(w.ch) /\ Unique(w.obs) /\ Unique(w.meas)
         /\ NamesOf(w.obs) = NamesOf(w.ch)
         /\ \A c \in Range(w.ch) : Unique(c.samples)
         /\ \A c \in Range(w.ch) : \A s \in Range(c.samples) :
              \A i \in DOMAIN s.mods : \A j \in DOMAIN s.mods :
                 (s.mods[i].name = s.mods[j].name /\ s.mods[i].type = s.mods[j].type) => i = j
         /\ \A m \in Range(w.meas) : Unique(m.pars)
Checked(w) == IF SchemaValid(w) THEN Ok(w) ELSE Refuse(ISP)       \* Workspace.__init__ -> schema.validate

-----------------------------------------------------------------------------
(* likelihood term structure (order-free): which Poisson terms, which constraint terms *)
SampleTerm(s) == [name |-> s.name, d |-> s.d, mods |-> Range(s.mods)]
MainTerms(w)  == {[ch |-> c.name,
                   obs |-> {o.d : o \in {x \in Range(w.obs) : x.name = c.name}},
                   samples |-> {SampleTerm(s) : s \in Range(c.samples)}] : c \in Range(w.ch)}
\* one constraint term per constrained parameter NAME (a set: "each constrained parameter once")
ConstrainedParams(w) == {m \in AllMods(w) : m.type \in ConstrainedTypes}
FitConfig(w)  == {[name |-> m.name, poi |-> m.poi, pars |-> Range(m.pars)] : m \in Range(w.meas)}

-----------------------------------------------------------------------------
(*                         DEFINITION LAYER                                  *)
(* DESIGN A.8.  Items are compared as whole values (listing order inside an  *)
(* item is data, as in JSON).                                                 *)
-----------------------------------------------------------------------------
DefJoin(join, L, R) ==
  CASE join = "none"  -> IF NamesOf(L) \cap NamesOf(R) # {} THEN JNo ELSE JOk(L \o R)
    [] join = "outer" -> IF \E i \in DOMAIN L : \E j \in DOMAIN R : L[i].name = R[j].name /\ L[i] # R[j]
                         THEN JNo        \* same name, different content: the join that promises to refuse
                         ELSE JOk(L \o SelectSeq(R, LAMBDA r : r \notin Range(L)))
    [] join = "left outer"  -> JOk(L \o SelectSeq(R, LAMBDA r : r.name \notin NamesOf(L)))   \* primary wins
    [] join = "right outer" -> JOk(R \o SelectSeq(L, LAMBDA l : l.name \notin NamesOf(R)))

\* merge_channels: same-named channels are merged sample by sample UNDER THE SAME JOIN MODE
\* (outer refuses a same-named sample of different content; left/right outer keep the primary's)
DefJoinChannels(join, merge, L, R) ==
  IF ~merge THEN DefJoin(join, L, R)
  ELSE LET P   == IF join = "right outer" THEN R ELSE L
           S   == IF join = "right outer" THEN L ELSE R
           sub == IF join = "outer" THEN "outer" ELSE "left outer"
           Merged(p) == IF Has(S, p.name) THEN DefJoin(sub, p.samples, Item(S, p.name).samples) ELSE JOk(p.samples)
       IN IF \E i \in DOMAIN P : ~Merged(P[i]).ok THEN JNo
          ELSE JOk([i \in DOMAIN P |-> [P[i] EXCEPT !.samples = Merged(P[i]).items]]
                   \o SelectSeq(S, LAMBDA s : ~Has(P, s.name)))

\* "If the two workspaces have the same measurement (with the same POI), those measurements will get merged"
DefJoinMeas(join, L, R) ==
  IF join # "outer" THEN DefJoin(join, L, R)
  ELSE LET Clash(l, r) == l.name = r.name /\ (l.poi # r.poi \/ ~DefJoin("outer", l.pars, r.pars).ok)
       IN IF \E i \in DOMAIN L : \E j \in DOMAIN R : Clash(L[i], R[j]) THEN JNo
          ELSE JOk([i \in DOMAIN L |-> IF Has(R, L[i].name)
                                       THEN [L[i] EXCEPT !.pars = DefJoin("outer", @, Item(R, L[i].name).pars).items]
                                       ELSE L[i]]
                   \o SelectSeq(R, LAMBDA r : ~Has(L, r.name)))

DefCombine(L, R, join, merge) ==
  IF join \notin Joins THEN Refuse(VE)
  ELSE IF merge /\ join = "none" THEN Refuse(VE)
  ELSE IF L.ver # R.ver THEN Refuse(IWO)
  ELSE LET c == DefJoinChannels(join, merge, L.ch, R.ch)
           o == DefJoin(join, L.obs, R.obs)
           m == DefJoinMeas(join, L.meas, R.meas)
       IN IF ~c.ok \/ ~o.ok \/ ~m.ok THEN Refuse(IWO)
          ELSE Checked([ch |-> c.items, obs |-> o.items, meas |-> m.items, ver |-> L.ver])

\* prune: `sel` is a set of names of one kind; removes exactly those items
DefPruneRaw(w, kind, sel) ==
  LET KeepMod(m) == ~(kind = "modifiers" /\ m.name \in sel) /\ ~(kind = "modifier_types" /\ m.type \in sel)
      PS(s) == [s EXCEPT !.mods = SelectSeq(@, KeepMod)]
      PC(c) == [c EXCEPT !.samples = [i \in DOMAIN SelectSeq(c.samples, LAMBDA s : ~(kind = "samples" /\ s.name \in sel))
                                        |-> PS(SelectSeq(c.samples, LAMBDA s : ~(kind = "samples" /\ s.name \in sel))[i])]]
      KC == SelectSeq(w.ch, LAMBDA c : ~(kind = "channels" /\ c.name \in sel))
      KM == SelectSeq(w.meas, LAMBDA m : ~(kind = "measurements" /\ m.name \in sel))
      PM(m) == [m EXCEPT !.pars = SelectSeq(@, LAMBDA p : ~(kind = "modifiers" /\ p.name \in sel))]
  IN [ch   |-> [i \in DOMAIN KC |-> PC(KC[i])],
      obs  |-> SelectSeq(w.obs, LAMBDA o : ~(kind = "channels" /\ o.name \in sel)),
      meas |-> [i \in DOMAIN KM |-> PM(KM[i])],
      ver  |-> w.ver]
DefPrune(w, kind, sel) ==
  IF \E n \in sel : ~Exists(w, kind, n) THEN Refuse(IWO) ELSE Checked(DefPruneRaw(w, kind, sel))

\* rename: `pairs` is a sequence of <<old, new>>; a relabelling of one kind of name
MapOf(pairs)  == [n \in {pairs[i][1] : i \in DOMAIN pairs} |-> (CHOOSE i \in DOMAIN pairs : pairs[i][1] = n)]
Apply(pairs, n) == IF \E i \in DOMAIN pairs : pairs[i][1] = n THEN pairs[MapOf(pairs)[n]][2] ELSE n
InversePairs(pairs) == [i \in DOMAIN pairs |-> <<pairs[i][2], pairs[i][1]>>]
DefRenameRaw(w, kind, pairs) ==
  LET A(k, n) == IF kind = k THEN Apply(pairs, n) ELSE n
  IN [ch   |-> [i \in DOMAIN w.ch |->
                 [name |-> A("channels", w.ch[i].name),
                  samples |-> [j \in DOMAIN w.ch[i].samples |->
                     [name |-> A("samples", w.ch[i].samples[j].name), d |-> w.ch[i].samples[j].d,
                      mods |-> [k \in DOMAIN w.ch[i].samples[j].mods |->
                                  [w.ch[i].samples[j].mods[k] EXCEPT !.name = A("modifiers", @)]]]]]],
      obs  |-> [i \in DOMAIN w.obs |-> [w.obs[i] EXCEPT !.name = A("channels", @)]],
      meas |-> [i \in DOMAIN w.meas |->
                 [name |-> A("measurements", w.meas[i].name),
                  poi  |-> A("modifiers", w.meas[i].poi),               \* the POI follows its modifier
                  pars |-> [k \in DOMAIN w.meas[i].pars |-> [w.meas[i].pars[k] EXCEPT !.name = A("modifiers", @)]]]],
      ver  |-> w.ver]
DefRename(w, kind, pairs) ==
  IF \E i \in DOMAIN pairs : ~Exists(w, kind, pairs[i][1]) THEN Refuse(IWO) ELSE Checked(DefRenameRaw(w, kind, pairs))

\* sorted: every list in name order, modifiers in (name, type) order -- the canonical form
SortW(w) ==
  LET SS(s) == [s EXCEPT !.mods = SortBy(@, ModKey(@))]
      SC(c) == LET ss == SortBy(c.samples, NameKey(c.samples)) IN [c EXCEPT !.samples = [i \in DOMAIN ss |-> SS(ss[i])]]
      SM(m) == [m EXCEPT !.pars = SortBy(@, NameKey(@))]
      cs == SortBy(w.ch, NameKey(w.ch))
      ms == SortBy(w.meas, NameKey(w.meas))
  IN [ch |-> [i \in DOMAIN cs |-> SC(cs[i])], obs |-> SortBy(w.obs, NameKey(w.obs)),
      meas |-> [i \in DOMAIN ms |-> SM(ms[i])], ver |-> w.ver]
DefSorted(w) == Checked(SortW(w))

\* a permutation of every list of a workspace (how = "rev" | "rot"): same content, other listing order
PermW(w, how) ==
  LET P(s) == IF how = "rev" THEN Rev(s) ELSE Rot(s)
      PS(s) == [s EXCEPT !.mods = P(@)]
      PC(c) == LET ss == P(c.samples) IN [c EXCEPT !.samples = [i \in DOMAIN ss |-> PS(ss[i])]]
      PM(m) == [m EXCEPT !.pars = P(@)]
      cs == P(w.ch)
      ms == P(w.meas)
  IN [ch |-> [i \in DOMAIN cs |-> PC(cs[i])], obs |-> P(w.obs), meas |-> [i \in DOMAIN ms |-> PM(ms[i])], ver |-> w.ver]

-----------------------------------------------------------------------------
(*                     IMPLEMENTATION-SHAPED LAYER                           *)
(* workspace.py, function by function.                                       *)
-----------------------------------------------------------------------------
\* _join_items(join, left_items, right_items, key='name', deep_merge_key=('samples' if deep else None))
RECURSIVE ImplJoinItems(_, _, _, _)
ImplJoinItems(join, L, R, deep) ==
  LET P == IF join = "right outer" THEN R ELSE L            \* primary_items
      S == IF join = "right outer" THEN L ELSE R            \* secondary_items
      keys == [i \in DOMAIN P |-> P[i].name]                \* computed once, before the loop
      InKeys(n) == \E i \in DOMAIN keys : keys[i] = n
      KeyIdx(n) == CHOOSE i \in DOMAIN keys : keys[i] = n /\ \A j \in 1..(i - 1) : keys[j] # n
      RECURSIVE Loop(_, _)
      Loop(k, J) ==                                         \* J = joined_items (deep copy of primary, growing)
        IF k > Len(S) THEN J
        ELSE LET s == S[k] IN
             IF InKeys(s.name) /\ deep
             THEN \* deep merge: an 'outer' join stays 'outer' for the samples (clashes refused by _join_channels),
                  \* the unsafe joins keep the primary's samples ('left outer')
                  Loop(k + 1, [J EXCEPT ![KeyIdx(s.name)].samples =
                                   ImplJoinItems(IF join = "outer" THEN "outer" ELSE "left outer", @, s.samples, FALSE)])
             ELSE IF \/ join = "none"
                     \/ (join = "outer" /\ s \notin Range(P))
                     \/ (join \in {"left outer", "right outer"} /\ ~InKeys(s.name))
                  THEN Loop(k + 1, Append(J, s))
                  ELSE Loop(k + 1, J)
  IN Loop(1, P)

\* _join_channels / _join_observations: join, then name-intersection ('none') or Counter ('outer') check
ImplJoinSection(join, L, R, deep) ==
  LET J == ImplJoinItems(join, L, R, deep) IN
  IF join = "none" THEN (IF NamesOf(L) \cap NamesOf(R) # {} THEN JNo ELSE JOk(J))
  ELSE IF join = "outer" THEN (IF ~Unique(J) THEN JNo ELSE JOk(J))
  ELSE JOk(J)
\* _join_channels additionally refuses a merged channel that ends up with two samples of one name
ImplJoinChannels(join, merge, L, R) ==
  LET r == ImplJoinSection(join, L, R, merge) IN
  IF r.ok /\ join = "outer" /\ (\E i \in DOMAIN r.items : ~Unique(r.items[i].samples)) THEN JNo ELSE r
ImplJoinObservations(join, L, R)    == ImplJoinSection(join, L, R, FALSE)

\* _join_parameter_configs
ImplJoinParameterConfigs(LP, RP) ==
  LET J == ImplJoinItems("outer", LP, RP, FALSE) IN IF ~Unique(J) THEN JNo ELSE JOk(J)

\* names in order of first occurrence (insertion order of the dict _measurement_mapping)
RECURSIVE FirstNames(_, _)
FirstNames(s, seen) ==
  IF s = <<>> THEN <<>>
  ELSE IF Head(s).name \in seen THEN FirstNames(Tail(s), seen)
       ELSE <<Head(s).name>> \o FirstNames(Tail(s), seen \cup {Head(s).name})

\* _join_measurements
ImplJoinMeasurements(join, L, R) ==
  LET J == ImplJoinItems(join, L, R, FALSE) IN
  IF join = "none" THEN (IF NamesOf(L) \cap NamesOf(R) # {} THEN JNo ELSE JOk(J))
  ELSE IF join = "outer"
  THEN LET order == FirstNames(J, {})
           Group(n) == SelectSeq(J, LAMBDA m : m.name = n)
           BadPoi == \E i \in DOMAIN order : Cardinality({m.poi : m \in Range(Group(order[i]))}) > 1
           New(n) == LET g == Group(n) IN
                     IF Len(g) # 1
                     THEN LET pc == ImplJoinParameterConfigs(g[1].pars, g[2].pars)
                          IN [ok |-> pc.ok, m |-> [name |-> n, poi |-> g[1].poi, pars |-> pc.items]]
                     ELSE [ok |-> TRUE, m |-> g[1]]
       IN IF BadPoi THEN JNo
          ELSE IF \E i \in DOMAIN order : ~New(order[i]).ok THEN JNo
          ELSE JOk([i \in DOMAIN order |-> New(order[i]).m])
  ELSE JOk(J)

\* Workspace.combine
ImplCombine(L, R, join, merge) ==
  IF join \notin Joins THEN Refuse(VE)
  ELSE IF merge /\ join \notin {"outer", "left outer", "right outer"} THEN Refuse(VE)
  ELSE IF L.ver # R.ver THEN Refuse(IWO)                               \* _join_versions
  ELSE LET c == ImplJoinChannels(join, merge, L.ch, R.ch) IN
       IF ~c.ok THEN Refuse(IWO)
       ELSE LET o == ImplJoinObservations(join, L.obs, R.obs) IN
       IF ~o.ok THEN Refuse(IWO)
       ELSE LET m == ImplJoinMeasurements(join, L.meas, R.meas) IN
       IF ~m.ok THEN Refuse(IWO)
       ELSE Checked([ch |-> c.items, obs |-> o.items, meas |-> m.items, ver |-> L.ver])   \* cls(newspec)

\* Workspace._prune_and_rename: the nine arguments; p* are sets, r* are pair sequences
ImplPruneAndRename(w, pMods, pTypes, pSamples, pChannels, pMeas, rMods, rSamples, rChannels, rMeas) ==
  LET Dom(pairs) == {pairs[i][1] : i \in DOMAIN pairs} IN
  IF \E t \in pTypes : t \notin ModTypes(w) THEN Refuse(IWO)
  ELSE IF \E n \in pMods \cup Dom(rMods) : n \notin ModNames(w) THEN Refuse(IWO)
  ELSE IF \E n \in pSamples \cup Dom(rSamples) : n \notin AllSamples(w) THEN Refuse(IWO)
  ELSE IF \E n \in pChannels \cup Dom(rChannels) : n \notin NamesOf(w.ch) THEN Refuse(IWO)
  ELSE IF \E n \in pMeas \cup Dom(rMeas) : n \notin NamesOf(w.meas) THEN Refuse(IWO)
  ELSE
  LET NewMods(ms) == LET k == SelectSeq(ms, LAMBDA m : m.name \notin pMods /\ m.type \notin pTypes)
                     IN [i \in DOMAIN k |-> [k[i] EXCEPT !.name = Apply(rMods, @)]]
      NewSamples(ss) == LET k == SelectSeq(ss, LAMBDA s : s.name \notin pSamples)
                        IN [i \in DOMAIN k |-> [name |-> Apply(rSamples, k[i].name), d |-> k[i].d, mods |-> NewMods(k[i].mods)]]
      kc == SelectSeq(w.ch, LAMBDA c : c.name \notin pChannels)
      km == SelectSeq(w.meas, LAMBDA m : m.name \notin pMeas)
      NewPars(ps) == LET k == SelectSeq(ps, LAMBDA p : p.name \notin pMods)
                     IN [i \in DOMAIN k |-> [k[i] EXCEPT !.name = Apply(rMods, @)]]
      ko == SelectSeq(w.obs, LAMBDA o : o.name \notin pChannels)
  IN Checked([ch   |-> [i \in DOMAIN kc |-> [name |-> Apply(rChannels, kc[i].name), samples |-> NewSamples(kc[i].samples)]],
              meas |-> [i \in DOMAIN km |-> [name |-> Apply(rMeas, km[i].name), poi |-> Apply(rMods, km[i].poi),
                                             pars |-> NewPars(km[i].pars)]],
              obs  |-> [i \in DOMAIN ko |-> [ko[i] EXCEPT !.name = Apply(rChannels, @)]],
              ver  |-> w.ver])

ImplPrune(w, kind, sel) ==
  LET S(k) == IF kind = k THEN sel ELSE {} IN
  ImplPruneAndRename(w, S("modifiers"), S("modifier_types"), S("samples"), S("channels"), S("measurements"), <<>>, <<>>, <<>>, <<>>)
ImplRename(w, kind, pairs) ==
  LET M(k) == IF kind = k THEN pairs ELSE <<>> IN
  ImplPruneAndRename(w, {}, {}, {}, {}, {}, M("modifiers"), M("samples"), M("channels"), M("measurements"))

\* Workspace.sorted: the seven list.sort calls on a deep copy
ImplSorted(w) ==
  LET c1 == SortBy(w.ch, NameKey(w.ch))
      c2 == [i \in DOMAIN c1 |-> [c1[i] EXCEPT !.samples = SortBy(@, NameKey(@))]]
      c3 == [i \in DOMAIN c2 |-> [c2[i] EXCEPT !.samples = [j \in DOMAIN @ |-> [@[j] EXCEPT !.mods = SortBy(@, ModKey(@))]]]]
      m1 == SortBy(w.meas, NameKey(w.meas))
      m2 == [i \in DOMAIN m1 |-> [m1[i] EXCEPT !.pars = SortBy(@, NameKey(@))]]
  IN Checked([ch |-> c3, meas |-> m2, obs |-> SortBy(w.obs, NameKey(w.obs)), ver |-> w.ver])

=============================================================================
