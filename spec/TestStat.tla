------------------------------ MODULE TestStat ------------------------------
(***************************************************************************)
(* C06: the five profile-likelihood test statistics as a case analysis     *)
(* over order facts.  Inputs of a case:                                    *)
(*   kind          "t" | "ttilde" | "q" | "qtilde" | "q0"                  *)
(*   cMuhatMu      cmp(muhat, mu)   in {-1, 0, 1}                           *)
(*   cMuhat0       cmp(muhat, 0)                                           *)
(*   cMu0          cmp(mu, 0)   (the tested value; q0 tests 0 whatever mu)  *)
(*   sD            sign of d = 2NLL(mu_eff, cond. fit) - 2NLL(uncond. fit)  *)
(* The implementation is a little program: two fits, subtraction, clip,    *)
(* one-sided zeroing with the comparison operators as coded.               *)
(***************************************************************************)
EXTENDS Integers, Sequences, Json, TLC

CONSTANT EmitCases
Kinds == {"t", "ttilde", "q", "qtilde", "q0"}
VARIABLES kind, cMuhatMu, cMuhat0, cMu0, sD, pc, muEff, ratio, clipped, result
vars == <<kind, cMuhatMu, cMuhat0, cMu0, sD, pc, muEff, ratio, clipped, result>>

\* realisable order facts: cmp(muhat,mu), cmp(muhat,0), cmp(mu,0) must be consistent
Consistent(a, b, c) ==   \* a = cmp(muhat,mu), b = cmp(muhat,0), c = cmp(mu,0)
  /\ (c = 0 => a = b)
  /\ (a = 0 => b = c)
  /\ (b = 0 => a = -c)
  /\ (a > 0 /\ c > 0 => b > 0) /\ (a < 0 /\ c < 0 => b < 0)
  /\ (b > 0 /\ c < 0 => a > 0) /\ (b < 0 /\ c > 0 => a < 0)

Init == /\ kind \in Kinds /\ cMuhatMu \in {-1, 0, 1} /\ cMuhat0 \in {-1, 0, 1} /\ cMu0 \in {-1, 0, 1}
        /\ sD \in {-1, 0, 1}
        /\ Consistent(cMuhatMu, cMuhat0, cMu0)
        \* the unconditional fit is the better one up to fit noise: d < 0 only as noise; d = 0 when mu = muhat
        /\ pc = "start" /\ muEff = "none" /\ ratio = 0 /\ clipped = 0 /\ result = 0

\* q0 always tests mu = 0 (the value passed is ignored); the others test mu
FixedFit == pc = "start" /\ muEff' = (IF kind = "q0" THEN "zero" ELSE "mu") /\ pc' = "fixedfit"
            /\ UNCHANGED <<kind, cMuhatMu, cMuhat0, cMu0, sD, ratio, clipped, result>>
FreeFit  == pc = "fixedfit" /\ pc' = "freefit" /\ UNCHANGED <<kind, cMuhatMu, cMuhat0, cMu0, sD, muEff, ratio, clipped, result>>
Ratio    == pc = "freefit" /\ ratio' = sD /\ pc' = "ratio"          \* sign of fixed - free
            /\ UNCHANGED <<kind, cMuhatMu, cMuhat0, cMu0, sD, muEff, clipped, result>>
Clip     == pc = "ratio" /\ clipped' = (IF ratio < 0 THEN 0 ELSE ratio) /\ pc' = "clipped"
            /\ UNCHANGED <<kind, cMuhatMu, cMuhat0, cMu0, sD, muEff, ratio, result>>
\* one-sided zeroing, operators as coded: _qmu_like: muhat > mu ; q0: muhat < 0
OneSided == /\ pc = "clipped" /\ pc' = "done"
            /\ result' = CASE kind \in {"q", "qtilde"} -> IF cMuhatMu > 0 THEN 0 ELSE clipped
                           [] kind = "q0" -> IF cMuhat0 < 0 THEN 0 ELSE clipped
                           [] OTHER -> clipped
            /\ UNCHANGED <<kind, cMuhatMu, cMuhat0, cMu0, sD, muEff, ratio, clipped>>
Next == FixedFit \/ FreeFit \/ Ratio \/ Clip \/ OneSided
Spec == Init /\ [][Next]_vars

-----------------------------------------------------------------------------
(* definition (Appendix A.2): sign-level *)
T(d) == IF d < 0 THEN 0 ELSE d
DefStat == CASE kind \in {"t", "ttilde"} -> T(sD)
             [] kind \in {"q", "qtilde"} -> IF cMuhatMu > 0 THEN 0 ELSE T(sD)
             [] kind = "q0" -> IF cMuhat0 < 0 THEN 0 ELSE T(sD)
Done == pc = "done"
ImplEqDef == Done => result = DefStat
NonNeg == Done => result >= 0
TestsRightValue == Done => (muEff = IF kind = "q0" THEN "zero" ELSE "mu")
ZeroWhenAbove == Done /\ kind \in {"q", "qtilde"} /\ cMuhatMu > 0 => result = 0
ZeroWhenNegative == Done /\ kind = "q0" /\ cMuhat0 < 0 => result = 0
NoZeroingTwoSided == Done /\ kind \in {"t", "ttilde"} => result = T(sD)
Emit == (EmitCases /\ Done) => PrintT(ToJson([kind |-> kind, c_muhat_mu |-> cMuhatMu, c_muhat_0 |-> cMuhat0, c_mu_0 |-> cMu0,
                                             s_d |-> sD, result_sign |-> result, mu_eff |-> muEff]))
=============================================================================
