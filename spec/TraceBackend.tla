---------------------------- MODULE TraceBackend ----------------------------
(***************************************************************************)
(* Binding B for C11: executions of the real pyhf, recorded by the hooks   *)
(* H1 (tensor/manager.py:set_backend) and H2 (events.py), are validated    *)
(* against the Backend state machine.  One ndjson line = one trace         *)
(* [init |-> [cur, n], events |-> <<...>>]; owner ids are renumbered by the *)
(* harness (first-seen order), nothing else is post-processed.             *)
(*                                                                         *)
(* What is NOT logged and therefore inferred by TLC: when an object dies.  *)
(* The 'events.call' record carries the liveness of every entry at the     *)
(* moment of the fire; the trace spec sets the unlogged 'alive' bits from  *)
(* it and then demands that the flush that follows removes exactly the     *)
(* dead entries.                                                            *)
(* Rejections (no enabled action for the next record) mean:                 *)
(*   - tensorlib_changed flag differs from (name, precision) # current     *)
(*   - a changed backend is not followed by trigger + call of ALL entries  *)
(*     in subscription order (StaleFree would break)                       *)
(*   - callbacks called although nothing changed                           *)
(*   - flush keeps a dead entry or drops a live one                        *)
(*   - subscription count out of step with the registry                    *)
(***************************************************************************)
EXTENDS Naturals, Sequences, FiniteSets, Json, IOUtils, TLC

Traces == ndJsonDeserialize(IOEnv.TRACE_FILE)

VARIABLES tid, l, cur, subs, pc, chg,
          opt       \* name of the current optimiser (session composition: fits must run under the current state)
vars == <<tid, l, cur, subs, pc, chg, opt>>

Tr == Traces[tid]
Ev == Tr.events[l]
More == tid <= Len(Traces) /\ l <= Len(Tr.events)
Is(e) == More /\ Ev.ev = e
Consume == l' = l + 1 /\ tid' = tid

StartOf(t) == /\ cur = <<Traces[t].init.cur[1], Traces[t].init.cur[2]>>
              /\ subs = [k \in 1..Traces[t].init.n |-> [owner |-> 0, alive |-> TRUE, pre |-> cur]]
Init == /\ tid = 1 /\ l = 1 /\ pc = "idle" /\ chg = FALSE
        /\ opt = IF Len(Traces) >= 1 THEN Traces[1].init.opt ELSE "scipy"
        /\ IF Len(Traces) >= 1 THEN StartOf(1) ELSE cur = <<"numpy", "64b">> /\ subs = <<>>

TSubscribe ==
  /\ Is("events.subscribe") /\ Consume
  /\ IF Ev.event = "tensorlib_changed"
     THEN /\ subs' = Append(subs, [owner |-> Ev.owner, alive |-> TRUE, pre |-> cur])
          /\ Ev.n = Len(subs')                 \* registry length as logged
     ELSE UNCHANGED subs
  /\ UNCHANGED <<cur, pc, chg, opt>>

TSwap ==
  /\ Is("set_backend.swap") /\ pc = "idle" /\ Consume
  /\ Ev.tensorlib_changed = (<<Ev.name, Ev.precision>> # cur)        \* EventIffChanged (decision)
  /\ cur' = <<Ev.name, Ev.precision>> /\ chg' = Ev.tensorlib_changed /\ pc' = "swapped" /\ opt' = Ev.optimizer
  /\ UNCHANGED subs

TTrigger ==
  /\ Is("events.trigger") /\ Consume
  /\ IF Ev.event = "tensorlib_changed"
     THEN IF pc = "swapped"
          THEN /\ chg                                                  \* fired only when changed
               /\ Ev.noop = FALSE \/ Len(subs) = 0
               /\ pc' = IF Ev.noop THEN "called" ELSE "triggered"
          \* named deviation TestFiresEventByHand: code outside set_backend (tests/test_interpolate.py,
          \* test_events.py) triggers the event itself; the callbacks then re-derive for the SAME backend
          ELSE /\ pc = "idle"
               /\ pc' = IF Ev.noop THEN "idle" ELSE "mtriggered"
     ELSE UNCHANGED pc
  /\ UNCHANGED <<cur, subs, chg, opt>>

TCall ==     \* the callback list about to be run, in order, with liveness
  /\ Is("events.call") /\ Consume
  /\ IF pc \in {"triggered", "mtriggered"}
     THEN /\ Len(Ev.callbacks) = Len(subs)
          /\ \A k \in 1..Len(subs) : Ev.callbacks[k][3] => (subs[k].owner = 0 \/ subs[k].owner = Ev.callbacks[k][2])
          /\ \A k \in 1..Len(subs) : Ev.callbacks[k][3] => subs[k].alive       \* a dead entry does not resurrect
          /\ subs' = [k \in 1..Len(subs) |-> [subs[k] EXCEPT !.alive = Ev.callbacks[k][3],
                                                               !.pre = IF Ev.callbacks[k][3] THEN cur ELSE @]]
          /\ pc' = IF pc = "triggered" THEN "called" ELSE "mcalled"
     ELSE UNCHANGED <<subs, pc>>            \* Callables of other events
  /\ UNCHANGED <<cur, chg, opt>>

TFlush ==
  /\ Is("events.flush") /\ Consume
  /\ IF pc \in {"called", "mcalled"}
     THEN /\ Ev.removed = Cardinality({k \in 1..Len(subs) : ~subs[k].alive})
          /\ Ev.kept = Cardinality({k \in 1..Len(subs) : subs[k].alive})
          /\ subs' = SelectSeq(subs, LAMBDA s : s.alive)
          /\ pc' = IF pc = "mcalled" THEN "idle" ELSE pc
     ELSE UNCHANGED <<subs, pc>>                   \* flush of another event's list
  /\ UNCHANGED <<cur, chg, opt>>

\* after a hand-fired event without dead entries there is no flush record: back to idle silently with the next record
TManualDone ==
  /\ More /\ pc = "mcalled" /\ Ev.ev # "events.flush"
  /\ pc' = "idle" /\ UNCHANGED <<tid, l, cur, subs, chg, opt>>

TFired ==
  /\ Is("set_backend.fired") /\ Consume
  /\ \/ pc = "swapped" /\ ~chg                                  \* nothing to do
     \/ pc = "called"
  \* after the callbacks no dead entry is left and every live one was re-derived for cur
  /\ (chg => \A k \in 1..Len(subs) : subs[k].alive /\ subs[k].pre = cur)
  /\ pc' = "fired"
  /\ UNCHANGED <<cur, subs, chg, opt>>

TDone ==
  /\ Is("set_backend.done") /\ pc = "fired" /\ Consume
  /\ pc' = "idle" /\ chg' = FALSE
  /\ UNCHANGED <<cur, subs, opt>>

\* harness-side markers (object dropped by the driver: informational, the entry dies silently)
TMarker == Is("marker") /\ Consume /\ UNCHANGED <<cur, subs, pc, chg, opt>>

NextTrace ==
  /\ tid <= Len(Traces) /\ l = Len(Tr.events) + 1 /\ pc \in {"idle", "mcalled"}
  /\ PrintT(<<"TRACE-OK", Tr.id>>)
  /\ tid' = tid + 1 /\ l' = 1 /\ pc' = "idle" /\ chg' = FALSE
  /\ IF tid + 1 <= Len(Traces)
     THEN /\ cur' = <<Traces[tid + 1].init.cur[1], Traces[tid + 1].init.cur[2]>>
          /\ subs' = [k \in 1..Traces[tid + 1].init.n |-> [owner |-> 0, alive |-> TRUE, pre |-> cur']]
     ELSE UNCHANGED <<cur, subs>>
  /\ opt' = IF tid + 1 <= Len(Traces) THEN Traces[tid + 1].init.opt ELSE opt

\* session composition (PyhfSession): a fit (hook H4) runs only while no backend switch is in flight and under the
\* backend and optimiser that are current according to the set_backend records
TFit ==
  /\ Is("fit.shim") /\ Consume
  /\ pc \in {"idle", "mcalled"}
  /\ Ev.backend = cur[1] /\ Ev.optimizer = opt
  /\ UNCHANGED <<cur, subs, pc, chg, opt>>

Next == TFit \/ TSubscribe \/ TSwap \/ TTrigger \/ TCall \/ TFlush \/ TManualDone \/ TFired \/ TDone \/ TMarker \/ NextTrace
TraceSpec == Init /\ [][Next]_vars

\* every live entry is current whenever no switch is in flight -- evaluated at every step of every trace
StaleFree == pc = "idle" => \A k \in 1..Len(subs) : subs[k].alive => subs[k].pre = cur
=============================================================================
