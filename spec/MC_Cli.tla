------------------------------- MODULE MC_Cli -------------------------------
(***************************************************************************)
(* C19 as a state machine: one behaviour = one invocation of `pyhf`.        *)
(*                                                                         *)
(*   ChooseCommand     which sub-command                                    *)
(*   ChooseOption      the next option of OptOrder(cmd) gets one value of   *)
(*                     its (small) domain; "" / <<>> = not given            *)
(*   ChooseIO          where the documents come from (file | stdin | the    *)
(*                     argument left out | a patch from stdin) and where    *)
(*                     the result goes (stdout | --output-file)             *)
(*   Run               both layers say which library call this command      *)
(*                     line is: defc (definition), implc (as coded)         *)
(*                                                                         *)
(* Invariants                                                               *)
(*   WellFormed            the option record only carries options of cmd    *)
(*   DefSensitive          definition layer: every option that is given     *)
(*                         with a value other than its default changes the  *)
(*                         call ("every option takes effect")               *)
(*   DefaultsAreDefaults   ... and giving the default explicitly does not   *)
(*   ExitIffLibrary        exit status of both layers is a function of the  *)
(*                         normalised call only; equal calls, equal status  *)
(*   OutputPlanAgrees      file and stdout carry the same payload; the     *)
(*                         code's if/else realises the plan                 *)
(*   ImplForwardsAll       Norm(implc) = Norm(defc).  With                  *)
(*                         InspectForwardsMeasurement = FALSE (the tree as  *)
(*                         read) TLC REFUTES it: ChooseCommand("inspect"),  *)
(*                         ws, meas = <second measurement>, Run.  The check *)
(*                         records that counterexample and asserts instead  *)
(*   ImplForwardsAllButInspectMeasurement   and                             *)
(*   DivergenceIsIgnoredMeasurement   every disagreement is `inspect` with  *)
(*                         --measurement given, the code's call being the   *)
(*                         definition's with the measurement dropped        *)
(*   ImplSensitive         (same refutation, seen from the option's side)   *)
(*   Emit                  one JSON case per Run state (seeded fraction)    *)
(***************************************************************************)
EXTENDS Cli, Json, TLC

CONSTANTS Cmds,           \* subset of Commands
          MeasKinds,      \* subset of {"unset", "first", "second", "bogus"}
          PatchSel,       \* which entries of PatchDom
          PoiSel,         \* subset of {"", "1.0", "0.5", "2.0"}
          CalcSel,        \* subset of {"", "asymptotics", "toybased"}
          Backends,       \* subset of {"", "numpy", "np", "pytorch", "torch", "jax"}
          Optimizers,     \* subset of {"", "scipy", "minuit"}
          ConfSel,        \* which entries of ConfDom
          SelSel,         \* which entries of PruneDom / RenameDom
          AlgSel,         \* which entries of AlgDom
          InspectForwardsMeasurement,   \* FALSE: cli/spec.py as read; TRUE: with the proposed fix
          EmitCases, EmitMod, EmitModInfer, EmitRes

VARIABLES phase, cmd, opt, k, io, code, defc, implc
vars == <<phase, cmd, opt, k, io, code, defc, implc>>

RECURSIVE PickIdx(_, _, _)
PickIdx(seq, sel, i) == IF i > Len(seq) THEN <<>> ELSE (IF i \in sel THEN <<seq[i]>> ELSE <<>>) \o PickIdx(seq, sel, i + 1)
PickIn(seq, S) == SelectSeq(seq, LAMBDA x : x \in S)

-----------------------------------------------------------------------------
(* domains                                                                   *)
CmdSeq == PickIn(<<"cls", "fit", "inspect", "prune", "rename", "combine", "sort", "digest",
                   "ps_extract", "ps_apply", "ps_verify", "ps_inspect", "json2xml", "xml2json">>, Cmds)
MeasDom(w) ==
  LET ms == World[w].measurements IN
  (IF "unset" \in MeasKinds THEN <<"">> ELSE <<>>)
  \o (IF "first" \in MeasKinds THEN <<ms[1].name>> ELSE <<>>)
  \o (IF "second" \in MeasKinds /\ Len(ms) >= 2 THEN <<ms[2].name>> ELSE <<>>)
  \o (IF "bogus" \in MeasKinds THEN <<"no_such_measurement">> ELSE <<>>)
\* the sixth entry names one patch file TWICE around another that does not commute with it: every --patch option counts, in order
PatchDom == PickIdx(<< <<>>, <<"pA">>, <<"pA", "pB">>, <<"pB", "pA">>, <<"pbad">>, <<"pA", "pB", "pA">> >>, PatchSel, 1)
ConfDom == PickIdx(<< <<>>,
                      <<Conf("maxiter", "3000", "int")>>,
                      <<Conf("maxiter", "3", "int")>>,                                 \* too few iterations: the fit fails
                      <<Conf("tolerance", "0.01", "float"), Conf("maxiter", "4000", "int")>>,   \* two --optconf options
                      <<Conf("steps", "500", "int")>>,                                 \* minuit only
                      <<Conf("strategy", "2", "int"), Conf("errordef", "1", "int")>>,  \* minuit only
                      <<Conf("no_such_setting", "1", "int")>> >>, ConfSel, 1)
PruneDom == PickIdx(<< NoSel,
                       Sel(<<"CR">>, <<>>, <<>>, <<>>, <<>>),
                       Sel(<<>>, <<"alt">>, <<>>, <<>>, <<>>),
                       Sel(<<>>, <<>>, <<"shape">>, <<>>, <<>>),
                       Sel(<<>>, <<>>, <<>>, <<"shapesys">>, <<>>),
                       Sel(<<>>, <<>>, <<>>, <<>>, <<"meas_alt">>),
                       Sel(<<>>, <<"alt">>, <<"shape", "norm">>, <<"shapesys">>, <<"meas_alt">>),    \* -m twice, everything at once
                       Sel(<<"no_such_channel">>, <<>>, <<>>, <<>>, <<>>),
                       Sel(<<>>, <<>>, <<>>, <<>>, <<"no_such_measurement">>) >>, SelSel, 1)
RenameDom == PickIdx(<< NoRen,
                        Ren(<< <<"SR", "SRX">> >>, <<>>, <<>>, <<>>),
                        Ren(<<>>, << <<"alt", "other_sig">> >>, <<>>, <<>>),
                        Ren(<<>>, <<>>, << <<"mu_alt", "mu_two">> >>, <<>>),
                        Ren(<<>>, <<>>, <<>>, << <<"meas_alt", "m2">> >>),
                        Ren(<< <<"SR", "CR">>, <<"CR", "SR">> >>, <<>>, <<>>, <<>>),             \* a swap, two -c options
                        Ren(<< <<"CR", "C2">> >>, << <<"sig", "s2">> >>, << <<"norm", "n2">>, <<"mu", "mu2">> >>, << <<"meas_mu", "m1">> >>) >>,
                     SelSel, 1)
AlgDom == PickIdx(<< <<>>, <<"md5">>, <<"sha256", "md5">>, <<"md5", "sha256">>, <<"sha512">>, <<"no_such_algorithm">> >>, AlgSel, 1)

WsDom(c) ==
  CASE c \in {"cls", "fit"} -> <<"two", "badfirst">>
    [] c = "inspect" -> <<"two", "badfirst", "other">>
    [] c \in {"prune", "rename"} -> <<"two">>
    [] c = "combine" -> <<"two", "other">>
    [] c \in {"sort", "digest"} -> <<"two", "overlap">>
    [] c \in {"ps_apply", "ps_verify"} -> <<"bkgonly", "other">>
    [] c \in {"json2xml", "xml2json"} -> <<"two", "other">>
    [] OTHER -> <<>>

Dom(c, name, o) ==
  CASE name = "ws"        -> WsDom(c)
    [] name = "ws2"       -> IF o.ws = "two" THEN <<"other", "overlap">> ELSE <<"two">>
    [] name = "meas"      -> MeasDom(o.ws)
    [] name = "patches"   -> PatchDom
    [] name = "poi"       -> PickIn(<<"", "1.0", "0.5", "2.0">>, PoiSel)
    [] name = "stat"      -> <<"", "q", "qtilde">>
    [] name = "calc"      -> PickIn(<<"", "asymptotics", "toybased">>, CalcSel)
    [] name = "backend"   -> PickIn(<<"", "numpy", "np", "pytorch", "torch", "jax">>, Backends)
    [] name = "optimizer" -> PickIn(<<"", "scipy", "minuit">>, Optimizers)
    [] name = "optconf"   -> ConfDom
    [] name = "value"     -> <<"", "on">>
    [] name = "sel"       -> PruneDom
    [] name = "ren"       -> RenameDom
    [] name = "join"      -> <<"", "none", "outer", "left outer", "right outer">>
    [] name = "merge"     -> <<"", "on", "off">>
    [] name = "algs"      -> AlgDom
    [] name = "fmt"       -> <<"", "on", "off">>
    [] name = "pname"     -> <<"", "p_one", "p_two", "no_such_patch">>
    [] name = "meta"      -> <<"", "on", "off">>
    [] name = "roots"     -> <<"", "custom">>
    [] name = "progress"  -> <<"", "on", "off">>
    [] name = "valerr"    -> <<"", "on", "off">>

\* the value an option has when the command line says nothing: given explicitly it must not change the call
IsDefaultValue(c, name, o) ==
  LET v == o[name] IN
  CASE name = "meas"      -> v = FirstMeas(o.ws).name
    [] name = "poi"       -> v = "1.0"
    [] name = "stat"      -> v = "qtilde"
    [] name = "calc"      -> v = "asymptotics"
    [] name = "backend"   -> v \in {"numpy", "np"}
    [] name = "optimizer" -> v = "scipy"
    [] name = "join"      -> v = "none"
    [] name \in {"merge", "fmt", "meta"} -> v = "off"
    [] name \in {"progress", "valerr"}   -> v = "on"
    [] name = "algs"      -> v = <<"sha256">>
    [] OTHER -> FALSE

-----------------------------------------------------------------------------
NoIO == [in |-> "", out |-> ""]
NoCall == [fn |-> "none"]
Init == phase = "cmd" /\ cmd = "" /\ opt = NoOpt /\ k = 1 /\ io = NoIO /\ code = 0 /\ defc = NoCall /\ implc = NoCall

ChooseCommand ==
  /\ phase = "cmd"
  /\ \E i \in DOMAIN CmdSeq : cmd' = CmdSeq[i] /\ code' = i
  /\ phase' = "opts"
  /\ UNCHANGED <<opt, k, io, defc, implc>>

ChooseOption ==
  /\ phase = "opts" /\ k <= Len(OptOrder(cmd))
  /\ LET name == OptOrder(cmd)[k]
         dom  == Dom(cmd, name, opt)
     IN \E i \in DOMAIN dom : opt' = [opt EXCEPT ![name] = dom[i]] /\ code' = code * Len(dom) + (i - 1)
  /\ k' = k + 1
  /\ UNCHANGED <<phase, cmd, io, defc, implc>>

ChooseIO ==
  /\ phase = "opts" /\ k > Len(OptOrder(cmd))
  /\ \E i \in InRoutes(cmd, opt), out \in OutRoutes(cmd) : io' = [in |-> i, out |-> out]
  /\ phase' = "ready"
  /\ UNCHANGED <<cmd, opt, k, code, defc, implc>>

Run ==
  /\ phase = "ready"
  /\ defc' = DefCall(cmd, opt)
  /\ implc' = ImplCall(cmd, opt, InspectForwardsMeasurement)
  /\ phase' = "done"
  /\ UNCHANGED <<cmd, opt, k, io, code>>

Next == ChooseCommand \/ ChooseOption \/ ChooseIO \/ Run
Spec == Init /\ [][Next]_vars

-----------------------------------------------------------------------------
Done == phase = "done"
Given(name) == opt[name] # Unset(name)
OptionNames == {OptOrder(cmd)[i] : i \in DOMAIN OptOrder(cmd)} \ Positional

WellFormed ==
  /\ phase \in {"cmd", "opts", "ready", "done"}
  /\ phase # "cmd" => cmd \in Commands
  /\ phase # "cmd" => \A name \in DOMAIN NoOpt : Given(name) => \E i \in 1..(k - 1) : OptOrder(cmd)[i] = name
  /\ phase \in {"ready", "done"} => io.in \in InRoutes(cmd, opt) /\ io.out \in OutRoutes(cmd)
  /\ Done => defc.fn = implc.fn /\ defc.fn # "none"

Without(name) == [opt EXCEPT ![name] = Unset(name)]
DefSensitive == Done => \A name \in OptionNames :
  (Given(name) /\ ~IsDefaultValue(cmd, name, opt)) => Norm(DefCall(cmd, Without(name))) # Norm(defc)
DefaultsAreDefaults == Done => \A name \in OptionNames :
  (Given(name) /\ IsDefaultValue(cmd, name, opt)) => Norm(DefCall(cmd, Without(name))) = Norm(defc)
ImplSensitive == Done => \A name \in OptionNames :
  (Given(name) /\ ~IsDefaultValue(cmd, name, opt)) =>
      Norm(ImplCall(cmd, Without(name), InspectForwardsMeasurement)) # Norm(implc)

ImplForwardsAll == Done => Norm(implc) = Norm(defc)
IgnoredMeasurementClass == cmd = "inspect" /\ Given("meas")
ImplForwardsAllButInspectMeasurement == (Done /\ ~IgnoredMeasurementClass) => Norm(implc) = Norm(defc)
DivergenceIsIgnoredMeasurement == (Done /\ Norm(implc) # Norm(defc)) =>
  /\ IgnoredMeasurementClass
  /\ Norm(implc) = Norm([defc EXCEPT !.measurement = LIBDEFAULT])
  /\ ~IsDefaultValue(cmd, "meas", opt)

DefExpect  == Expect(Norm(defc))
ImplExpect == Expect(Norm(implc))
ExitIffLibrary == Done =>
  /\ DefExpect \in {"ok", "fail", "lib"} /\ ImplExpect \in {"ok", "fail", "lib"}
  /\ Norm(implc) = Norm(defc) => ImplExpect = DefExpect
  \* the world decides: an unknown or unbuildable measurement, a patch that cannot be applied, an unknown setting, algorithm or patch name fail
  /\ (defc.fn \in {"hypotest", "mle.fit", "inspect"} /\ opt.meas = "no_such_measurement") => DefExpect = "fail"
  /\ (defc.fn \in {"hypotest", "mle.fit", "inspect"} /\ opt.ws = "badfirst" /\ opt.meas = "") => DefExpect = "fail"
  /\ (defc.fn = "inspect" /\ opt.ws = "badfirst" /\ opt.meas = "meas_mu") => DefExpect = "ok"

OutputPlanAgrees == phase \in {"ready", "done"} =>
  /\ ImplOutputPlan(cmd, io.out) = DefOutputPlan(cmd, io.out)
  /\ (io.out = "file" /\ cmd # "inspect") => DefOutputPlan(cmd, "file").file = DefOutputPlan(cmd, "stdout").stdout
  /\ io.out = "file" => HasOutputFile(cmd)

-----------------------------------------------------------------------------
(* case emission                                                             *)
Case == [cmd |-> cmd, opt |-> opt, io |-> io, def |-> defc, impl |-> implc,
         ndef |-> Norm(defc), nimpl |-> Norm(implc),
         differs |-> Norm(defc) # Norm(implc),
         defexpect |-> DefExpect, implexpect |-> ImplExpect,
         payload |-> PayloadKind(cmd), plan |-> DefOutputPlan(cmd, io.out), code |-> code]
IOCode == (CASE io.in = "file" -> 0 [] io.in \in {"stdin", "stdin1"} -> 1 [] io.in \in {"omitted", "stdin2"} -> 2 [] OTHER -> 3)
          + 4 * (IF io.out = "file" THEN 1 ELSE 0)
Hash == ((((code * 8 + IOCode) % 65521) * 7919) + 104729 * Len(cmd)) % 65521
Mod  == IF cmd \in {"cls", "fit"} THEN EmitModInfer ELSE EmitMod
\* the class on which the layers differ is printed 4x denser
Emit == (EmitCases /\ Done
         /\ (Hash % Mod = EmitRes % Mod \/ (Norm(defc) # Norm(implc) /\ Hash % ((Mod \div 4) + 1) = EmitRes % ((Mod \div 4) + 1))))
        => PrintT(ToJson(Case))
WorldHeader == [header |-> TRUE,
                world |-> [w \in WsNames |-> [measurements |-> World[w].measurements, channels |-> World[w].channels, samples |-> World[w].samples,
                                             modifiers |-> World[w].modifiers, modtypes |-> World[w].modtypes, verified |-> Verified(w)]],
                patches |-> AllPatches, goodpatches |-> GoodPatches, patchset |-> PatchSetNames, hashlib |-> Hashlib]
ASSUME EmitCases => PrintT(ToJson(WorldHeader))
=============================================================================
