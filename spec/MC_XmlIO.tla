----------------------------- MODULE MC_XmlIO -----------------------------
(***************************************************************************)
(* C18 model-checking instance of XmlIO.tla.  Two state machines:          *)
(*                                                                         *)
(* ConvSpec  builds the exportable workspaces of a small family            *)
(*   Init            1..MaxChan channels, each with (samples, bins) from   *)
(*                   ShapeCodes (code = 10*samples + bins), distinguishable*)
(*                   yields incl. tenths, optionally one zero-yield bin;   *)
(*                   a normfactor "mu" on the first sample                 *)
(*   Place(c,s,k)    puts a modifier of kind k on sample s of channel c    *)
(*                   (histosys/normsys sharing the name Alpha_sys, a second*)
(*                   normsys, a second normfactor, mu again, shapesys,     *)
(*                   staterror with a per-channel name, shapefactor, lumi) *)
(*   Measure(..)     one or two measurements: lumi central value x sigma,  *)
(*                   normfactor settings (default / inits+bounds / inits), *)
(*                   fixed scalar parameters, second POI; then exports and *)
(*                   re-imports in both layers (stored in `res`)           *)
(* Invariants (phase = "done"):                                            *)
(*   FamilyExportable     the generator stays inside the exportable fragment*)
(*   RoundTripDef         Terms(DefImport(DefExport(w))) = Terms(w)        *)
(*   ImplOnlyLumiSigma    the implementation-shaped round trip preserves   *)
(*                        every term except (possibly) the luminosity sigma*)
(*   ImplLumiPrediction   ... which comes back as Lumi*sigma (ImplLumiAbs) *)
(*   ImplAgreesIffLumiOne ... so the code is right iff no lumi modifier or *)
(*                        every measurement has Lumi = 1                   *)
(*   ImplXmlSameButRelErr the documents of the two layers agree up to the  *)
(*                        LumiRelErr attribute                             *)
(*                                                                         *)
(* HistSpec  export / import / clear_filecache histories over Dirs x       *)
(*   Versions to depth MaxDepth.                                           *)
(*   ImportReadsCurrentFile   (definition) the demanded result of every    *)
(*                            import is the last version exported there    *)
(*   ImplCacheCharacterised   the path-keyed cache returns what was on disk*)
(*                            at the first import since the last clear     *)
(*   ImplImportReadsCurrentFile  the implementation-shaped cache satisfies *)
(*                            the definition -- EXPECTED TO FAIL while     *)
(*                            ImplCacheStale (checked in a separate run)   *)
(***************************************************************************)
EXTENDS XmlIO, Json

CONSTANTS MaxChan, ShapeCodes, MaxPlace, Kinds, MaxFixed, MaxMeas, AllowZero,
          Lean,               \* TRUE (quick tier): normfactor setting tied to the other choices, fixed flags in one measurement at a time
          ImplLumiAbs,        \* TRUE: writexml writes the absolute sigma as LumiRelErr (tree as read)
          ImplCacheStale,     \* TRUE: __FILECACHE__ keyed by path only, never invalidated (tree as read)
          Dirs, Versions, MaxDepth,
          EmitCases, EmitMod, EmitRes

VARIABLES ws, phase, last, np, h, res,      \* conversion layer
          fs, cache, hist                   \* history layer
vars == <<ws, phase, last, np, h, res, fs, cache, hist>>

-----------------------------------------------------------------------------
(* the family *)
ChanName == <<"SR_one", "cr2">>
SampName == <<"Bkg", "signal">>
StatName == <<"mcstat_A", "zz_stat">>         \* original staterror names (the format renames them)
SfName   == <<"sf_A", "sf_B">>
LumiVals   == <<RN(1, 2), ROne, R(2)>>
LumiSigmas == <<RN(1, 10), RN(1, 5)>>
NfCfgs == <<"default", "custom", "initsonly">>

Nom(c, s, b) == RN(10 * (20 * c + 7 * s + 3 * b) + ((c + s + b) % 3), 10)    \* 30, 33.1, 37.1, 40.2, 50.1, ...
Obs(c, b) == RN(2 * (60 + 40 * (c - 1) + 7 * b) + (c - 1), 2)                 \* 67, 74; 107.5, 114.5

KindSeq == <<"mu", "nf2", "lumi", "normsysA", "normsysB", "histosys", "shapesys", "staterror", "shapefactor">>
KRank(k) == CHOOSE i \in DOMAIN KindSeq : KindSeq[i] = k
Key(c, s, k) == ((c - 1) * 2 + (s - 1)) * 10 + KRank(k)

MkMod(k, c, s, d) ==
  CASE k = "mu"          -> Mod("mu", "normfactor", <<>>, <<>>)
    [] k = "nf2"         -> Mod("nf2", "normfactor", <<>>, <<>>)
    [] k = "lumi"        -> LumiMod
    [] k = "normsysA"    -> Mod("Alpha_sys", "normsys", <<RN(10 - c - s, 10)>>, <<RN(10 + 2 * c + s, 10)>>)
    \* the second normsys name ends in _<digits>: adversarial against the gamma_<name>_<index> grammar of ROOT names (an alpha_ name keeps its suffix)
    [] k = "normsysB"    -> Mod("t_ns_1", "normsys", <<RN(20 - c - 2 * s, 20)>>, <<RN(20 + 3 * c + s, 20)>>)
    [] k = "histosys"    -> Mod("Alpha_sys", "histosys",
                                [b \in DOMAIN d |-> RAdd(RMul(d[b], RN(9, 10)), RN(b, 10))],
                                [b \in DOMAIN d |-> RAdd(RMul(d[b], RN(6, 5)), RN(s, 2))])
    [] k = "shapesys"    -> Mod("shp_" \o ChanName[c] \o "_" \o SampName[s], "shapesys",
                                [b \in DOMAIN d |-> IF d[b] = RZero THEN RZero ELSE RN(10 * (3 + 2 * s + b) + c, 10)], <<>>)
    [] k = "staterror"   -> Mod(StatName[c], "staterror",
                                [b \in DOMAIN d |-> IF d[b] = RZero THEN RZero ELSE RN(10 * (2 + s + b) + 3 * c, 10)], <<>>)
    [] k = "shapefactor" -> Mod(SfName[c], "shapefactor", <<>>, <<>>)

\* the second normfactor starts at exactly 0 with 0 as its lower bound: legitimate settings that are falsy in Python
NfInit(n)   == IF n = "mu" THEN RN(3, 2) ELSE RZero
NfBounds(n) == IF n = "mu" THEN <<R(-1), R(7)>> ELSE <<RZero, RN(5, 2)>>

MkMeas(w, name, poi, L, sg, nfc, F) ==
  LET lumi == IF HasLumiMod(w)
              THEN <<[name |-> "lumi", inits |-> <<L>>, auxdata |-> <<L>>, sigmas |-> <<sg>>, fixed |-> "lumi" \in F,
                      bounds |-> << <<RMul(L, RN(1, 2)), RMul(L, RN(3, 2))>> >>]>>
              ELSE <<>>
      nfpar(n) == IF n \notin ParamNames(w) THEN <<>>
                  ELSE IF nfc = "default" THEN (IF n \in F THEN <<[NoPar EXCEPT !.name = n, !.fixed = TRUE]>> ELSE <<>>)
                  ELSE IF nfc = "custom" THEN <<[NoPar EXCEPT !.name = n, !.inits = <<NfInit(n)>>, !.bounds = <<NfBounds(n)>>, !.fixed = n \in F]>>
                  ELSE <<[NoPar EXCEPT !.name = n, !.inits = <<NfInit(n)>>, !.fixed = n \in F]>>
      sys(n) == IF n \in F /\ n \in ParamNames(w) THEN <<[NoPar EXCEPT !.name = n, !.fixed = TRUE]>> ELSE <<>>
  IN [name |-> name, poi |-> poi, pars |-> nfpar("mu") \o lumi \o sys("Alpha_sys") \o nfpar("nf2") \o sys("t_ns_1")]

ScalarPars(w) == ParamNames(w) \cap {"mu", "nf2", "lumi", "Alpha_sys", "t_ns_1"}
NameRank(n) == CASE n = "mu" -> 1 [] n = "nf2" -> 2 [] n = "lumi" -> 4 [] n = "Alpha_sys" -> 8 [] n = "t_ns_1" -> 16 [] OTHER -> 0
RECURSIVE SetCode(_)
SetCode(S) == IF S = {} THEN 0 ELSE LET n == CHOOSE z \in S : TRUE IN NameRank(n) + SetCode(S \ {n})

-----------------------------------------------------------------------------
(* conversion-layer state machine *)
\* derived structure is computed once, by the action that finishes the workspace, and kept in `res`:
\* the definition-layer document and re-import (replayed), the implementation-layer predictions, and the
\* truth values of the invariants' bodies (sets of terms are compared here, not stored)
NoRes == [x |-> <<>>, back |-> <<>>, impl |-> <<>>, ok |-> <<>>]
HistIdle == fs = [d \in Dirs |-> NoFile] /\ cache = EmptyCache(Dirs) /\ hist = <<>>

ConvInit ==
  /\ HistIdle
  /\ \E nch \in 1..MaxChan : \E dims \in [1..nch -> ShapeCodes] : \E zero \in (IF AllowZero THEN {0, 1, 2} ELSE {0}) :      \* 1: one zero-yield bin, 2: one NEGATIVE-yield bin (interference-like sample)
       /\ zero # 0 => dims[1] \div 10 = 2
       /\ ws = [channels |-> [c \in 1..nch |->
                   [name |-> ChanName[c], obs |-> [b \in 1..(dims[c] % 10) |-> Obs(c, b)],
                    samples |-> [s \in 1..(dims[c] \div 10) |->
                       [name |-> SampName[s],
                        data |-> [b \in 1..(dims[c] % 10) |-> IF zero = 1 /\ c = 1 /\ s = 2 /\ b = 1 THEN RZero
                                                               ELSE IF zero = 2 /\ c = 1 /\ s = 2 /\ b = 1 THEN RN(-7, 2) ELSE Nom(c, s, b)],
                        mods |-> IF c = 1 /\ s = 1 THEN <<Mod("mu", "normfactor", <<>>, <<>>)>> ELSE <<>>]]]],
                meas |-> <<>>]
       /\ h = zero * 5 + dims[1] * 7 + (IF nch = 2 THEN dims[2] * 13 ELSE 0)
  /\ phase = "mods" /\ last = 0 /\ np = 0 /\ res = NoRes

Place(c, s, k) ==
  /\ phase = "mods" /\ np < MaxPlace
  /\ c \in DOMAIN ws.channels /\ s \in DOMAIN ws.channels[c].samples
  /\ Key(c, s, k) > last                       \* canonical order: one listing per set of placements
  /\ ~(k = "mu" /\ c = 1 /\ s = 1)
  /\ ws' = [ws EXCEPT !.channels[c].samples[s].mods = Append(@, MkMod(k, c, s, ws.channels[c].samples[s].data))]
  /\ last' = Key(c, s, k) /\ np' = np + 1
  /\ h' = (h * 37 + Key(c, s, k)) % 1000003
  /\ UNCHANGED <<phase, res, fs, cache, hist>>

Measure(li, si, ni, F1, nm, F2) ==
  /\ phase = "mods"
  /\ (~HasLumiMod(ws)) => (li = 2 /\ si = 1)
  /\ Cardinality(F1) <= MaxFixed /\ Cardinality(F2) <= 1 /\ (nm = 1 => F2 = {})
  /\ Lean => /\ ni = ((li + si + nm + SetCode(F1) + SetCode(F2) + last) % 3) + 1
             /\ (F1 = {} \/ F2 = {})
  \* every intermediate value is bound once (a LET would be re-evaluated at each use)
  /\ \E m1 \in {MkMeas(ws, "meas_one", "mu", LumiVals[li], LumiSigmas[si], NfCfgs[ni], F1)} :
     \E m2 \in {MkMeas(ws, "second", IF "nf2" \in ParamNames(ws) THEN "nf2" ELSE "mu",
                        LumiVals[(li % 3) + 1], LumiSigmas[3 - si], NfCfgs[ni], F2)} :
     \E w \in {[ws EXCEPT !.meas = IF nm = 1 THEN <<m1>> ELSE <<m1, m2>>]} :
     \E x \in {DefExport(w)} : \E ix \in {ImplExport(w, ImplLumiAbs)} :            \* writexml
     \E back \in {DefImport(x)} : \E iback \in {ImplImport(ix)} :                  \* readxml.parse
     \E tw \in {Terms(w)} : \E haslumi \in {HasLumiMod(w)} : \E agrees \in {Terms(iback) = tw} :
        /\ ws' = w
        /\ res' = [x |-> x, back |-> back,
                   impl |-> [relerr |-> [i \in DOMAIN w.meas |-> ix.meas[i].relerr], agrees |-> agrees,
                             sigma |-> [i \in DOMAIN w.meas |-> ParOf(iback.meas[i], "lumi").sigmas[1]],
                             parorder |-> [i \in DOMAIN w.meas |-> [j \in DOMAIN iback.meas[i].pars |-> iback.meas[i].pars[j].name]]],
                   ok |-> [exportable |-> Exportable(w) /\ ~ImportRefuses(x) /\ ~ImportRefuses(ix),
                           roundtrip |-> Terms(back) = tw,
                           ionly |-> Terms(WithLumiSigmaOf(iback, w)) = tw,
                           ilumi |-> haslumi =>
                                      \A i \in DOMAIN w.meas :
                                         LET lp == ParOf(w.meas[i], "lumi")  got == ParOf(iback.meas[i], "lumi") IN
                                         /\ got.auxdata = lp.auxdata /\ got.inits = lp.auxdata
                                         /\ got.sigmas = <<IF ImplLumiAbs THEN RMul(lp.auxdata[1], lp.sigmas[1]) ELSE lp.sigmas[1]>>,
                           iagree |-> agrees <=> (~ImplLumiAbs \/ ~haslumi \/ \A i \in DOMAIN w.meas : ParOf(w.meas[i], "lumi").auxdata = <<ROne>>),
                           ixml |-> /\ ix.channels = x.channels
                                    /\ \A i \in DOMAIN x.meas : [ix.meas[i] EXCEPT !.relerr = x.meas[i].relerr] = x.meas[i]]]
  /\ phase' = "done"
  /\ h' = (h * 41 + li * 7 + si * 3 + ni * 5 + nm * 11 + SetCode(F1) * 17 + SetCode(F2) * 29) % 1000003
  /\ UNCHANGED <<last, np, fs, cache, hist>>

ConvNext ==
  \/ \E c \in 1..MaxChan, s \in 1..2, k \in Kinds : Place(c, s, k)
  \/ \E li \in 1..3, si \in 1..2, ni \in 1..3, nm \in 1..MaxMeas :
       \E F1 \in SUBSET ScalarPars(ws), F2 \in SUBSET ScalarPars(ws) : Measure(li, si, ni, F1, nm, F2)
ConvSpec == ConvInit /\ [][ConvNext]_vars

Done == phase = "done"
FamilyExportable     == Done => res.ok.exportable
RoundTripDef         == Done => res.ok.roundtrip      \* Terms(DefImport(DefExport(w))) = Terms(w)
ImplOnlyLumiSigma    == Done => res.ok.ionly          \* Terms(impl round trip with sigma restored) = Terms(w)
ImplLumiPrediction   == Done => res.ok.ilumi          \* impl round trip: auxdata = inits = Lumi, sigma = Lumi*sigma (ImplLumiAbs)
ImplAgreesIffLumiOne == Done => res.ok.iagree         \* impl terms = terms  <=>  repaired \/ no lumi modifier \/ all Lumi = 1
ImplXmlSameButRelErr == Done => res.ok.ixml           \* documents of both layers agree up to LumiRelErr

ConvCase == [layer |-> "conv", id |-> h, w |-> ws, xml |-> res.x, expect |-> res.back, impl |-> res.impl]
ConvEmit == (EmitCases /\ Done /\ h % EmitMod = EmitRes) => PrintT(ToJson(ConvCase))

-----------------------------------------------------------------------------
(* history-layer state machine *)
ConvIdle == ws = <<>> /\ phase = "hist" /\ last = 0 /\ np = 0 /\ h = 0 /\ res = NoRes
HistInit == ConvIdle /\ HistIdle

Ev(op, d, v, dem, imp) == [op |-> op, dir |-> d, ver |-> v, demand |-> dem, impl |-> imp]

HExport(d, v) ==
  /\ Len(hist) < MaxDepth
  /\ fs' = WriteFile(fs, d, v, Len(hist) + 1)            \* uproot.recreate: new content, new identity
  /\ hist' = Append(hist, Ev("export", d, v, 0, 0))
  /\ UNCHANGED <<cache, ws, phase, last, np, h, res>>     \* writexml never touches readxml's cache

HImport(d) ==
  /\ Len(hist) < MaxDepth /\ fs[d].ver # 0
  /\ cache' = ImplCacheAfterRead(fs, cache, d, ImplCacheStale)
  /\ hist' = Append(hist, Ev("import", d, 0, DefRead(fs, d), ImplRead(fs, cache, d, ImplCacheStale)))
  /\ UNCHANGED <<fs, ws, phase, last, np, h, res>>

HClear ==
  /\ Len(hist) < MaxDepth /\ cache # EmptyCache(Dirs)
  /\ cache' = EmptyCache(Dirs)
  /\ hist' = Append(hist, Ev("clear", 0, 0, 0, 0))
  /\ UNCHANGED <<fs, ws, phase, last, np, h, res>>

HistNext == (\E d \in Dirs, v \in Versions : HExport(d, v)) \/ (\E d \in Dirs : HImport(d)) \/ HClear
HistSpec == HistInit /\ [][HistNext]_vars

SetMax(S) == CHOOSE m \in S : \A z \in S : z <= m
SetMin(S) == CHOOSE m \in S : \A z \in S : m <= z
\* content of directory d just before step i, read off the history alone
LastExported(i, d) == LET js == {j \in 1..(i - 1) : hist[j].op = "export" /\ hist[j].dir = d}
                      IN IF js = {} THEN 0 ELSE hist[SetMax(js)].ver
\* the import that filled the cache entry used at step i: first import of d with no clear since
FillPoint(i, d) == SetMin({j \in 1..i : hist[j].op = "import" /\ hist[j].dir = d /\ \A k \in j..i : hist[k].op # "clear"})

ImportReadsCurrentFile ==
  \A i \in DOMAIN hist : hist[i].op = "import" => hist[i].demand # 0 /\ hist[i].demand = LastExported(i, hist[i].dir)
ImplCacheCharacterised ==
  \A i \in DOMAIN hist : hist[i].op = "import" =>
     hist[i].impl = IF ImplCacheStale THEN LastExported(FillPoint(i, hist[i].dir), hist[i].dir) ELSE hist[i].demand
ImplImportReadsCurrentFile ==
  \A i \in DOMAIN hist : hist[i].op = "import" => hist[i].impl = hist[i].demand

HHash == LET w(e) == (IF e.op = "export" THEN 1 ELSE IF e.op = "import" THEN 2 ELSE 3) + 4 * e.dir + 16 * e.ver
             RECURSIVE F(_)
             F(i) == IF i > Len(hist) THEN 0 ELSE i * i * w(hist[i]) + F(i + 1)
         IN F(1)
HistEmit == (EmitCases /\ Len(hist) = MaxDepth /\ hist[Len(hist)].op = "import" /\ HHash % EmitMod = EmitRes)
              => PrintT(ToJson([layer |-> "hist", id |-> HHash, hist |-> hist]))
=============================================================================
