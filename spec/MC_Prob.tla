------------------------------ MODULE MC_Prob ------------------------------
(***************************************************************************)
(* The call-session machine of Prob.tla over a concrete argument lattice.   *)
(* SetBackend selects backend and precision, Call performs one primitive    *)
(* call (or one relation between two calls) on lattice arguments.  Every    *)
(* reachable Call state is an obligation; the specification prints it and   *)
(* the harness discharges it on the real backend.                           *)
(***************************************************************************)
EXTENDS Prob, Json

CONSTANTS Backends, Precs, Dense, EmitCases

VARIABLES backend, prec, last,
          first      \* an earlier segment of the same process: [backend, prec] on which every primitive family was called first, or none
vars == <<backend, prec, last, first>>
NoFirst == [backend |-> "none", prec |-> "none"]

\* ---- lattices (precision-dependent at the small end: denormals of the respective format)
Counts == <<D(0, 0), D(1, 0), D(2, 0), D(5, 0), D(10, 0), D(100, 0), D(1, 4), D(1, 6), D(1, 8), D(5, -1), D(25, -1), D(37, -1), D(1234567, -2)>>
         \o (IF Dense THEN <<D(3, 0), D(17, 0), D(999, 0), D(31, 6), D(1, -3), D(99999, -4), D(75, -1), D(123, 5)>> ELSE <<>>)
RatesCommon == <<D(0, 0), D(1, -30), D(1, -8), D(1, -3), D(5, -1), D(1, 0), D(3, 0), D(97, -1), D(100, 0), D(1, 4), D(999, 3), D(1, 6), D(1, 8), D(10001, 4)>>
               \o (IF Dense THEN <<D(1, -20), D(1, -5), D(2, -1), D(17, 0), D(1234567, -2), D(5, 7), D(99999, 3), D(31, 6)>> ELSE <<>>)
Rates(p) == RatesCommon \o (IF p = "64b" THEN <<D(5, -324), D(1, -300), D(1, -100)>> ELSE <<D(14, -46), D(1, -37)>>)
Sigmas == <<D(1, -10), D(1, -5), D(1, -2), D(5, -1), D(1, 0), D(35, -1), D(1, 3), D(1, 10)>>
Mus == <<D(0, 0), D(1, 0), D(-25, -1), D(1, 5), D(-1, -5)>>
Xs == <<D(0, 0), D(1, 0), D(-3, 0), D(1, 5), D(100001, 0), D(1, -5), D(-1, 10), D(38, 0), D(-38, 0), D(2, 1), D(999999, -1)>>
      \o (IF Dense THEN <<D(7, -3), D(-12345, -2), D(1, 10), D(1, -10), D(5, 4)>> ELSE <<>>)
\* the ordered z chain of the cumulative distribution (arguments from -38 to +38 and the neighbourhood of 0)
Zs == <<D(-38, 0), D(-375, -1), D(-30, 0), D(-20, 0), D(-83, -1), D(-5, 0), D(-3, 0), D(-1, 0), D(-5, -1), D(-1, -6), D(0, 0),
        D(1, -6), D(5, -1), D(1, 0), D(3, 0), D(5, 0), D(83, -1), D(20, 0), D(30, 0), D(375, -1), D(38, 0)>>
\* exactly representable location/scale triples: z in halves, sigma in {1/2, 1, 2, 4}, mu integer  =>  x = mu + z sigma in quarters
ZExact == <<-380, -200, -50, -30, -10, -5, 0, 5, 10, 30, 50, 200, 380>>      \* tenths
SigExact == <<5, 10, 20, 40>>                                               \* tenths
MuExact == <<0, 2, -3>>
Range(s) == {s[i] : i \in DOMAIN s}

\* ---- obligations
ValuePois(p) == {[kind |-> "value", fn |-> "poisson_logpdf", args |-> [n |-> n, lam |-> l], case |-> PoisCase(n, l),
                  value |-> PoisValue(n, l), variants |-> Variants("poisson_logpdf")] : n \in Range(Counts), l \in Range(Rates(p))}
ValueNorm == {[kind |-> "value", fn |-> "normal_logpdf", args |-> [x |-> x, mu |-> m, sigma |-> s], case |-> "regular",
               value |-> NormValue(x, m, s), variants |-> Variants("normal_logpdf")] : x \in Range(Xs), m \in Range(Mus), s \in Range(Sigmas)}
ValueCdf == {[kind |-> "value", fn |-> "normal_cdf", args |-> [x |-> z, mu |-> D(0, 0), sigma |-> D(1, 0)], case |-> "standard",
              value |-> CdfValue(z, D(0, 0), D(1, 0)), variants |-> Variants("normal_cdf")] : z \in Range(Zs)}
            \cup {[kind |-> "value", fn |-> "normal_cdf", args |-> [x |-> x, mu |-> m, sigma |-> s], case |-> "located",
              value |-> CdfValue(x, m, s), variants |-> Variants("normal_cdf")] : x \in Range(Xs), m \in Range(Mus), s \in {Sigmas[3], Sigmas[5], Sigmas[7]}}
\* log P(n+1 | lam) - log P(n | lam) = ln lam - ln(n + 1)   for integer counts and positive rates
Recurrence(p) == {[kind |-> "recurrence", n |-> n, n1 |-> DSucc(n), lam |-> l] :
                    n \in {c \in Range(Counts) : IsIntegerValued(c) /\ c[2] = 0 /\ c[1] <= 1000}, l \in {r \in Range(Rates(p)) : ~IsZero(r)}}
Reflection == {[kind |-> "reflection", z |-> z, mz |-> DNeg(z)] : z \in Range(Zs)}
Monotone == {[kind |-> "monotone", chain |-> Zs]}
Equivariance == {[kind |-> "equivariance", fn |-> f, z |-> D(z, -1), mu |-> D(m, 0), sigma |-> D(s, -1), x |-> D(z * s + 100 * m, -2)] :
                    f \in {"normal_cdf", "normal_logpdf"}, z \in Range(ZExact), s \in Range(SigExact), m \in Range(MuExact)}
Obligations(p) == ValuePois(p) \cup ValueNorm \cup ValueCdf \cup Recurrence(p) \cup Reflection \cup Monotone \cup Equivariance

Init == backend = "none" /\ prec = "none" /\ last = [kind |-> "none"] /\ first = NoFirst
SetBackend == \E b \in Backends, p \in Precs : backend = "none" /\ backend' = b /\ prec' = p /\ UNCHANGED <<last, first>>
\* the process first uses every primitive family at ONE precision of a backend, then switches that backend to the OTHER precision:
\* nothing a backend class remembers from the first segment (constants, compiled functions) may leak into the second
SwitchPrecision == \E p \in Precs : /\ backend # "none" /\ last.kind = "none" /\ first = NoFirst /\ p # prec
                                      /\ first' = [backend |-> backend, prec |-> prec] /\ prec' = p /\ UNCHANGED <<backend, last>>
CallValue == \E o \in ValuePois(prec) \cup ValueNorm \cup ValueCdf : backend # "none" /\ last.kind = "none" /\ last' = o /\ UNCHANGED <<backend, prec, first>>
CallRelation == \E o \in Recurrence(prec) \cup Reflection \cup Monotone \cup Equivariance :
                   backend # "none" /\ last.kind = "none" /\ last' = o /\ UNCHANGED <<backend, prec, first>>
Next == SetBackend \/ SwitchPrecision \/ CallValue \/ CallRelation
Spec == Init /\ [][Next]_vars

-----------------------------------------------------------------------------
\* magnitude of a lattice number as a decimal exponent: m * 10^e has  e + digits(m) - 1
Digits(m) == LET a == IF m < 0 THEN -m ELSE m IN
             IF a < 10 THEN 1 ELSE IF a < 100 THEN 2 ELSE IF a < 1000 THEN 3 ELSE IF a < 10000 THEN 4 ELSE IF a < 100000 THEN 5
             ELSE IF a < 1000000 THEN 6 ELSE IF a < 10000000 THEN 7 ELSE 8
Mag(x) == x[2] + Digits(x[1]) - 1
\* every argument of a call is zero or inside the range of the selected floating-point format (so that the case the
\* specification assigns is the case the backend sees after rounding the argument)
InFormat(x, p) == IsZero(x) \/ (IF p = "64b" THEN Mag(x) >= -324 /\ Mag(x) <= 307 ELSE Mag(x) >= -45 /\ Mag(x) <= 37)
ArgsOf(o) == CASE o.kind = "value" -> {o.args[k] : k \in DOMAIN o.args}
               [] o.kind = "recurrence" -> {o.n, o.n1, o.lam}
               [] o.kind = "reflection" -> {o.z, o.mz}
               [] o.kind = "monotone" -> Range(o.chain)
               [] o.kind = "equivariance" -> {o.z, o.mu, o.sigma, o.x}
               [] OTHER -> {}
ArgsInFormat == last.kind # "none" => \A x \in ArgsOf(last) : InFormat(x, prec)
\* the case split is a partition: the limits are taken exactly at rate 0, and a positive rate is always regular
CaseSplitOK == (last.kind = "value" /\ last.fn = "poisson_logpdf") =>
                  /\ (last.case = "limit_one" <=> (IsZero(last.args.lam) /\ IsZero(last.args.n)))
                  /\ (last.case = "limit_zero" <=> (IsZero(last.args.lam) /\ ~IsZero(last.args.n)))
                  /\ (last.case = "regular" <=> ~IsZero(last.args.lam))
                  /\ (last.value.k = "const" <=> last.case # "regular")
\* sigma > 0 in every Normal call; the chain of the cumulative distribution is strictly increasing and symmetric
SigmaPositive == (last.kind = "value" /\ last.fn # "poisson_logpdf") => last.args.sigma[1] > 0
ChainOK == last.kind = "monotone" =>
             /\ \A i \in 1..(Len(last.chain) - 1) :
                  LET a == last.chain[i]  b == last.chain[i + 1] IN
                  \* compare on a common exponent (-6 is the smallest used in the chain)
                  a[1] * (IF a[2] = 0 THEN 1000000 ELSE IF a[2] = -1 THEN 100000 ELSE 1) < b[1] * (IF b[2] = 0 THEN 1000000 ELSE IF b[2] = -1 THEN 100000 ELSE 1)
             /\ \A i \in DOMAIN last.chain : last.chain[Len(last.chain) + 1 - i] = DNeg(last.chain[i])
\* x = mu + z sigma exactly, in hundredths, and a multiple of a quarter (binary-exact)
EquivarianceOK == last.kind = "equivariance" =>
                    /\ last.x[1] = last.z[1] * last.sigma[1] + 100 * last.mu[1]
                    /\ last.x[1] % 25 = 0

Emit == (EmitCases /\ last.kind # "none") => PrintT(ToJson([backend |-> backend, prec |-> prec, first |-> first, obligation |-> last]))
=============================================================================
