------------------------------ MODULE PatchSet ------------------------------
(***************************************************************************)
(* C17: patch sets look up, verify and apply patches exactly.              *)
(*                                                                         *)
(* Part 1  JSON documents as TLA+ values (listing order of object keys is  *)
(*         data, as in a Python dict), canonical form, JSON pointers,      *)
(*         RFC-6902 operations, single-leaf corruptions, key permutations. *)
(* Part 2  DEFINITION layer: the property as stated.  Two separate maps    *)
(*         byName / byValues; Accept iff names pairwise distinct and value *)
(*         tuples pairwise distinct (each as long as the label list);      *)
(*         Lookup returns exactly the patch or the lookup error; Verify    *)
(*         iff the canonical form equals the recorded one for every listed *)
(*         algorithm; Apply = JSON patch on the verified workspace.        *)
(* Part 3  IMPLEMENTATION-shaped layer: pyhf/patchset.py as coded -- ONE   *)
(*         dictionary  _patches_by_key = {'name': {}, 'values': {}}  that  *)
(*         holds the two bookkeeping entries AND every patch under its     *)
(*         name AND under its value tuple; `in` tests and item access on   *)
(*         that one dictionary.                                            *)
(*                                                                         *)
(* Numbers are exact rationals <<n, d>> in lowest terms (d > 0); 1 and 1.0 *)
(* are the same value tuple entry.  Names / object keys are strings.       *)
(* Every result is a record of one shape [status, i, errs, result] so that *)
(* TLC never compares values of different kinds.                           *)
(***************************************************************************)
EXTENDS Integers, Sequences, FiniteSets, TLC

-----------------------------------------------------------------------------
(* Part 1: JSON trees                                                       *)
Num(n, d) == [t |-> "num", v |-> <<n, d>>]
Str(s)    == [t |-> "str", s |-> s]
Null      == [t |-> "null"]
Arr(x)    == [t |-> "arr", items |-> x]            \* sequence of nodes
Obj(kv)   == [t |-> "obj", kv |-> kv]              \* sequence of <<key, node>>: listing order is data
Missing   == [t |-> "missing"]                     \* a JSON pointer that resolves to nothing
Conflict  == [t |-> "conflict"]                    \* an operation RFC 6902 declares an error

\* Python's json.dumps(sort_keys=True) orders keys by code point.  The keys the explored documents
\* use, in that order (the harness asserts sorted(KeyOrder) == KeyOrder on the Python side).
KeyOrder == <<"channels", "config", "data", "hi", "lo", "measurements", "modifiers", "name",
              "observations", "parameters", "poi", "samples", "type", "version">>
KeyRank(k) == CHOOSE i \in DOMAIN KeyOrder : KeyOrder[i] = k

\* array index tokens of JSON pointers
IdxToks == <<"0", "1", "2", "3", "4">>
IsIdx(s) == \E i \in DOMAIN IdxToks : IdxToks[i] = s
IdxOf(s) == (CHOOSE i \in DOMAIN IdxToks : IdxToks[i] = s) - 1
IdxTok(i) == IdxToks[i + 1]

RECURSIVE Canon(_)
Canon(n) ==
  IF n.t = "obj"
  THEN Obj(SortSeq([i \in DOMAIN n.kv |-> <<n.kv[i][1], Canon(n.kv[i][2])>>],
                   LAMBDA a, b : KeyRank(a[1]) < KeyRank(b[1])))
  ELSE IF n.t = "arr" THEN Arr([i \in DOMAIN n.items |-> Canon(n.items[i])])
  ELSE n
CanonEq(a, b) == Canon(a) = Canon(b)

HasKey(o, k) == \E i \in DOMAIN o.kv : o.kv[i][1] = k
KeyPos(o, k) == CHOOSE i \in DOMAIN o.kv : o.kv[i][1] = k
Child(n, tok) ==
  IF n.t = "obj" THEN (IF HasKey(n, tok) THEN n.kv[KeyPos(n, tok)][2] ELSE Missing)
  ELSE IF n.t = "arr" THEN (IF IsIdx(tok) /\ IdxOf(tok) < Len(n.items) THEN n.items[IdxOf(tok) + 1] ELSE Missing)
  ELSE Missing

RECURSIVE Get(_, _)
Get(n, path) == IF path = <<>> THEN n
                ELSE LET c == Child(n, Head(path)) IN IF c = Missing THEN Missing ELSE Get(c, Tail(path))

RemoveAt(seq, i)    == SubSeq(seq, 1, i - 1) \o SubSeq(seq, i + 1, Len(seq))
InsertAt(seq, i, x) == SubSeq(seq, 1, i - 1) \o <<x>> \o SubSeq(seq, i, Len(seq))     \* x becomes element i

\* the three primitive edits of RFC 6902, on the container the pointer's last token addresses
CAdd(n, tok, val) ==
  IF n.t = "obj" THEN (IF HasKey(n, tok) THEN Obj([n.kv EXCEPT ![KeyPos(n, tok)] = <<tok, val>>])   \* existing member: replaced
                       ELSE Obj(Append(n.kv, <<tok, val>>)))
  ELSE IF n.t = "arr" THEN (IF tok = "-" THEN Arr(Append(n.items, val))
                            ELSE IF IsIdx(tok) /\ IdxOf(tok) <= Len(n.items) THEN Arr(InsertAt(n.items, IdxOf(tok) + 1, val))
                            ELSE Conflict)
  ELSE Conflict
CRemove(n, tok) ==
  IF Child(n, tok) = Missing THEN Conflict
  ELSE IF n.t = "obj" THEN Obj(RemoveAt(n.kv, KeyPos(n, tok))) ELSE Arr(RemoveAt(n.items, IdxOf(tok) + 1))
CReplace(n, tok, val) ==
  IF Child(n, tok) = Missing THEN Conflict
  ELSE IF n.t = "obj" THEN Obj([n.kv EXCEPT ![KeyPos(n, tok)] = <<tok, val>>])
  ELSE Arr([n.items EXCEPT ![IdxOf(tok) + 1] = val])

RECURSIVE At(_, _, _, _)
At(n, path, kind, val) ==
  IF path = <<>> THEN (IF kind = "remove" THEN Conflict ELSE val)          \* whole document (not explored)
  ELSE IF Len(path) = 1
  THEN (CASE kind = "add" -> CAdd(n, path[1], val)
          [] kind = "remove" -> CRemove(n, path[1])
          [] kind = "replace" -> CReplace(n, path[1], val))
  ELSE LET c == Child(n, path[1]) IN
       IF c = Missing THEN Conflict
       ELSE LET r == At(c, Tail(path), kind, val) IN IF r = Conflict THEN Conflict ELSE CReplace(n, path[1], r)

IsProperPrefix(p, q) == Len(p) < Len(q) /\ SubSeq(q, 1, Len(p)) = p

\* an operation is a record [op, path, from, value] (fields an op does not use are <<>> / Null)
MkOp(op, path, from, value) == [op |-> op, path |-> path, from |-> from, value |-> value]
ApplyOp(n, o) ==
  CASE o.op = "add"     -> At(n, o.path, "add", o.value)
    [] o.op = "remove"  -> At(n, o.path, "remove", Null)
    [] o.op = "replace" -> At(n, o.path, "replace", o.value)
    [] o.op = "test"    -> LET g == Get(n, o.path) IN
                           IF g # Missing /\ CanonEq(g, o.value) THEN n ELSE Conflict   \* JSON equality: member order irrelevant
    [] o.op = "copy"    -> LET g == Get(n, o.from) IN IF g = Missing THEN Conflict ELSE At(n, o.path, "add", g)
    [] o.op = "move"    -> LET g == Get(n, o.from) IN
                           IF g = Missing \/ IsProperPrefix(o.from, o.path) THEN Conflict
                           ELSE LET r == At(n, o.from, "remove", Null) IN
                                IF r = Conflict THEN Conflict ELSE At(r, o.path, "add", g)
RECURSIVE JsonPatch(_, _)
JsonPatch(n, ops) == IF ops = <<>> THEN n
                     ELSE LET r == ApplyOp(n, Head(ops)) IN IF r = Conflict THEN Conflict ELSE JsonPatch(r, Tail(ops))

\* -- faults on a document: leaves, corruptions, permutations ---------------------------------
RECURSIVE LeafPaths(_)
LeafPaths(n) ==
  IF n.t = "obj" THEN UNION {{<<n.kv[i][1]>> \o p : p \in LeafPaths(n.kv[i][2])} : i \in DOMAIN n.kv}
  ELSE IF n.t = "arr" THEN UNION {{<<IdxTok(i - 1)>> \o p : p \in LeafPaths(n.items[i])} : i \in DOMAIN n.items}
  ELSE {<<>>}
RECURSIVE ObjPaths(_)            \* objects with at least two members (something to permute)
ObjPaths(n) ==
  IF n.t = "obj" THEN (IF Len(n.kv) >= 2 THEN {<<>>} ELSE {})
                      \cup UNION {{<<n.kv[i][1]>> \o p : p \in ObjPaths(n.kv[i][2])} : i \in DOMAIN n.kv}
  ELSE IF n.t = "arr" THEN UNION {{<<IdxTok(i - 1)>> \o p : p \in ObjPaths(n.items[i])} : i \in DOMAIN n.items}
  ELSE {}
RECURSIVE ArrPaths(_)            \* arrays with at least two items (order is significant)
ArrPaths(n) ==
  IF n.t = "obj" THEN UNION {{<<n.kv[i][1]>> \o p : p \in ArrPaths(n.kv[i][2])} : i \in DOMAIN n.kv}
  ELSE IF n.t = "arr" THEN (IF Len(n.items) >= 2 THEN {<<>>} ELSE {})
                      \cup UNION {{<<IdxTok(i - 1)>> \o p : p \in ArrPaths(n.items[i])} : i \in DOMAIN n.items}
  ELSE {}

SetAt(n, path, val) == IF path = <<>> THEN val ELSE At(n, path, "replace", val)

LeafHows(l) == IF l.t = "num" THEN (IF l.v[2] = 1 THEN {"bump", "tiny", "retype"} ELSE {"bump", "retype"})
               ELSE IF l.t = "str" THEN {"bump", "retype"} ELSE {"bump", "retype"}
CorruptLeaf(l, how) ==
  CASE how = "bump"   -> (IF l.t = "num" THEN Num(l.v[1] + l.v[2], l.v[2])                 \* + 1
                          ELSE IF l.t = "str" THEN Str(l.s \o "x") ELSE Num(0, 1))          \* null -> 0
    [] how = "tiny"   -> Num(l.v[1] * 1024 + 1, 1024)                                       \* + 2^-10 (integers only)
    [] how = "retype" -> (IF l.t = "num" THEN Str(ToString(l.v[1]))                         \* 5.0 -> "5"
                          ELSE IF l.t = "str" THEN Null ELSE Str("null"))                   \* null -> "null"
Reverse(s) == [i \in DOMAIN s |-> s[Len(s) + 1 - i]]
Rotate(s)  == IF s = <<>> THEN s ELSE Tail(s) \o <<Head(s)>>
RECURSIVE ReverseAll(_)
ReverseAll(n) == IF n.t = "obj" THEN Obj(Reverse([i \in DOMAIN n.kv |-> <<n.kv[i][1], ReverseAll(n.kv[i][2])>>]))
                 ELSE IF n.t = "arr" THEN Arr([i \in DOMAIN n.items |-> ReverseAll(n.items[i])])
                 ELSE n

\* a variant descriptor [kind, path, how] and the document it denotes
VD(kind, path, how) == [kind |-> kind, path |-> path, how |-> how]
Variants(W) ==
  {VD("same", <<>>, "")}
  \cup {VD("leaf", p, h) : p \in LeafPaths(W), h \in {"bump", "tiny", "retype"}}
  \cup {VD("perm", p, h) : p \in ObjPaths(W), h \in {"reverse", "rotate"}}
  \cup {VD("permall", <<>>, "")}
  \cup {VD("swap", p, "") : p \in ArrPaths(W)}
VariantOK(W, vd) == (vd.kind = "leaf" => vd.how \in LeafHows(Get(W, vd.path)))
                    /\ (vd.kind = "perm" /\ vd.how = "rotate" => Len(Get(W, vd.path).kv) >= 3)
MkVariant(W, vd) ==
  CASE vd.kind = "same" -> W
    [] vd.kind = "leaf" -> SetAt(W, vd.path, CorruptLeaf(Get(W, vd.path), vd.how))
    [] vd.kind = "perm" -> LET o == Get(W, vd.path) IN
                           SetAt(W, vd.path, Obj(IF vd.how = "reverse" THEN Reverse(o.kv) ELSE Rotate(o.kv)))
    [] vd.kind = "permall" -> ReverseAll(W)
    [] vd.kind = "swap" -> LET a == Get(W, vd.path) IN
                           SetAt(W, vd.path, Arr(<<a.items[2], a.items[1]>> \o SubSeq(a.items, 3, Len(a.items))))

-----------------------------------------------------------------------------
(* Lookup keys.  One shape [kind, s, t]:                                     *)
(*   "str"        ps["abc"]              s = the string                      *)
(*   "tuple"      ps[(1, 1.5)]           t = the numbers                     *)
(*   "list"       ps[[1, 1.5]]           t = the numbers                     *)
(*   "num"        ps[1]                  t = <<the number>>   (wrong type)   *)
(*   "none"       ps[None]                                     (wrong type)  *)
(*   "strtuple"   ps[("abc",)]           s = the string        (wrong type)  *)
(*   "nested"     ps[((1, 1.5),)]        t = the inner tuple   (wrong type)  *)
(*   "nestedlist" ps[[[1, 1.5]]]         t = the inner list    (wrong type, unhashable) *)
Key(kind, s, t) == [kind |-> kind, s |-> s, t |-> t]
StrKey(s) == Key("str", s, <<>>)
TupKey(t) == Key("tuple", "", t)

\* results
Res(status, i, errs, result) == [status |-> status, i |-> i, errs |-> errs, result |-> result]
Found(i)      == Res("patch", i, {}, Null)
Raises(errs)  == Res("raises", 0, errs, Null)
Returned(r)   == Res("ok", 0, {}, r)
NoRes         == Res("none", 0, {}, Null)

-----------------------------------------------------------------------------
(* Part 2: the DEFINITION layer                                             *)
(* A patch is [name, values, ops]; a document has nl labels, a digest list   *)
(* and a sequence of patches.                                                *)

\* A.7 Accept, stated on the whole document
Accept(nl, patches) ==
  /\ \A i \in DOMAIN patches : \A j \in DOMAIN patches :
        i # j => patches[i].name # patches[j].name /\ patches[i].values # patches[j].values
  /\ \A i \in DOMAIN patches : Len(patches[i].values) = nl

\* the same, as a registration that keeps TWO maps and refuses a duplicate in either
DefInit == [status |-> "ok", n |-> 0, byName |-> <<>>, byValues |-> <<>>]     \* <<>> = the empty function
DefRegister(st, p, nl) ==
  IF st.status # "ok" THEN st
  ELSE IF p.name \in DOMAIN st.byName \/ p.values \in DOMAIN st.byValues \/ Len(p.values) # nl
       THEN [st EXCEPT !.status = "InvalidPatchSet"]
       ELSE [status |-> "ok", n |-> st.n + 1,
             byName |-> (p.name :> (st.n + 1)) @@ st.byName,
             byValues |-> (p.values :> (st.n + 1)) @@ st.byValues]

\* unhashable keys cannot be keys of any Python mapping: Python's own TypeError is tolerated for them
\* (the result is not a patch either way); every other non-matching key must raise the lookup error
DefLookup(st, key) ==
  IF key.kind = "str" THEN (IF key.s \in DOMAIN st.byName THEN Found(st.byName[key.s]) ELSE Raises({"InvalidPatchLookup"}))
  ELSE IF key.kind \in {"tuple", "list"}
       THEN (IF key.t \in DOMAIN st.byValues THEN Found(st.byValues[key.t]) ELSE Raises({"InvalidPatchLookup"}))
  ELSE IF key.kind = "nestedlist" THEN Raises({"InvalidPatchLookup", "TypeError"})
  ELSE Raises({"InvalidPatchLookup"})

\* digests: a sequence of [alg, of]; `of` indexes the document whose digest was recorded.
\* The hash is assumed injective on the canonical forms of the explored documents
\* (checked for collisions at replay), so "digests equal" is "canonical forms equal".
DefVerify(digests, recorded, w) == \A i \in DOMAIN digests : CanonEq(w, recorded[digests[i].of])

DefApply(st, digests, recorded, w, key, ops) ==
  LET lk == DefLookup(st, key) IN
  IF ~DefVerify(digests, recorded, w)
  THEN Raises({"PatchSetVerificationError"} \cup (IF lk.status = "raises" THEN lk.errs ELSE {}))
  ELSE IF lk.status = "raises" THEN lk
  ELSE LET r == JsonPatch(w, ops) IN IF r = Conflict THEN Raises({"JsonPatchError"}) ELSE Returned(r)

-----------------------------------------------------------------------------
(* Part 3: the IMPLEMENTATION-shaped layer (src/pyhf/patchset.py)           *)
(* A Python dict is an insertion-ordered sequence of [k, v]; a value is      *)
(* either the bookkeeping dict {} or a patch (its position in _patches).     *)
BK        == [tag |-> "bookkeeping", i |-> 0]
PatchV(i) == [tag |-> "patch", i |-> i]
DIn(d, k)  == \E j \in DOMAIN d : d[j].k = k                      \* `k in d`
DGet(d, k) == d[CHOOSE j \in DOMAIN d : d[j].k = k].v             \* d[k]
DPut(d, k, v) == IF DIn(d, k) THEN [j \in DOMAIN d |-> IF d[j].k = k THEN [k |-> k, v |-> v] ELSE d[j]]
                 ELSE Append(d, [k |-> k, v |-> v])               \* d[k] = v

\* self._patches = []; self._patches_by_key = {'name': {}, 'values': {}}
\* (shared = FALSE is the dictionary without the two bookkeeping entries, `{}`: the proposed repair)
ImplInitWith(shared) ==
  [status |-> "ok", patches |-> <<>>,
   byKey |-> IF shared THEN <<[k |-> StrKey("name"), v |-> BK], [k |-> StrKey("values"), v |-> BK]>> ELSE <<>>]
ImplInit == ImplInitWith(TRUE)

\* body of `for patchspec in spec['patches']:` -- the three checks in the order of the code
ImplRegister(st, p, nl) ==
  IF st.status # "ok" THEN st                                              \* the constructor has already raised
  ELSE IF DIn(st.byKey, StrKey(p.name)) THEN [st EXCEPT !.status = "InvalidPatchSet:name"]       \* if patch.name in self._patches_by_key
  ELSE IF DIn(st.byKey, TupKey(p.values)) THEN [st EXCEPT !.status = "InvalidPatchSet:values"]   \* if patch.values in self._patches_by_key
  ELSE IF Len(p.values) # nl THEN [st EXCEPT !.status = "InvalidPatchSet:length"]                \* if len(patch.values) != len(self.labels)
  ELSE LET i == Len(st.patches) + 1 IN
       [status |-> "ok", patches |-> Append(st.patches, i),                                       \* self._patches.append(patch)
        byKey |-> DPut(DPut(st.byKey, StrKey(p.name), PatchV(i)), TupKey(p.values), PatchV(i))]   \* [patch.name] = patch; [patch.values] = patch

\* __getitem__: lists become tuples; then plain item access; KeyError -> InvalidPatchLookup
Hashable(key) == key.kind # "nestedlist"
ImplKey(key) == IF key.kind = "list" THEN Key("tuple", "", key.t) ELSE key
ImplGetItem(st, key) ==
  IF ~Hashable(key) THEN Raises({"TypeError"})
  ELSE LET k == ImplKey(key) IN
       IF DIn(st.byKey, k)
       THEN LET v == DGet(st.byKey, k) IN IF v.tag = "patch" THEN Found(v.i) ELSE Res("bookkeeping", 0, {}, Null)   \* returns {}
       ELSE Raises({"InvalidPatchLookup"})

\* verify: for hash_alg, digest in self.digests.items(): raise at the first mismatch
ImplVerify(digests, recorded, w) ==
  LET bad == {i \in DOMAIN digests : ~CanonEq(w, recorded[digests[i].of])} IN
  IF bad = {} THEN Returned(Null)
  ELSE Res("raises", CHOOSE i \in bad : \A j \in bad : i <= j, {"PatchSetVerificationError"}, Null)

\* apply: self.verify(spec); return Workspace(self[key].apply(spec))   -- jsonpatch applies to a copy
ImplApply(st, digests, recorded, w, key, ops) ==
  LET vr == ImplVerify(digests, recorded, w) IN
  IF vr.status = "raises" THEN vr
  ELSE LET g == ImplGetItem(st, key) IN
       IF g.status = "raises" THEN g
       ELSE IF g.status = "bookkeeping" THEN Raises({"AttributeError"})      \* {}.apply
       ELSE LET r == JsonPatch(w, ops) IN IF r = Conflict THEN Raises({"JsonPatchError"}) ELSE Returned(r)

\* when do the two layers say the same thing?
SameVerdict(d, i) ==
  \/ d.status = "patch" /\ i.status = "patch" /\ d.i = i.i
  \/ d.status = "ok" /\ i.status = "ok" /\ d.result = i.result
  \/ d.status = "raises" /\ i.status = "raises" /\ i.errs \subseteq d.errs
  \/ d.status = "none" /\ i.status = "none"
=============================================================================
