------------------------------ MODULE HFInterp ------------------------------
(***************************************************************************)
(* C03: the five interpolation codes.                                      *)
(*                                                                         *)
(* Definition layer: the published piecewise functions (I0, I2, I4p of     *)
(* HFModel; I1 and the extrapolation of code 4 at integer alpha; the       *)
(* code-4 polynomial through the boundary-condition matrix A(alpha0)).      *)
(* Implementation layer: the branch each pyhf class takes as a function of *)
(* the three comparison outcomes cmp(alpha,-alpha0), cmp(alpha,0),          *)
(* cmp(alpha,alpha0) -- so the floating-point neighbours of the breakpoints *)
(* are covered by enumerating comparison triples, not by sampling reals.   *)
(*                                                                         *)
(* ASSUMEs (evaluated by TLC with exact rationals when the module loads):  *)
(*   anchors, continuity at every seam, C1/C2 continuity of code 4p,       *)
(*   A(alpha0) * AInv(alpha0) = Id6  -- which IS value/first/second         *)
(*   derivative continuity of code 4 for every (up, down), because the     *)
(*   rows of A are the functionals f(+-a0), f'(+-a0), f''(+-a0) applied to  *)
(*   1 + sum a_i alpha^i and b holds the same functionals of the            *)
(*   exponential pieces.                                                    *)
(***************************************************************************)
EXTENDS HFModel

(* code 4: boundary-condition matrix and the inverse hard-coded in pyhf     *)
AMat(a0) ==
  LET p(k) == RPow(a0, k) IN
  << <<p(1), p(2), p(3), p(4), p(5), p(6)>>,
     <<RNeg(p(1)), p(2), RNeg(p(3)), p(4), RNeg(p(5)), p(6)>>,
     <<ROne, RMul(R(2), p(1)), RMul(R(3), p(2)), RMul(R(4), p(3)), RMul(R(5), p(4)), RMul(R(6), p(5))>>,
     <<ROne, RMul(R(-2), p(1)), RMul(R(3), p(2)), RMul(R(-4), p(3)), RMul(R(5), p(4)), RMul(R(-6), p(5))>>,
     <<RZero, R(2), RMul(R(6), p(1)), RMul(R(12), p(2)), RMul(R(20), p(3)), RMul(R(30), p(4))>>,
     <<RZero, R(2), RMul(R(-6), p(1)), RMul(R(12), p(2)), RMul(R(-20), p(3)), RMul(R(30), p(4))>> >>

\* transcription of the A_inverse literal of interpolators/code4.py (both classes carry the same)
AInv(a0) ==
  LET q(n, d, k) == RDiv(RN(n, d), RPow(a0, k)) IN
  << <<q(15, 16, 1), q(-15, 16, 1), RN(-7, 16), RN(-7, 16), RMul(RN(1, 16), a0), RMul(RN(-1, 16), a0)>>,
     <<q(3, 2, 2), q(3, 2, 2), q(-9, 16, 1), q(9, 16, 1), RN(1, 16), RN(1, 16)>>,
     <<q(-5, 8, 3), q(5, 8, 3), q(5, 8, 2), q(5, 8, 2), q(-1, 8, 1), q(1, 8, 1)>>,
     <<q(-3, 2, 4), q(-3, 2, 4), q(7, 8, 3), q(-7, 8, 3), q(-1, 8, 2), q(-1, 8, 2)>>,
     <<q(3, 16, 5), q(-3, 16, 5), q(-3, 16, 4), q(-3, 16, 4), q(1, 16, 3), q(-1, 16, 3)>>,
     <<q(1, 2, 6), q(1, 2, 6), q(-5, 16, 5), q(5, 16, 5), q(1, 16, 4), q(1, 16, 4)>> >>

Alpha0s == {RN(1, 2), ROne, R(2)}
ASSUME A4Inverse == \A a0 \in Alpha0s : MatMul(AMat(a0), AInv(a0)) = Ident(6)

-----------------------------------------------------------------------------
(* comparison outcomes and regimes *)
Cmp3(a, a0) == <<RCmp(a, RNeg(a0)), RCmp(a, RZero), RCmp(a, a0)>>

\* the regime the DEFINITION assigns (closed/open ends irrelevant where continuous)
DefRegime(code, c) ==
  CASE code \in {0, 1} -> IF c[2] >= 0 THEN "up" ELSE "dn"
    [] OTHER -> IF c[3] > 0 THEN "up" ELSE IF c[1] < 0 THEN "dn" ELSE "core"
\* the branch the pyhf class takes (code*.py: the comparison operators as written)
ImplRegime(code, c) ==
  CASE code \in {0, 1} -> IF c[2] > 0 THEN "up" ELSE "dn"                             \* alphasets > 0
    [] code = 2  -> IF c[3] > 0 THEN "up" ELSE IF c[1] >= 0 THEN "core" ELSE "dn"      \* > 1 ; >= -1
    [] code = 44 -> IF c[3] > 0 THEN "up" ELSE IF c[1] < 0 THEN "dn" ELSE "core"       \* > 1 ; < -1
    [] code = 4  -> IF c[3] >= 0 THEN "up" ELSE IF c[1] > 0 THEN "core" ELSE "dn"      \* >= a0 ; > -a0

\* value of one regime's formula (rational codes); a0 = 1
Piece(code, reg, dn, n, up, a) ==
  LET A == RSub(RDiv(RAdd(up, dn), R(2)), n)   B == RDiv(RSub(up, dn), R(2)) IN
  CASE code = 0 -> IF reg = "up" THEN RMul(a, RSub(up, n)) ELSE RMul(a, RSub(n, dn))
    [] code = 2 -> CASE reg = "up" -> RAdd(RMul(RAdd(B, RMul(R(2), A)), RSub(a, ROne)), RAdd(A, B))
                     [] reg = "dn" -> RAdd(RMul(RSub(B, RMul(R(2), A)), RAdd(a, ROne)), RSub(A, B))
                     [] OTHER -> RAdd(RMul(A, RMul(a, a)), RMul(B, a))
    [] code = 44 -> LET du == RSub(up, n)  dd == RSub(n, dn)
                        S == RDiv(RAdd(du, dd), R(2))  Aa == RDiv(RSub(du, dd), R(16))  a2 == RMul(a, a) IN
                    CASE reg = "up" -> RMul(a, du) [] reg = "dn" -> RMul(a, dd)
                      [] OTHER -> RMul(a, RAdd(S, RMul(RMul(a, Aa), RAdd(R(15), RMul(a2, RAdd(R(-10), RMul(R(3), a2)))))))

\* derivatives of the code-4p pieces (polynomial calculus, exact)
D1_4p(reg, dn, n, up, a) ==
  LET du == RSub(up, n)  dd == RSub(n, dn)  S == RDiv(RAdd(du, dd), R(2))  Aa == RDiv(RSub(du, dd), R(16))
      a2 == RMul(a, a)  a4 == RMul(a2, a2) IN
  CASE reg = "up" -> du [] reg = "dn" -> dd
    \* d/da [ a S + Aa (15 a^2 - 10 a^4 + 3 a^6) ]
    [] OTHER -> RAdd(S, RMul(Aa, RAdd(RMul(R(30), a), RAdd(RMul(R(-40), RMul(a2, a)), RMul(R(18), RMul(a4, a))))))
D2_4p(reg, dn, n, up, a) ==
  LET du == RSub(up, n)  dd == RSub(n, dn)  Aa == RDiv(RSub(du, dd), R(16))
      a2 == RMul(a, a)  a4 == RMul(a2, a2) IN
  CASE reg \in {"up", "dn"} -> RZero
    [] OTHER -> RMul(Aa, RAdd(R(30), RAdd(RMul(R(-120), a2), RMul(R(90), a4))))

-----------------------------------------------------------------------------
(* the triple grid: includes symmetric, asymmetric, inverted, one-sided,      *)
(* null (up = nom = down) and large variations; thirds are non-dyadic         *)
TripleGrid == { <<R(8), R(10), R(13)>>, <<R(9), R(10), R(11)>>, <<R(13), R(10), R(8)>>,
                <<R(10), R(10), R(10)>>, <<R(10), R(10), R(14)>>, <<R(7), R(10), R(10)>>,
                <<RN(1, 2), R(1), RN(3, 2)>>, <<RN(4, 5), R(1), RN(5, 4)>>, <<RN(2, 3), R(1), RN(4, 3)>>,
                <<R(1), R(20), R(60)>>, <<RN(10, 3), RN(7, 2), R(4)>>, <<R(12), R(10), R(13)>> }

RationalCodes == {0, 2, 44}
\* anchors: neutral at 0, up at +1, down at -1 (additive codes: shifts)
ASSUME Anchors ==
  \A t \in TripleGrid : \A code \in RationalCodes :
     /\ InterpDelta(code, t[1], t[2], t[3], RZero) = RZero
     /\ InterpDelta(code, t[1], t[2], t[3], ROne) = RSub(t[3], t[2])
     /\ InterpDelta(code, t[1], t[2], t[3], R(-1)) = RSub(t[1], t[2])
ASSUME AnchorsMul ==
  \A t \in TripleGrid :
     /\ I1(t[1], t[2], t[3], RZero) = ROne
     /\ I1(t[1], t[2], t[3], ROne) = RDiv(t[3], t[2])
     /\ I1(t[1], t[2], t[3], R(-1)) = RDiv(t[1], t[2])
\* continuity: at every seam the two adjacent pieces agree
ASSUME SeamContinuity ==
  \A t \in TripleGrid :
     /\ Piece(0, "up", t[1], t[2], t[3], RZero) = Piece(0, "dn", t[1], t[2], t[3], RZero)
     /\ \A code \in {2, 44} :
          /\ Piece(code, "up", t[1], t[2], t[3], ROne) = Piece(code, "core", t[1], t[2], t[3], ROne)
          /\ Piece(code, "dn", t[1], t[2], t[3], R(-1)) = Piece(code, "core", t[1], t[2], t[3], R(-1))
\* code 2: linear extrapolation continues the core's slope at the matching side
ASSUME Code2Slopes ==
  \A t \in TripleGrid :
     LET A == RSub(RDiv(RAdd(t[3], t[1]), R(2)), t[2])   B == RDiv(RSub(t[3], t[1]), R(2)) IN
     /\ RSub(Piece(2, "up", t[1], t[2], t[3], R(3)), Piece(2, "up", t[1], t[2], t[3], R(2))) = RAdd(RMul(R(2), A), B)
     /\ RSub(Piece(2, "dn", t[1], t[2], t[3], R(-2)), Piece(2, "dn", t[1], t[2], t[3], R(-3))) = RAdd(RMul(R(-2), A), B)
\* code 4p: first and second derivative continuous at +-1
ASSUME Code4pSmooth ==
  \A t \in TripleGrid :
     /\ D1_4p("up", t[1], t[2], t[3], ROne) = D1_4p("core", t[1], t[2], t[3], ROne)
     /\ D1_4p("dn", t[1], t[2], t[3], R(-1)) = D1_4p("core", t[1], t[2], t[3], R(-1))
     /\ D2_4p("core", t[1], t[2], t[3], ROne) = RZero
     /\ D2_4p("core", t[1], t[2], t[3], R(-1)) = RZero
\* the regime functions of HFModel (used by C01) are these pieces
ASSUME PiecesAreTheFormulas ==
  \A t \in TripleGrid : \A code \in RationalCodes :
     \A a \in {R(-3), R(-1), RN(-1, 2), RZero, RN(1, 3), ROne, RN(5, 2)} :
        InterpDelta(code, t[1], t[2], t[3], a) = Piece(code, DefRegime(code, Cmp3(a, ROne)), t[1], t[2], t[3], a)
=============================================================================
