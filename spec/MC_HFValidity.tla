--------------------------- MODULE MC_HFValidity ---------------------------
(***************************************************************************)
(* C20: structurally inconsistent specifications.                          *)
(*                                                                         *)
(* The state machine of MC_HFModel builds well-formed specifications; this *)
(* module adds one action, Inject(f), that applies a single structural     *)
(* fault (or a pair) from the classes the property lists, at every         *)
(* applicable position.  WF is the property's notion of structural         *)
(* consistency stated directly on the specification value.  TLC checks     *)
(*   CleanIsWF    every specification the builder produces satisfies WF    *)
(*   FaultBreaksWF every injected fault makes WF false                     *)
(* so that the expected verdict the harness demands from pyhf ("refuse     *)
(* with one of pyhf's own exceptions") is never demanded of a consistent   *)
(* specification.  SilentReading records what the implementation-shaped    *)
(* layer of HFModel would compute for the faulty specification (last-wins  *)
(* dictionaries, first-wins sizing, fallback index 0): it is what a        *)
(* finding is explained with.                                              *)
(***************************************************************************)
EXTENDS MC_HFModel

CONSTANT Pairs        \* TRUE: also explore pairs of faults
VARIABLES fault      \* <<>> or a sequence of fault descriptors applied to spec
vvars == <<vars, fault>>

-----------------------------------------------------------------------------
(* WF: the property's structural consistency, on the concrete value.        *)
Distinct(seq, key(_)) == \A i \in DOMAIN seq : \A j \in DOMAIN seq : i # j => key(seq[i]) # key(seq[j])
NameOf(x) == x.name
ModKey(m) == <<m.name, m.type>>
DataLenOK(md, nbin) ==
  CASE md.type = HISTOSYS -> Len(md.d1) = nbin /\ Len(md.d2) = nbin
    [] md.type \in {SHAPESYS, STATERROR} -> Len(md.d1) = nbin
    [] OTHER -> TRUE
\* every (channel, sample, modifier) occurrence as a record
Occ(sp) == UNION {UNION {{[c |-> i, s |-> j, k |-> k, sname |-> sp.channels[i].samples[j].name, name |-> sp.channels[i].samples[j].mods[k].name,
                           type |-> sp.channels[i].samples[j].mods[k].type,
                           nbin |-> Len(sp.channels[i].samples[1].data)] :
                 k \in DOMAIN sp.channels[i].samples[j].mods} : j \in DOMAIN sp.channels[i].samples} :
             i \in DOMAIN sp.channels}
\* requirement class of a modifier type: (constraint kind, scalar or bin-wise)
ReqClass(t) == CASE t \in {HISTOSYS, NORMSYS} -> "normal-scalar"
                 [] t = LUMI -> "lumi" [] t = NORMFACTOR -> "free-scalar"
                 [] t = SHAPEFACTOR -> "free-binwise" [] t = SHAPESYS -> "poisson-binwise"
                 [] t = STATERROR -> "normal-binwise"
ParamSizeOK(sp, pc) ==      \* an override has as many entries as the parameter has components
  LET occ == {o \in Occ(sp) : o.name = pc.name}
      size == IF occ = {} THEN 0
              ELSE LET o == CHOOSE o \in occ : TRUE IN IF BinWise(o.type) THEN o.nbin ELSE 1
      ok(f) == f = <<>> \/ Len(f) = size
  IN occ # {} => ok(pc.inits) /\ ok(pc.bounds) /\ ok(pc.auxdata) /\ ok(pc.sigmas) /\ ok(pc.factors)
WF(sp) ==
  /\ Distinct(sp.channels, NameOf)
  /\ \A i \in DOMAIN sp.channels :
       LET ch == sp.channels[i]  nbin == Len(ch.samples[1].data) IN
       /\ Distinct(ch.samples, NameOf)
       /\ \A j \in DOMAIN ch.samples :
            /\ Len(ch.samples[j].data) = nbin
            /\ Distinct(ch.samples[j].mods, ModKey)
            /\ \A k \in DOMAIN ch.samples[j].mods : DataLenOK(ch.samples[j].mods[k], nbin)
  \* one parameter name: one constraint class, one size; bin-wise sharing only at equal bin counts;
  \* shapesys is per-sample (not shareable at all)
  /\ \A o1 \in Occ(sp), o2 \in Occ(sp) : o1.name = o2.name =>
        /\ ReqClass(o1.type) = ReqClass(o2.type)
        /\ (BinWise(o1.type) => o1.nbin = o2.nbin)
        /\ (o1.type = SHAPESYS /\ o2.type = SHAPESYS => (o1.c = o2.c /\ o1.s = o2.s))
  /\ Distinct(sp.pars, NameOf)
  /\ \A q \in DOMAIN sp.pars : ParamSizeOK(sp, sp.pars[q])
  /\ (sp.poi # 0 => \E o \in Occ(sp) : o.name = sp.poi /\ ~BinWise(o.type))
  /\ ((\E o \in Occ(sp) : o.type = LUMI) =>
         \E q \in DOMAIN sp.pars : sp.pars[q].name = 3 /\ sp.pars[q].auxdata # <<>> /\ sp.pars[q].sigmas # <<>>
                                    /\ sp.pars[q].inits # <<>> /\ sp.pars[q].bounds # <<>>)

-----------------------------------------------------------------------------
(* fault injectors: spec value -> spec value *)
Bump(seq) == [b \in DOMAIN seq |-> RAdd(seq[b], ROne)]
Grow(seq) == Append(seq, IF seq = <<>> THEN ROne ELSE RAdd(seq[Len(seq)], R(3)))
Shrink(seq) == SubSeq(seq, 1, Len(seq) - 1)
Resize(seq, d) == IF d > 0 THEN Grow(seq) ELSE Shrink(seq)
SetSample(sp, i, j, sm) == [sp EXCEPT !.channels[i].samples[j] = sm]
InsertAt(seq, pos, x) == IF pos = "front" THEN <<x>> \o seq ELSE Append(seq, x)

ApplyFault(sp, f) ==
  CASE f.kind = "dup_channel" ->      \* a second channel with the same name and different yields
         LET ch == sp.channels[f.i]
             cp == [ch EXCEPT !.samples = [j \in DOMAIN ch.samples |-> [ch.samples[j] EXCEPT !.data = Bump(@)]]]
         IN [sp EXCEPT !.channels = InsertAt(@, f.pos, cp)]
    [] f.kind = "dup_sample" ->
         LET sm == sp.channels[f.i].samples[f.j]
         IN [sp EXCEPT !.channels[f.i].samples = InsertAt(@, f.pos, [sm EXCEPT !.data = Bump(@)])]
    [] f.kind = "dup_modifier" ->      \* same (name, type) twice on one sample, different data
         LET md == sp.channels[f.i].samples[f.j].mods[f.k]
         IN [sp EXCEPT !.channels[f.i].samples[f.j].mods =
                InsertAt(@, f.pos, [md EXCEPT !.d1 = Bump(@), !.d2 = Bump(@)])]
    [] f.kind = "sample_len" ->
         [sp EXCEPT !.channels[f.i].samples[f.j].data = Resize(@, f.d)]
    [] f.kind = "moddata_len" ->
         LET md == sp.channels[f.i].samples[f.j].mods[f.k] IN
         [sp EXCEPT !.channels[f.i].samples[f.j].mods[f.k] =
             IF f.which = "d1" THEN [md EXCEPT !.d1 = Resize(@, f.d)]
             ELSE IF f.which = "d2" THEN [md EXCEPT !.d2 = Resize(@, f.d)]
             ELSE [md EXCEPT !.d1 = Resize(@, f.d), !.d2 = Resize(@, f.d)]]
    [] f.kind = "binwise_shared" ->    \* bin-wise modifier (name n, type t) also put on a sample of a channel with another bin count
         LET nbin == Len(sp.channels[f.i].samples[1].data)
             md == [name |-> f.n, type |-> f.t,
                    d1 |-> IF f.t = SHAPEFACTOR THEN <<>> ELSE [b \in 1..nbin |-> RN(b + 1, 2)], d2 |-> <<>>]
         IN [sp EXCEPT !.channels[f.i].samples[f.j].mods = Append(@, md)]
    [] f.kind = "conflict_type" ->     \* an existing parameter name demanded again by a modifier of another constraint class
         LET nbin == Len(sp.channels[f.i].samples[1].data)
             md == [name |-> f.n, type |-> f.t,
                    d1 |-> CASE f.t = HISTOSYS -> [b \in 1..nbin |-> ROne] [] f.t = NORMSYS -> <<RN(4, 5)>>
                             [] f.t \in {SHAPESYS, STATERROR} -> [b \in 1..nbin |-> ROne] [] OTHER -> <<>>,
                    d2 |-> CASE f.t = HISTOSYS -> [b \in 1..nbin |-> R(40)] [] f.t = NORMSYS -> <<RN(5, 4)>> [] OTHER -> <<>>]
         IN [sp EXCEPT !.channels[f.i].samples[f.j].mods = Append(@, md)]
    [] f.kind = "override_len" ->      \* measurement override with one entry too many / too few
         LET base == [name |-> f.n, inits |-> <<>>, bounds |-> <<>>, fixed |-> <<>>, auxdata |-> <<>>,
                      sigmas |-> <<>>, factors |-> <<>>]
             vals == [q \in 1..f.len |-> IF f.field = "bounds" THEN <<RZero, R(10)>> ELSE ROne]
             pc == CASE f.field = "inits" -> [base EXCEPT !.inits = vals]
                     [] f.field = "bounds" -> [base EXCEPT !.bounds = vals]
                     [] f.field = "auxdata" -> [base EXCEPT !.auxdata = vals]
         IN [sp EXCEPT !.pars = Append(SelectSeq(@, LAMBDA p : p.name # f.n), pc)]
    [] f.kind = "undefined_poi" -> [sp EXCEPT !.poi = 9]
    [] f.kind = "lumi_no_settings" -> [sp EXCEPT !.pars = SelectSeq(@, LAMBDA p : p.name # 3)]

(* all faults applicable to a well-formed specification *)
Faults(sp) ==
  LET CI == DOMAIN sp.channels
      SJ(i) == DOMAIN sp.channels[i].samples
      MK(i, j) == DOMAIN sp.channels[i].samples[j].mods
      nbinOf(i) == Len(sp.channels[i].samples[1].data)
      Md(i, j, k) == sp.channels[i].samples[j].mods[k]
      occ == Occ(sp)
      sizeOf(n) == LET o == CHOOSE o \in occ : o.name = n IN IF BinWise(o.type) THEN o.nbin ELSE 1
  IN    {[kind |-> "dup_channel", i |-> i, pos |-> p] : i \in CI, p \in {"front", "back"}}
   \cup UNION {{[kind |-> "dup_sample", i |-> i, j |-> j, pos |-> p] : j \in SJ(i), p \in {"front", "back"}} : i \in CI}
   \cup UNION {UNION {{[kind |-> "dup_modifier", i |-> i, j |-> j, k |-> k, pos |-> p] :
                         k \in {k \in MK(i, j) : Md(i, j, k).d1 # <<>>}, p \in {"front", "back"}} : j \in SJ(i)} : i \in CI}
   \cup UNION {{[kind |-> "sample_len", i |-> i, j |-> j, d |-> d] :
                   j \in {j \in SJ(i) : Cardinality(SJ(i)) >= 2}, d \in {1, -1}} : i \in CI}
   \cup UNION {UNION {UNION {{[kind |-> "moddata_len", i |-> i, j |-> j, k |-> k, which |-> w, d |-> d] :
                         w \in (IF Md(i, j, k).type = HISTOSYS THEN {"d1", "d2", "both"} ELSE {"d1"}), d \in {1, -1}} :
                         k \in {k \in MK(i, j) : Md(i, j, k).type \in {HISTOSYS, SHAPESYS, STATERROR}}} : j \in SJ(i)} : i \in CI}
   \cup {[kind |-> "binwise_shared", i |-> i, j |-> j, n |-> o.name, t |-> o.type] :
            o \in {o \in occ : BinWise(o.type)},
            i \in {i \in CI : TRUE}, j \in {1}} \* filtered below (needs a channel of another bin count)
   \cup {[kind |-> "conflict_type", i |-> i, j |-> 1, n |-> o.name, t |-> t] :
            o \in occ, i \in CI, t \in {NORMFACTOR, NORMSYS, SHAPESYS, STATERROR, SHAPEFACTOR}}
   \cup {[kind |-> "override_len", n |-> o.name, field |-> fl, len |-> sizeOf(o.name) + d] :
            o \in {o \in occ : o.type # LUMI}, fl \in {"inits", "bounds"}, d \in {1}}
   \cup {[kind |-> "override_len", n |-> o.name, field |-> "auxdata", len |-> sizeOf(o.name) + 1] :
            o \in {o \in occ : Constrained(o.type) /\ o.type # LUMI}}
   \cup (IF sp.poi # 0 THEN {[kind |-> "undefined_poi"]} ELSE {})
   \cup (IF \E o \in occ : o.type = LUMI THEN {[kind |-> "lumi_no_settings"]} ELSE {})

\* applicability filters that need the specification
Applicable(sp, f) ==
  CASE f.kind = "binwise_shared" ->
          /\ \E o \in Occ(sp) : o.name = f.n /\ o.type = f.t /\ o.nbin # Len(sp.channels[f.i].samples[1].data)
          /\ ~\E k \in DOMAIN sp.channels[f.i].samples[f.j].mods :
                 sp.channels[f.i].samples[f.j].mods[k].name = f.n
          \* a staterror name reused by the SAME sample in another channel is a coherent model in pyhf
          \* (one gamma per covered bin, nothing shared or dropped); the inconsistent case is a
          \* different sample carrying the name in a channel of another bin count
          /\ (f.t = STATERROR =>
                LET inj == sp.channels[f.i].samples[f.j].name
                    Cov(sn) == {o.c : o \in {x \in Occ(sp) : x.name = f.n /\ x.sname = sn}}
                IN \E o \in Occ(sp) : o.name = f.n /\ o.sname # inj /\ Cov(o.sname) # Cov(inj) \cup {f.i})
    [] f.kind = "conflict_type" ->
          /\ \E o \in Occ(sp) : o.name = f.n /\ ReqClass(o.type) # ReqClass(f.t)
          /\ ~\E k \in DOMAIN sp.channels[f.i].samples[f.j].mods :
                 ModKey(sp.channels[f.i].samples[f.j].mods[k]) = <<f.n, f.t>>
          /\ f.n # 3 /\ f.t # LUMI
    [] f.kind = "moddata_len" -> f.d = 1 \/ Len(sp.channels[f.i].samples[1].data) >= 1
    [] OTHER -> TRUE

-----------------------------------------------------------------------------
VInit == Init /\ fault = <<>>
VAddMod(c, s, m) == AddMod(c, s, m) /\ UNCHANGED fault
Inject(f) ==
  /\ phase = "edit" /\ nplaced >= 1
  /\ LET sp == MkSpec(nb, present, mods) IN
       /\ f \in Faults(sp) /\ Applicable(sp, f)
       /\ spec' = ApplyFault(sp, f)
  /\ fault' = <<f>> /\ phase' = "faulty"
  /\ UNCHANGED <<nb, present, mods, last, nplaced, cfg, set, pt, out>>
\* a second, different fault on top (pairs)
Inject2(f) ==
  /\ phase = "faulty" /\ Len(fault) = 1
  \* in every tier: the COMPENSATING pair - a sample one bin too long in one channel and one bin too short in another, so
  \* that every total over channels still adds up; all other pairs only where Pairs is set (thorough tier)
  /\ \/ /\ Pairs /\ f.kind \in {"undefined_poi", "lumi_no_settings", "dup_channel", "sample_len"} /\ f.kind # fault[1].kind
     \/ /\ f.kind = "sample_len" /\ fault[1].kind = "sample_len" /\ f.i # fault[1].i /\ f.d = -fault[1].d
  /\ fault[1].kind \notin {"dup_channel", "dup_sample", "dup_modifier"}     \* positions stay valid
  /\ LET sp == MkSpec(nb, present, mods) IN f \in Faults(sp) /\ Applicable(sp, f)
  /\ spec' = ApplyFault(spec, f)
  /\ fault' = Append(fault, f)
  /\ UNCHANGED <<nb, present, mods, last, nplaced, phase, cfg, set, pt, out>>
Clean ==     \* the unfaulted specification, for CleanIsWF and as the control group of the replay
  /\ phase = "edit" /\ nplaced >= 1
  /\ spec' = MkSpec(nb, present, mods) /\ fault' = <<>> /\ phase' = "clean"
  /\ UNCHANGED <<nb, present, mods, last, nplaced, cfg, set, pt, out>>

FaultUniverse ==
  UNION {{[kind |-> "dup_channel", i |-> i, pos |-> p] : i \in 1..2, p \in {"front", "back"}},
         {[kind |-> "dup_sample", i |-> i, j |-> j, pos |-> p] : i \in 1..2, j \in 1..2, p \in {"front", "back"}},
         {[kind |-> "dup_modifier", i |-> i, j |-> j, k |-> k, pos |-> p] : i \in 1..2, j \in 1..2, k \in 1..MaxPlace, p \in {"front", "back"}},
         {[kind |-> "sample_len", i |-> i, j |-> j, d |-> d] : i \in 1..2, j \in 1..2, d \in {1, -1}},
         {[kind |-> "moddata_len", i |-> i, j |-> j, k |-> k, which |-> w, d |-> d] :
              i \in 1..2, j \in 1..2, k \in 1..MaxPlace, w \in {"d1", "d2", "both"}, d \in {1, -1}},
         {[kind |-> "binwise_shared", i |-> i, j |-> 1, n |-> n, t |-> t] : i \in 1..2, n \in {6} \cup 10..18 \cup 21..23, t \in {SHAPEFACTOR, SHAPESYS, STATERROR}},
         {[kind |-> "conflict_type", i |-> i, j |-> 1, n |-> n, t |-> t] : i \in 1..2, n \in 1..7 \cup 10..18 \cup 21..23,
              t \in {NORMFACTOR, NORMSYS, SHAPESYS, STATERROR, SHAPEFACTOR}},
         {[kind |-> "override_len", n |-> n, field |-> fl, len |-> l] : n \in 1..7 \cup 10..18 \cup 21..23, fl \in {"inits", "bounds", "auxdata"}, l \in 2..3},
         {[kind |-> "undefined_poi"]}, {[kind |-> "lumi_no_settings"]}}

VNext == \/ \E c \in 1..MaxChan, s \in 1..MaxSamp, m \in MIds : VAddMod(c, s, m)
         \/ \E f \in FaultUniverse : Inject(f)
         \/ \E f \in FaultUniverse : Inject2(f)
         \/ Clean
VSpec == VInit /\ [][VNext]_vvars

-----------------------------------------------------------------------------
CleanIsWF     == phase = "clean"  => WF(spec)
FaultBreaksWF == phase = "faulty" => ~WF(spec)
\* what the implementation-shaped layer would silently compute (explanation attached to a finding)
VCase == [spec |-> spec, fault |-> fault, clean |-> phase = "clean"]
\* the rare fault class (bin-wise sharing, a few thousand states) is always printed; the others by specification hash
VEmit == (EmitCases /\ phase \in {"faulty", "clean"}
          /\ (SpecHash % EmitMod = EmitRes \/ (phase = "faulty" /\ fault[1].kind = "binwise_shared"))) => PrintT(ToJson(VCase))
=============================================================================
