----------------------------- MODULE MC_HFGrad -----------------------------
(***************************************************************************)
(* Case generation for C13 over the specification space of MC_HFModel:     *)
(* every evaluated state with strictly positive rates at a differentiable  *)
(* point yields the exact gradient of 2NLL (main part per parameter        *)
(* component as a LogLin value; the constraint part is added by the        *)
(* harness from the exact constraint parameters the case carries).         *)
(* Invariant GradLocal: a parameter that no sample of a channel declares   *)
(* has zero derivative there (rational and logarithmic part).              *)
(***************************************************************************)
EXTENDS MC_HFModel, HFGrad

Theta1 == ThetaOf(cfg, PointRow(spec, cfg, pt), 0)
MainByChan == [ci \in 1..Len(cfg.channels) |->
                 [b \in 1..cfg.nbins[cfg.channels[ci]] |-> MainData(cfg)[cfg.cstart[ci] + b]]]
PositiveRates == \A ci \in 1..Len(cfg.channels) :
                    \A b \in 1..cfg.nbins[cfg.channels[ci]] : RGt(DefChannelRates(spec, S, Theta1, cfg.channels[ci])[b], RZero)
GradCaseOK == phase = "eval" /\ pt > 0 /\ S.clipS = <<>> /\ S.clipB = <<>> /\ Differentiable(cfg, S, Theta1) /\ PositiveRates
              /\ \A q \in 1..Len(cfg.parOrder) : \A i \in 1..cfg.psize[cfg.parOrder[q]] : Theta1[cfg.parOrder[q]][i] # RZero
Grad == [q \in 1..Len(cfg.parOrder) |-> [name |-> cfg.parOrder[q],
            comps |-> [i \in 1..cfg.psize[cfg.parOrder[q]] |-> DLambda(spec, cfg, S, Theta1, cfg.parOrder[q], i)]]]
GradLocal == GradCaseOK =>
   \A q \in 1..Len(cfg.parOrder) : LET n == cfg.parOrder[q] IN
      (\A ci \in 1..Len(cfg.channels) : \A j \in DOMAIN Chan(spec, cfg.channels[ci]).samples :
           \A k \in DOMAIN Chan(spec, cfg.channels[ci]).samples[j].mods : Chan(spec, cfg.channels[ci]).samples[j].mods[k].name # n)
      => \A i \in 1..cfg.psize[n] : LET d == DLambda(spec, cfg, S, Theta1, n, i) IN
            \A ci \in DOMAIN d : \A b \in DOMAIN d[ci] : d[ci][b].r = RZero /\ \A z \in DOMAIN d[ci][b].logs : d[ci][b].logs[z].coef = RZero
GCase == [spec |-> spec, setting |-> S, sid |-> set, pt |-> pt, theta |-> ThetaJson(cfg, PointRow(spec, cfg, pt), 0),
          chan_rates |-> [i \in 1..Len(cfg.channels) |-> [name |-> cfg.channels[i], rates |-> DefChannelRates(spec, S, Theta1, cfg.channels[i])]],
          params |-> [q \in 1..Len(cfg.parOrder) |-> LET pi == ParamInfo(spec, cfg, cfg.parOrder[q]) IN
                        [name |-> cfg.parOrder[q], type |-> pi.type, aux |-> pi.aux, var |-> pi.var, tau |-> pi.tau]],
          main_data |-> MainData(cfg),
          aux_data |-> LET ao == AuxOrder(cfg) IN [q \in 1..Len(ao) |-> [name |-> ao[q],
                         vals |-> LET off == SumNat([r \in 1..(q - 1) |-> cfg.psize[ao[r]]])
                                  IN [i \in 1..cfg.psize[ao[q]] |-> AuxData(spec, cfg)[off + i]]]],
          dlambda |-> Grad,
          \* symbolic lane: the same point with every normsys alpha non-integer (only where a normsys exists)
          dsym |-> IF \E q \in 1..Len(cfg.modifiers) : cfg.modifiers[q][2] = NORMSYS
                   THEN LET th == SymTheta(cfg, PointRow(spec, cfg, pt)) IN
                        << [theta |-> [q \in 1..Len(cfg.parOrder) |-> [name |-> cfg.parOrder[q], vals |-> th[cfg.parOrder[q]]]],
                            rates |-> [i \in 1..Len(cfg.channels) |-> DefChannelSym(spec, S, th, cfg.channels[i])],
                            dlambda |-> [q \in 1..Len(cfg.parOrder) |-> [name |-> cfg.parOrder[q],
                                           comps |-> [i \in 1..cfg.psize[cfg.parOrder[q]] |-> DLambdaSym(spec, cfg, S, th, cfg.parOrder[q], i)]]]] >>
                   ELSE <<>>]
GEmit == (EmitCases /\ GradCaseOK /\ SpecHash % EmitMod = EmitRes) => PrintT(ToJson(GCase))
=============================================================================
