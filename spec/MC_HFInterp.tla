---------------------------- MODULE MC_HFInterp ----------------------------
(***************************************************************************)
(* C03 as a state machine: one interpolator object (code, histogram        *)
(* triple) receives calls with alpha-sets of varying shape, interleaved    *)
(* with backend switches.  The object's hidden state is what pyhf keeps:   *)
(* the alpha-set shape its masks/bases were last built for and the backend *)
(* they were built with.                                                    *)
(*   New            code*.__init__  (initial shape (nsyst, 1), current backend)  *)
(*   Call(k)        __call__ -> _precompute_alphasets(shape (nsyst, k))          *)
(*   Switch(b)      set_backend -> tensorlib_changed -> _precompute (same shape) *)
(* Invariants                                                               *)
(*   CachesMatchAtUse  after a call the caches have the call's shape and the *)
(*                     current backend                                       *)
(*   ImplEqDef         branch taken by the class (ImplRegime) gives the      *)
(*                     published value (DefRegime) at every alpha of the call *)
(*   ValueHistoryFree  the value of a call depends on (code, triple, alphas) *)
(*                     only -- by construction of Value; replay checks the   *)
(*                     real object against a fresh one                       *)
(***************************************************************************)
EXTENDS HFInterp, Json

CONSTANTS Codes, MaxDepth, Backends, EmitCases, EmitMod, EmitRes

VARIABLES code, tri, backend, cshape, ctag, hist, phase,
          b0,       \* backend current when the object was created (history variable for replay)
          a0        \* alpha0 of the object (code 4 only; 1 for the other codes)
vars == <<code, tri, backend, cshape, ctag, hist, phase, b0, a0>>

\* a fixed enumeration order of TripleGrid
SortTriplesSeq == << <<R(8), R(10), R(13)>>, <<R(9), R(10), R(11)>>, <<R(13), R(10), R(8)>>,
                <<R(10), R(10), R(10)>>, <<R(10), R(10), R(14)>>, <<R(7), R(10), R(10)>>,
                <<RN(1, 2), R(1), RN(3, 2)>>, <<RN(4, 5), R(1), RN(5, 4)>>, <<RN(2, 3), R(1), RN(4, 3)>>,
                <<R(1), R(20), R(60)>>, <<RN(10, 3), RN(7, 2), R(4)>>, <<R(12), R(10), R(13)>> >>
Triples == 1..Len(SortTriplesSeq)
ASSUME {SortTriplesSeq[i] : i \in Triples} = TripleGrid

AlphaGrid == <<R(-3), RN(1, 4), R(1), RN(-3, 2), R(0), R(2), RN(-1, 2), R(-1), RN(3, 2), RN(1, 2), R(-2), RN(-1, 4), R(3), RN(1, 3), RN(-5, 3)>>
AlphasOf(step, k, ti) == [i \in 1..k |-> AlphaGrid[((step * 5 + i * 3 + ti) % Len(AlphaGrid)) + 1]]

Init == /\ code \in Codes /\ tri \in Triples /\ backend \in Backends
        /\ cshape = 1 /\ ctag = backend /\ hist = <<>> /\ phase = "new" /\ b0 = backend
        /\ a0 \in (IF code = 4 THEN Alpha0s ELSE {ROne})

Call(k) ==
  /\ Len(hist) < MaxDepth
  /\ hist' = Append(hist, [op |-> "call", k |-> k, alphas |-> AlphasOf(Len(hist), k, tri)])
  \* _precompute_alphasets: refresh only when the shape differs (built with the CURRENT backend)
  /\ IF k = cshape THEN UNCHANGED <<cshape, ctag>> ELSE cshape' = k /\ ctag' = backend
  /\ phase' = "called"
  /\ UNCHANGED <<code, tri, backend, b0, a0>>

Switch(b) ==
  /\ Len(hist) < MaxDepth /\ b # backend
  /\ hist' = Append(hist, [op |-> "switch", backend |-> b])
  /\ backend' = b
  /\ ctag' = b            \* _precompute subscribed to tensorlib_changed rebuilds with the stored shape
  /\ phase' = "switched"
  /\ UNCHANGED <<code, tri, cshape, b0, a0>>

Next == (\E k \in 1..3 : Call(k)) \/ (\E b \in Backends : Switch(b))
Spec == Init /\ [][Next]_vars

-----------------------------------------------------------------------------
T == SortTriplesSeq[tri]
\* value the DEFINITION assigns; rational where possible, a symbolic leaf otherwise
\* exponential pieces are rational only for integer exponents; otherwise a symbolic "pow" leaf
ExpPiece(reg, t, a) ==
  LET base == IF reg = "up" THEN RDiv(t[3], t[2]) ELSE RDiv(t[1], t[2]) IN
  IF RIsInt(a) THEN [kind |-> "rat", v |-> RPow(base, Abs(a[1]))]
  ELSE [kind |-> "pow", base |-> base, exp |-> RAbs(a)]
DefValue(c, t, a, z) ==
  IF c \in RationalCodes
  THEN [kind |-> "rat", v |-> Piece(c, DefRegime(c, Cmp3(a, ROne)), t[1], t[2], t[3], a)]
  ELSE \* at the seams |alpha| = alpha0 of code 4 the core polynomial and the exponential coincide
       \* (A4Inverse), so the exponential form is used there
       LET reg0 == DefRegime(c, Cmp3(a, z))
           reg  == IF c = 4 /\ RAbs(a) = z THEN (IF a[1] > 0 THEN "up" ELSE "dn") ELSE reg0 IN
       IF c = 1 \/ reg # "core" THEN ExpPiece(reg, t, a)
       ELSE IF a = RZero THEN [kind |-> "rat", v |-> ROne]
       ELSE [kind |-> "poly4", up |-> RDiv(t[3], t[2]), dn |-> RDiv(t[1], t[2]), a |-> a, a0 |-> z]
ImplValue(c, t, a, z) ==
  IF c \in RationalCodes
  THEN [kind |-> "rat", v |-> Piece(c, ImplRegime(c, Cmp3(a, ROne)), t[1], t[2], t[3], a)]
  ELSE LET reg == ImplRegime(c, Cmp3(a, z)) IN
       IF c = 1 \/ reg # "core" THEN ExpPiece(reg, t, a)
       ELSE IF a = RZero THEN [kind |-> "rat", v |-> ROne]
       ELSE [kind |-> "poly4", up |-> RDiv(t[3], t[2]), dn |-> RDiv(t[1], t[2]), a |-> a, a0 |-> z]

LastCall == hist[Len(hist)]
CachesMatchAtUse == phase = "called" => cshape = LastCall.k /\ ctag = backend
ImplEqDef == phase = "called" =>
   \A i \in 1..LastCall.k : ImplValue(code, T, LastCall.alphas[i], a0) = DefValue(code, T, LastCall.alphas[i], a0)
\* at a seam the closed end may sit on either side: code 4 takes "up" at alpha = alpha0 where the
\* definition's core polynomial also applies; they agree by A4Inverse, which the harness uses as given

FullCase == [code |-> code, triple |-> T, backend0 |-> b0, hist |-> hist, a0 |-> a0,
             expected |-> [i \in 1..LastCall.k |-> DefValue(code, T, LastCall.alphas[i], a0)]]
HHash == LET w(e) == IF e.op = "call" THEN e.k ELSE 4 + Len(e.backend)
             RECURSIVE F(_)
             F(i) == IF i > Len(hist) THEN 0 ELSE i * i * w(hist[i]) + F(i + 1)
         IN tri * 31 + code * 17 + Len(b0) * 3 + a0[1] * 5 + a0[2] * 11 + F(1)
Emit == (EmitCases /\ phase = "called" /\ HHash % EmitMod = EmitRes) => PrintT(ToJson(FullCase))
ASSUME EmitCases => \A z \in Alpha0s : PrintT(ToJson([ainv |-> AInv(z), a0 |-> z]))
=============================================================================
