----------------------------- MODULE MC_HFModel -----------------------------
(***************************************************************************)
(* Model-checking instance of HFModel: a state machine that constructs     *)
(* every small well-formed specification one modifier placement at a time, *)
(* builds the configuration once (Build = pdf.Model.__init__), and         *)
(* evaluates it at a schedule of parameter points, settings and batch      *)
(* sizes.  Invariants are the listed properties on the model:              *)
(*   Refines      C01   ImplRates = DefRates                                *)
(*   RowIndep     C10   batched row r = unbatched evaluation of row r       *)
(*   TermsRefine  C02   constraint terms (impl running index) = def bag     *)
(*   Layout       C12   slices tile the parameter vector, aux per component *)
(*   Untouched    C01   a sample that does not declare m does not move with *)
(*                      theta_m                                             *)
(* Emit prints one JSON case per evaluated state for the replay harness.    *)
(***************************************************************************)
EXTENDS HFModel, Json

CONSTANTS MaxPlace,      \* max number of modifier placements
          MaxChan,       \* number of channels available (1..3)
          MaxSamp,       \* number of sample names available (2 or 3)
          BinChoices,    \* set of bin counts
          NPts,          \* number of parameter points per (spec, setting)
          Settings,      \* set of setting ids, see SettingOf
          Overrides,     \* set of measurement-override variants, see OverridePars
          EmitCases,     \* TRUE: print cases for the replay harness
          EmitMod, EmitRes \* print only specifications whose structural hash = EmitRes mod EmitMod

VARIABLES nb,       \* [1..2 -> 0..] bins per channel (0 = absent)
          present,  \* set of <<c, s>> cells
          mods,     \* [cell -> set of modifier ids]
          last,     \* canonical insertion: key of the last placement
          nplaced,
          phase,    \* "edit" | "built" | "eval"
          spec, cfg, set, pt,
          out       \* what the implementation layer returned at the last Eval

vars == <<nb, present, mods, last, nplaced, phase, spec, cfg, set, pt, out>>

-----------------------------------------------------------------------------
(* modifier identities of the pool; name/type depend on the cell for the    *)
(* non-shareable shapesys and the per-channel staterror                     *)
MIds == {"ha", "na", "hb", "lumi", "mu", "nf", "sf", "nt", "u", "st"}
MOrd(m) == CASE m = "ha" -> 1 [] m = "na" -> 2 [] m = "hb" -> 3 [] m = "lumi" -> 4 [] m = "mu" -> 5
             [] m = "nf" -> 6 [] m = "sf" -> 7 [] m = "nt" -> 8 [] m = "u" -> 9 [] m = "st" -> 10
\* shapesys names, like staterror names, run AGAINST the (channel, sample) order: cell (1, 1) carries u18, cell (3, 3) carries u10
UName(c, s) == 18 - (3 * (c - 1) + (s - 1))
MName(m, c, s) == CASE m \in {"ha", "na"} -> 1 [] m = "hb" -> 2 [] m = "lumi" -> 3 [] m = "mu" -> 4
                    [] m = "nf" -> 5 [] m = "sf" -> 6 [] m = "nt" -> 7
                    [] m = "u" -> UName(c, s)
                    \* staterror names run AGAINST the channel order (channel 1 carries v_stat_3): nothing may rely on the two orders agreeing
                    [] m = "st" -> 24 - c
MType(m) == CASE m \in {"ha", "hb"} -> HISTOSYS [] m \in {"na", "nt"} -> NORMSYS [] m = "lumi" -> LUMI
              [] m \in {"mu", "nf"} -> NORMFACTOR [] m = "sf" -> SHAPEFACTOR [] m = "u" -> SHAPESYS
              [] m = "st" -> STATERROR

(* distinguishable data: every (channel, sample, bin) cell and every         *)
(* modifier datum is a different small number; thirds/fifths are the         *)
(* deliberate non-dyadic stratum                                             *)
\* one cell has a ZERO nominal yield (with non-zero uncertainties declared on it): an empty bin of one sample
Nom(c, s, b)   == IF c = 1 /\ s = 2 /\ b = 2 THEN RZero ELSE R(6 + 20 * (c - 1) + 7 * (s - 1) + 2 * (b - 1))
HiOf(m, c, s, b) == IF m = "ha" THEN RAdd(Nom(c, s, b), R(2 + b)) ELSE RAdd(Nom(c, s, b), RN(3 * c + s, 2))
LoOf(m, c, s, b) == IF m = "ha" THEN RSub(Nom(c, s, b), R(1 + s)) ELSE RSub(Nom(c, s, b), RN(9 + b, 4))
NHi(m, c, s)   == IF m = "na" THEN RN(4 + c, 4) ELSE RN(6 + s, 5)
NLo(m, c, s)   == IF m = "na" THEN RN(3, 2 + 2 * s) ELSE RN(4, 4 + c)
\* uncertainties; one shapesys bin and one staterror bin carry a ZERO uncertainty (invalid bin: factor 1 and fixed;
\* zero total MC uncertainty: width 1 and fixed) so that mixed fixed flags occur
Unc(m, c, s, b) == IF m = "u" THEN (IF b = 2 /\ s = 2 THEN RZero ELSE RN(Nom(c, s, b)[1], 2 + b))
                   ELSE (IF b = 2 /\ c = 2 THEN RZero ELSE RN(c + s + b, 2))

ModRec(m, c, s, nbin) ==
  [name |-> MName(m, c, s), type |-> MType(m),
   d1 |-> CASE MType(m) = HISTOSYS -> [b \in 1..nbin |-> LoOf(m, c, s, b)]
            [] MType(m) = NORMSYS  -> <<NLo(m, c, s)>>
            [] MType(m) \in {SHAPESYS, STATERROR} -> [b \in 1..nbin |-> Unc(m, c, s, b)]
            [] OTHER -> <<>>,
   d2 |-> CASE MType(m) = HISTOSYS -> [b \in 1..nbin |-> HiOf(m, c, s, b)]
            [] MType(m) = NORMSYS  -> <<NHi(m, c, s)>>
            [] OTHER -> <<>>]

\* listing in canonical order (the harness permutes the lists: C12/C15 order independence)
ModSeqOf(M, c, s, nbin) == LET ord == SortSet({MOrd(m) : m \in M})
                           IN [i \in 1..Len(ord) |-> ModRec(CHOOSE m \in M : MOrd(m) = ord[i], c, s, nbin)]
\* measurement-level parameter settings (C12: they must appear verbatim in suggestions and constraint terms)
NoCfg(n) == [name |-> n, inits |-> <<>>, bounds |-> <<>>, fixed |-> <<>>, auxdata |-> <<>>, sigmas |-> <<>>, factors |-> <<>>]
OverridePars(o, has(_)) ==      \* has(n): parameter name n occurs in the specification
  CASE o = 0 -> <<>>
    [] o = 1 -> (IF has(4) THEN <<[NoCfg(4) EXCEPT !.inits = <<R(2)>>, !.bounds = << <<RZero, R(5)>> >>]>> ELSE <<>>)
             \o (IF has(1) THEN <<[NoCfg(1) EXCEPT !.inits = <<R(1)>>, !.fixed = <<TRUE>>]>> ELSE <<>>)   \* integer: the name may carry a normsys (exact lane)
    [] o = 2 -> (IF has(1) THEN <<[NoCfg(1) EXCEPT !.auxdata = <<RN(1, 2)>>]>> ELSE <<>>)
             \o (IF has(7) THEN <<[NoCfg(7) EXCEPT !.bounds = << <<R(-3), R(3)>> >>, !.inits = <<R(-1)>>]>> ELSE <<>>)
             \o (IF has(5) THEN <<[NoCfg(5) EXCEPT !.fixed = <<TRUE>>, !.inits = <<RN(3, 2)>>]>> ELSE <<>>)
             \* an explicit fixed = FALSE (the one setting that is legitimately falsy) on bin-wise parameters that have a dead bin,
             \* i.e. a component fixed by default: the staterror of channel 2 and the shapesys of the cells (1, 2) and (2, 2)
             \o (IF has(22) THEN <<[NoCfg(22) EXCEPT !.fixed = <<FALSE>>]>> ELSE <<>>)
             \o (IF has(UName(1, 2)) THEN <<[NoCfg(UName(1, 2)) EXCEPT !.fixed = <<FALSE>>]>> ELSE <<>>)
             \o (IF has(UName(2, 2)) THEN <<[NoCfg(UName(2, 2)) EXCEPT !.fixed = <<FALSE>>]>> ELSE <<>>)
MkSpec(nbv, pres, md) ==
  LET cs == SortSet({c \in 1..MaxChan : nbv[c] > 0})
      AnyLumi == \E cell \in pres : "lumi" \in md[cell]
      HasMu   == \E cell \in pres : "mu" \in md[cell]
  IN [channels |-> [i \in 1..Len(cs) |->
          LET c == cs[i]  ss == SortSet({s \in 1..MaxSamp : <<c, s>> \in pres}) IN
          [name |-> c, samples |-> [j \in 1..Len(ss) |->
              [name |-> ss[j], data |-> [b \in 1..nbv[c] |-> Nom(c, ss[j], b)],
               mods |-> ModSeqOf(md[<<c, ss[j]>>], c, ss[j], nbv[c])]]]],
      \* lumi needs measurement settings (auxdata, sigmas, inits, bounds); central value 3/2
      pars |-> IF AnyLumi THEN <<[name |-> 3, inits |-> <<RN(3, 2)>>, bounds |-> << <<RZero, R(15)>> >>,
                                  fixed |-> <<>>, auxdata |-> <<RN(3, 2)>>, sigmas |-> <<RN(1, 5)>>,
                                  factors |-> <<>>]>>
               ELSE <<>>,
      poi |-> IF HasMu THEN 4 ELSE 0]

MkSpecO(nbv, pres, md, o) ==
  LET base == MkSpec(nbv, pres, md)
      has(n) == \E cell \in pres : \E m \in md[cell] : MName(m, cell[1], cell[2]) = n
      \* variant 2 also overrides the AUXILIARY DATA of one shapesys (cell (1,1)) and the FACTORS of another (cell (2,1)): the
      \* two are equal by default (tau_b) and must not be confused once a measurement sets one of them
      ssover == IF o # 2 THEN <<>>
                ELSE (IF has(UName(1, 1)) THEN <<[NoCfg(UName(1, 1)) EXCEPT !.auxdata = [b \in 1..nbv[1] |-> R(70 + b)]]>> ELSE <<>>)
                  \o (IF has(UName(2, 1)) THEN <<[NoCfg(UName(2, 1)) EXCEPT !.factors = [b \in 1..nbv[2] |-> R(30 + b)]]>> ELSE <<>>)
  IN [base EXCEPT !.pars = @ \o OverridePars(o, has) \o ssover]

-----------------------------------------------------------------------------
(* settings: interpolation codes x clipping *)
SettingOf(k) ==
  CASE k = 1 -> [hcode |-> 44, ncode |-> 4, clipS |-> <<>>, clipB |-> <<>>]      \* pyhf defaults
    [] k = 2 -> [hcode |-> 0,  ncode |-> 1, clipS |-> <<>>, clipB |-> <<>>]
    [] k = 3 -> [hcode |-> 2,  ncode |-> 1, clipS |-> <<>>, clipB |-> <<>>]
    [] k = 4 -> [hcode |-> 44, ncode |-> 4, clipS |-> <<RZero>>, clipB |-> <<RZero>>]
    [] k = 5 -> [hcode |-> 0,  ncode |-> 4, clipS |-> <<RZero>>, clipB |-> <<R(16)>>]
    [] k = 6 -> [hcode |-> 0,  ncode |-> 1, clipS |-> <<>>, clipB |-> <<R(9)>>]
    \* probe only (not in the default Settings): a positive per-sample clip also lifts the
    \* all-zero rows the mega-channel keeps for samples a channel does not declare
    [] k = 7 -> [hcode |-> 0,  ncode |-> 1, clipS |-> <<R(5)>>, clipB |-> <<>>]

(* parameter points.  Alpha-type parameters whose name carries a normsys     *)
(* take integer values (exact lane); pure histosys alphas also take halves   *)
(* and quarters on both sides of +-1; factor-type parameters positive values *)
AlphaInt  == <<R(-3), R(2), R(-1), R(1), R(0), R(-2), R(3)>>
AlphaFrac == <<RN(-5, 2), RN(3, 2), R(-1), RN(1, 2), RN(-1, 2), R(1), RN(-3, 2), R(2), RN(1, 3), R(0), RN(-4, 3)>>
FactorG   == <<RN(3, 2), RN(1, 2), R(2), RN(5, 4), RN(3, 4), RN(7, 3), R(0), RN(1, 5)>>
Pick(seq, i) == seq[(i % Len(seq)) + 1]
PointVal(c, k, n, i) ==    \* k-th point, parameter name n, component i
  LET t == c.ptype[n]
      hasNormsys == \E q \in 1..Len(c.modifiers) : c.modifiers[q] = <<n, NORMSYS>>
      z == 3 * k + 5 * n + 2 * i
  IN CASE t \in {HISTOSYS, NORMSYS} -> IF hasNormsys THEN Pick(AlphaInt, z) ELSE Pick(AlphaFrac, z)
       [] OTHER -> Pick(FactorG, z)
\* symbolic lane: the same point with every normsys-carrying alpha moved to a non-integer value (inside and outside the core)
SymAlpha == <<RN(1, 2), RN(-1, 2), RN(3, 2), RN(-5, 2), RN(1, 3), RN(-2, 3), RN(5, 4)>>
SymTheta(c, p) == LET th == ThetaOf(c, p, 0) IN
   [n \in DOMAIN th |-> IF \E q \in 1..Len(c.modifiers) : c.modifiers[q] = <<n, NORMSYS>>
                         THEN <<Pick(SymAlpha, n * 3 + Len(p))>> ELSE th[n]]
\* k = 0 is the suggested initial point
PointRow(sp, c, k) == Flatten([q \in 1..Len(c.parOrder) |->
                        LET n == c.parOrder[q] IN
                        IF k = 0 THEN ParamInfo(sp, c, n).init
                        ELSE [i \in 1..c.psize[n] |-> PointVal(c, k, n, i)]])
\* batch of two distinct rows
PointBatch(sp, c, k) == PointRow(sp, c, k) \o PointRow(sp, c, k + 1)

(* data: main counts include 0, integers and non-integers; every auxiliary   *)
(* datum differs from its nominal value and from every other                 *)
MainData(c) == [g \in 1..c.nG |-> IF g % 3 = 0 THEN RZero ELSE RN(4 * g + 11, 1 + (g % 2))]
AuxNominal(sp, c) == Flatten([q \in 1..Len(AuxOrder(c)) |-> ParamInfo(sp, c, AuxOrder(c)[q]).aux])
AuxData(sp, c) == LET a == AuxNominal(sp, c) IN [j \in 1..Len(a) |-> RAdd(a[j], RN(j + 1, 4))]
DataOf(sp, c) == MainData(c) \o AuxData(sp, c)

-----------------------------------------------------------------------------
Cells == (1..MaxChan) \X (1..MaxSamp)
WFPlace(c, s, m) ==
  /\ <<c, s>> \in present
  /\ m \notin mods[<<c, s>>]
  \* a shapefactor may be shared only between channels of equal bin count
  /\ m = "sf" => \A cell \in present : "sf" \in mods[cell] => nb[cell[1]] = nb[c]
PlaceKey(c, s, m) == (c * 3 + s) * 16 + MOrd(m)

Init ==
  /\ nb \in [1..MaxChan -> BinChoices \cup {0}]
  /\ nb[1] > 0
  /\ present \in SUBSET Cells
  /\ \A c \in 1..MaxChan : (nb[c] > 0) <=> (\E s \in 1..MaxSamp : <<c, s>> \in present)
  /\ mods = [cell \in Cells |-> {}]
  /\ last = 0 /\ nplaced = 0 /\ phase = "edit"
  /\ spec = <<>> /\ cfg = <<>> /\ set = 0 /\ pt = 0 /\ out = <<>>

AddMod(c, s, m) ==
  /\ phase = "edit" /\ nplaced < MaxPlace
  /\ WFPlace(c, s, m)
  /\ PlaceKey(c, s, m) > last                   \* canonical insertion order: each spec built once
  /\ mods' = [mods EXCEPT ![<<c, s>>] = @ \cup {m}]
  /\ last' = PlaceKey(c, s, m) /\ nplaced' = nplaced + 1
  /\ UNCHANGED <<nb, present, phase, spec, cfg, set, pt, out>>

HasType(t) == \E cell \in present : \E m \in mods[cell] : MType(m) = t
\* a setting is explored only where it can matter (keeps the instance small, loses nothing)
Relevant(k) ==
  /\ k \in Settings
  /\ (k \in {2, 3} => HasType(HISTOSYS) \/ HasType(NORMSYS))
  /\ (k = 3 => HasType(HISTOSYS))

Build(k, o) ==
  /\ phase = "edit" /\ nplaced >= 1
  /\ Relevant(k) /\ o \in Overrides
  /\ LET sp == MkSpecO(nb, present, mods, o) IN
        /\ (o # 0 => Len(sp.pars) > Len(MkSpec(nb, present, mods).pars))     \* an override variant only where it says something
        /\ spec' = sp /\ cfg' = MkCfg(sp)
  /\ set' = k /\ phase' = "built" /\ pt' = 0
  /\ UNCHANGED <<nb, present, mods, last, nplaced, out>>

\* Model.expected_data on one row and on a batch of two distinct rows
Eval(k) ==
  /\ phase \in {"built"}
  /\ k \in 0..(NPts - 1)
  /\ pt' = k /\ phase' = "eval"
  /\ out' = [r1 |-> ImplRates(cfg, SettingOf(set), PointRow(spec, cfg, k), 1),
             r2 |-> ImplRates(cfg, SettingOf(set), PointBatch(spec, cfg, k), 2)]
  /\ UNCHANGED <<nb, present, mods, last, nplaced, spec, cfg, set>>

Next == \/ \E c \in 1..MaxChan, s \in 1..MaxSamp, m \in MIds : AddMod(c, s, m)
        \/ \E k \in Settings, o \in Overrides : Build(k, o)
        \/ \E k \in 0..(NPts - 1) : Eval(k)
Spec == Init /\ [][Next]_vars

-----------------------------------------------------------------------------
TypeOK == phase \in {"edit", "built", "eval"}

S == SettingOf(set)
\* C01: transcription of the implementation equals the definition, unbatched and batched
Refines == phase = "eval" =>
  LET p1 == PointRow(spec, cfg, pt)  p2 == PointBatch(spec, cfg, pt) IN
  /\ out.r1 = DefRates(spec, cfg, S, p1, 1)
  /\ out.r2 = DefRates(spec, cfg, S, p2, 2)
\* the symbolic decomposition coef * prod atoms reproduces the exact rate where the atoms are rational (integer alpha)
SymConsistent == phase = "eval" /\ S.clipS = <<>> /\ S.clipB = <<>> =>
  LET th == ThetaOf(cfg, PointRow(spec, cfg, pt), 0) IN
  \A i \in 1..Len(cfg.channels) :
     LET sym == DefChannelSym(spec, S, th, cfg.channels[i])  ex == DefChannelRates(spec, S, th, cfg.channels[i]) IN
     \A b \in DOMAIN ex : ex[b] = RSumSeq([j \in DOMAIN sym[b] |->
          RMul(sym[b][j].coef, RProdSeq([q \in DOMAIN sym[b][j].atoms |->
               I1(sym[b][j].atoms[q].lo, ROne, sym[b][j].atoms[q].hi, sym[b][j].atoms[q].alpha)]))])
\* C10: row independence, stated on the implementation layer
RowIndep == phase = "eval" =>
  /\ out.r2[1] = out.r1[1]
  /\ out.r2[2] = ImplRates(cfg, S, PointRow(spec, cfg, pt + 1), 1)[1]
\* C02: constraint terms
TermsRefine == phase = "eval" =>
  LET p1 == PointRow(spec, cfg, pt)
      d  == DataOf(spec, cfg)
      df == DefTerms(spec, cfg, S, p1, 0, d)
      im == ImplConsTerms(spec, cfg, p1, 0, d)
  IN /\ SeqToBag(df.cons) = SeqToBag(im.norm \o im.pois)
     /\ Len(df.cons) = SumNat([q \in 1..Len(AuxOrder(cfg)) |-> cfg.psize[AuxOrder(cfg)[q]]])
     /\ Len(AuxNominal(spec, cfg)) = Len(df.cons)
\* C12
Layout == phase # "edit" =>
  /\ LayoutOK(cfg.parOrder, cfg.pstart, cfg.psize, cfg.npars)
  /\ \A i \in 1..Len(cfg.parOrder) : LET pi == ParamInfo(spec, cfg, cfg.parOrder[i]) IN
        /\ Len(pi.init) = pi.size /\ Len(pi.bounds) = pi.size /\ Len(pi.fixed) = pi.size
        /\ (Constrained(pi.type) => Len(pi.aux) = pi.size)
  /\ cfg.nG = SumNat([i \in 1..Len(cfg.channels) |-> cfg.nbins[cfg.channels[i]]])
\* C01 "samples that do not declare a modifier are untouched by it": moving only theta_n
\* changes the by-sample rate of (j, g) only if the cell declares a modifier named n
Untouched == phase = "eval" /\ pt = 1 =>
  LET p1 == PointRow(spec, cfg, pt) IN
  \A q \in 1..Len(cfg.parOrder) :
    LET n  == cfg.parOrder[q]
        p2 == [i \in 1..Len(p1) |-> IF i > cfg.pstart[n] /\ i <= cfg.pstart[n] + cfg.psize[n]
                                    THEN RAdd(p1[i], ROne) ELSE p1[i]]
    IN \A j \in 1..Len(cfg.samples), g \in 1..cfg.nG :
         LET sm == SampleAt(spec, cfg.gcell[g][1], cfg.samples[j])
             declares == sm # NoSample /\ \E k \in 1..Len(sm.mods) : sm.mods[k].name = n
         IN ~declares => ImplBySample(cfg, S, p1, j, 0, g) = ImplBySample(cfg, S, p2, j, 0, g)

-----------------------------------------------------------------------------
(* case emission for Binding A *)
ThetaJson(c, p, row) == [q \in 1..Len(c.parOrder) |->
                           [name |-> c.parOrder[q], vals |-> ThetaOf(c, p, row)[c.parOrder[q]]]]
Case ==
  LET p1 == PointRow(spec, cfg, pt)
      p2 == PointBatch(spec, cfg, pt)
      d  == DataOf(spec, cfg)
      ao == AuxOrder(cfg)
  IN [ spec |-> spec, setting |-> S, sid |-> set, pt |-> pt,
       theta |-> ThetaJson(cfg, p1, 0), theta2 |-> ThetaJson(cfg, p2, 1),
       chan_rates |-> [i \in 1..Len(cfg.channels) |->
                          [name |-> cfg.channels[i], rates |-> DefChannelRates(spec, S, ThetaOf(cfg, p1, 0), cfg.channels[i])]],
       chan_rates2 |-> [i \in 1..Len(cfg.channels) |->
                          [name |-> cfg.channels[i], rates |-> DefChannelRates(spec, S, ThetaOf(cfg, p2, 1), cfg.channels[i])]],
       by_sample |-> [j \in 1..Len(cfg.samples) |-> [name |-> cfg.samples[j],
                          rates |-> [g \in 1..cfg.nG |-> ImplBySample(cfg, S, p1, j, 0, g)]]],
       impl |-> [par_order |-> cfg.parOrder,
                 sizes |-> [q \in 1..Len(cfg.parOrder) |-> cfg.psize[cfg.parOrder[q]]],
                 channels |-> cfg.channels, samples |-> cfg.samples, modifiers |-> cfg.modifiers,
                 aux_order |-> ao],
       params |-> [q \in 1..Len(cfg.parOrder) |->
                     LET pi == ParamInfo(spec, cfg, cfg.parOrder[q]) IN
                     [name |-> cfg.parOrder[q], type |-> pi.type, init |-> pi.init, bounds |-> pi.bounds,
                      fixed |-> pi.fixed, aux |-> pi.aux, var |-> pi.var, tau |-> pi.tau]],
       main_data |-> MainData(cfg),
       aux_data |-> [q \in 1..Len(ao) |-> [name |-> ao[q],
                       vals |-> LET off == SumNat([r \in 1..(q - 1) |-> cfg.psize[ao[r]]])
                                IN [i \in 1..cfg.psize[ao[q]] |-> AuxData(spec, cfg)[off + i]]]],
       terms |-> DefTerms(spec, cfg, S, p1, 0, d),
       \* symbolic lane (no clipping; only where a normsys exists)
       sym |-> IF S.clipS = <<>> /\ S.clipB = <<>> /\ (\E q \in 1..Len(cfg.modifiers) : cfg.modifiers[q][2] = NORMSYS)
               THEN LET th == SymTheta(cfg, p1) IN
                    << [theta |-> [q \in 1..Len(cfg.parOrder) |-> [name |-> cfg.parOrder[q], vals |-> th[cfg.parOrder[q]]]],
                        chans |-> [i \in 1..Len(cfg.channels) |-> [name |-> cfg.channels[i],
                                     bins |-> DefChannelSym(spec, S, th, cfg.channels[i])]]] >>
               ELSE <<>> ]

\* structural hash of the specification (all points and settings of one spec are kept together)
SpecHash == LET w(cell) == cell[1] * 3 + cell[2]
                RECURSIVE HS(_)
                HS(D) == IF D = {} THEN 0 ELSE LET m == CHOOSE m \in D : TRUE IN MOrd(m) * MOrd(m) + HS(D \ {m})
            IN SumNat([i \in 1..(MaxChan * MaxSamp) |-> LET cell == <<((i - 1) \div MaxSamp) + 1, ((i - 1) % MaxSamp) + 1>> IN
                          IF cell \in present THEN w(cell) * (11 + HS(mods[cell])) ELSE 0])
               + SumNat([c \in 1..MaxChan |-> (2 * c + 1) * nb[c]])
Emit == (EmitCases /\ phase = "eval" /\ SpecHash % EmitMod = EmitRes) => PrintT(ToJson(Case))
=============================================================================
