----------------------------- MODULE MC_Tensor -----------------------------
(***************************************************************************)
(* A small tensor program: one accumulator tensor, started from a pool of   *)
(* base tensors, transformed by the operations of Tensor.tla with operands  *)
(* from the pool.  Every state carries the program that produced it (init,  *)
(* prog) and its definitional value (acc): TLC checks the algebraic laws    *)
(* below in every state and prints a seeded fraction of the states; the     *)
(* harness runs the same program with native tensors of every backend and   *)
(* compares shape and values with acc.                                      *)
(***************************************************************************)
EXTENDS Tensor, Json

CONSTANTS MaxSteps, EmitCases, EmitMod, EmitRes

VARIABLES init, prog, acc, rat      \* rat: acc holds rationals (after percentile/divide; such a program has ended)
vars == <<init, prog, acc, rat>>

Pool == << T(<<3>>, <<2, -1, 4>>),
           T(<<2, 3>>, <<1, -2, 3, 4, 0, 6>>),
           T(<<1>>, <<5>>),
           T(<<>>, <<3>>),
           T(<<2, 1, 2>>, <<1, -2, 3, 0>>),
           T(<<3, 1>>, <<7, 0, -3>>),
           T(<<2, 2>>, <<0, 1, 1, 2>>),
           T(<<4>>, <<3, 1, 2, 0>>),
           T(<<3>>, <<1, 0, 1>>),
           T(<<2, 3>>, <<1, 1, 0, 0, 1, 0>>),
           T(<<2>>, <<1, 0>>) >>
IsMask(t) == \A p \in DOMAIN t.d : t.d[p] \in {0, 1}
Small(t) == ~rat /\ Len(t.d) <= 24 /\ Rank(t) <= 4 /\ \A p \in DOMAIN t.d : t.d[p] > -2000 /\ t.d[p] < 2000

Step(o, r) == /\ Len(prog) < MaxSteps
              /\ Small(acc)
              /\ prog' = Append(prog, o)
              /\ acc' = r
              /\ rat' = FALSE
              /\ UNCHANGED init
StepR(o, r) == /\ Len(prog) < MaxSteps
               /\ Small(acc)
               /\ prog' = Append(prog, o)
               /\ acc' = r
               /\ rat' = TRUE
               /\ UNCHANGED init

Shapes == {<<-1>>, <<1, -1>>, <<-1, 1>>, <<2, -1>>, <<-1, 2>>, <<3, -1>>, <<2, 1, -1>>, <<-1, 3>>, <<6>>, <<4>>, <<2, 3>>}
DoReshape == \E s \in Shapes : CanReshape(acc, s) /\ Resolve(s, Len(acc.d)) # acc.sh
                 /\ Step([op |-> "reshape", sh |-> s], Reshape(acc, s))
DoRavel == Rank(acc) # 1 /\ Step([op |-> "ravel"], Ravel(acc))
\* contract: matrices only (pyhf transposes rank-2 tensors; on rank 3 pytorch swaps the first two axes where numpy reverses all)
DoTranspose == Rank(acc) = 2 /\ Step([op |-> "transpose"], Transpose(acc))
DoSum == \/ Step([op |-> "sum", axis |-> -1], SumAll(acc))
         \/ \E ax \in 1..Rank(acc) : Step([op |-> "sum", axis |-> ax - 1], SumAxis(acc, ax))
DoProduct == ~rat /\ Len(acc.d) <= 8 /\ (\A p \in DOMAIN acc.d : Abs(acc.d[p]) <= 12) /\
             \/ Step([op |-> "product", axis |-> -1], ProdAll(acc))
             \/ \E ax \in 1..Rank(acc) : Step([op |-> "product", axis |-> ax - 1], ProdAxis(acc, ax))
DoStack == \E k \in DOMAIN Pool : \E ax \in 1..(Rank(acc) + 1) : \E first \in BOOLEAN :
              /\ Pool[k].sh = acc.sh
              /\ Step([op |-> "stack", axis |-> ax - 1, other |-> Pool[k], first |-> first],
                      Stack(IF first THEN <<acc, Pool[k]>> ELSE <<Pool[k], acc, Pool[k]>>, ax))
DoConcat == \E k \in DOMAIN Pool : \E ax \in 1..Rank(acc) : \E first \in BOOLEAN :
              /\ CanConcat(<<acc, Pool[k]>>, ax)
              /\ Step([op |-> "concatenate", axis |-> ax - 1, other |-> Pool[k], first |-> first],
                      Concat(IF first THEN <<acc, Pool[k]>> ELSE <<Pool[k], acc, Pool[k]>>, ax))
Reps == {<<2>>, <<1, 2>>, <<2, 1>>, <<2, 2>>, <<3>>, <<1, 1, 2>>, <<2, 1, 1>>}
\* contract: one multiplier per dimension, or more (tensorflow refuses fewer multipliers than dimensions)
DoTile == \E r \in Reps : Len(r) >= Rank(acc) /\ Len(acc.d) * Prod(r) <= 24 /\ Step([op |-> "tile", reps |-> r], Tile(acc, r))
DoOuter == \E k \in DOMAIN Pool : \E first \in BOOLEAN : Rank(acc) = 1 /\ Rank(Pool[k]) = 1
              /\ Step([op |-> "outer", other |-> Pool[k], first |-> first],
                      IF first THEN Outer(acc, Pool[k]) ELSE Outer(Pool[k], acc))
\* gather: acc is the data, the index tensor comes from the pool (entries within the first axis)
DoGather == \E k \in DOMAIN Pool :
              /\ Rank(acc) >= 1
              /\ (\A p \in DOMAIN Pool[k].d : Pool[k].d[p] >= 0 /\ Pool[k].d[p] < acc.sh[1])
              /\ Len(Pool[k].d) * Prod(Tail(acc.sh)) <= 24
              /\ Step([op |-> "gather", idx |-> Pool[k]], Gather(acc, Pool[k]))
DoMask == \E k \in DOMAIN Pool : IsMask(Pool[k]) /\ Pool[k].sh = acc.sh
              /\ Step([op |-> "boolean_mask", mask |-> Pool[k]], BooleanMask(acc, Pool[k]))
DoWhere == \E k \in DOMAIN Pool, k2 \in DOMAIN Pool : \E first \in BOOLEAN :
              /\ IsMask(Pool[k]) /\ Pool[k].sh = acc.sh /\ Pool[k2].sh = acc.sh
              /\ Step([op |-> "where", mask |-> Pool[k], other |-> Pool[k2], first |-> first],
                      IF first THEN Where(Pool[k], acc, Pool[k2]) ELSE Where(Pool[k], Pool[k2], acc))
DoClip == \E b \in {<<0, 3>>, <<-1, 1>>, <<2, 100>>} : Step([op |-> "clip", lo |-> b[1], hi |-> b[2]], Clip(acc, b[1], b[2]))
DoAbs == ~rat /\ (\E p \in DOMAIN acc.d : acc.d[p] < 0) /\ Step([op |-> "abs"], AbsT(acc))
DoPower == \E k \in {2, 3} : ~rat /\ (\A p \in DOMAIN acc.d : Abs(acc.d[p]) <= 12) /\ Step([op |-> "power", exp |-> k], PowT(acc, k))
DoBroadcast == \E k \in DOMAIN Pool, k2 \in DOMAIN Pool : \E pick \in 1..3 :
              /\ CanBroadcast(<<acc, Pool[k], Pool[k2]>>)
              /\ Step([op |-> "simple_broadcast", others |-> <<Pool[k], Pool[k2]>>, pick |-> pick],
                      SimpleBroadcast(<<acc, Pool[k], Pool[k2]>>)[pick])
\* the einsum signatures pyhf itself uses (with the ellipses instantiated) plus contraction/trace-free basics
Sigs == { [ins |-> <<<<1, 2>>>>, out |-> <<2, 1>>],                               \* ij->ji
          [ins |-> <<<<1>>, <<2>>>>, out |-> <<1, 2>>],                           \* i,j->ij
          [ins |-> <<<<1, 2>>, <<2>>>>, out |-> <<1>>],                           \* ij,j->i
          [ins |-> <<<<1, 2>>, <<1, 3, 4>>>>, out |-> <<1, 3, 2, 4>>],            \* sa,shb->shab
          [ins |-> <<<<1, 2, 3>>>>, out |-> <<2, 1, 3>>],                         \* ij...->ji...
          [ins |-> <<<<1, 2, 3>>>>, out |-> <<2, 3, 1>>],                         \* j...->...j
          [ins |-> <<<<1, 2>>, <<1, 2>>>>, out |-> <<1>>],                        \* ij,ij->i
          [ins |-> <<<<1, 2>>, <<1, 2>>>>, out |-> <<>>],                         \* ij,ij->
          [ins |-> <<<<1>>, <<1>>>>, out |-> <<>>] }                              \* i,i->
DoEinsum == \E g \in Sigs :
              \/ /\ Len(g.ins) = 1 /\ EinsumOK(g.ins, g.out, <<acc>>)
                 /\ Step([op |-> "einsum", ins |-> g.ins, out |-> g.out, others |-> <<>>], Einsum(g.ins, g.out, <<acc>>))
              \/ \E k \in DOMAIN Pool : Len(g.ins) = 2 /\ Rank(acc) = Len(g.ins[1]) /\ Rank(Pool[k]) = Len(g.ins[2])
                 /\ EinsumOK(g.ins, g.out, <<acc, Pool[k]>>)
                 /\ Prod([q \in DOMAIN g.out |-> IF g.out[q] \in Range(g.ins[1]) THEN acc.sh[PosOf(g.ins[1], g.out[q])]
                                                    ELSE Pool[k].sh[PosOf(g.ins[2], g.out[q])]]) <= 24
                 /\ Step([op |-> "einsum", ins |-> g.ins, out |-> g.out, others |-> <<Pool[k]>>], Einsum(g.ins, g.out, <<acc, Pool[k]>>))
Methods == {"linear", "lower", "higher", "midpoint", "nearest"}
Qs == {0, 20, 25, 50, 75, 100}
\* percentile and divide end a program (rational data)
DoPercentile == \E m \in Methods : \E q \in Qs : Len(acc.d) >= 1 /\
              \/ PctDefined(Len(acc.d), q, m) /\ StepR([op |-> "percentile", q |-> <<q>>, axis |-> -1, method |-> m, qvec |-> FALSE], PctAll(acc, q, m))
              \/ \E ax \in 1..Rank(acc) : PctDefined(acc.sh[ax], q, m)
                    /\ StepR([op |-> "percentile", q |-> <<q>>, axis |-> ax - 1, method |-> m, qvec |-> FALSE], PctAxis(acc, ax, q, m))
DoPercentileVec == \E m \in {"linear"} : \E qs \in {<<25, 50, 100>>, <<0, 75>>} : Len(acc.d) >= 1
              /\ StepR([op |-> "percentile", q |-> qs, axis |-> -1, method |-> m, qvec |-> TRUE], PctAllQ(acc, qs, m))
DoDivide == \E k \in DOMAIN Pool : \E first \in BOOLEAN : ~rat /\ Pool[k].sh = acc.sh
              /\ (first => \A p \in DOMAIN Pool[k].d : Pool[k].d[p] # 0) /\ (~first => \A p \in DOMAIN acc.d : acc.d[p] # 0)
              /\ StepR([op |-> "divide", other |-> Pool[k], first |-> first], IF first THEN DivT(acc, Pool[k]) ELSE DivT(Pool[k], acc))

Init == \E k \in DOMAIN Pool : init = Pool[k] /\ acc = Pool[k] /\ prog = <<>> /\ rat = FALSE
Next == \/ DoReshape \/ DoRavel \/ DoTranspose \/ DoSum \/ DoProduct \/ DoStack \/ DoConcat \/ DoTile \/ DoOuter
        \/ DoGather \/ DoMask \/ DoWhere \/ DoClip \/ DoAbs \/ DoPower \/ DoBroadcast \/ DoEinsum
        \/ DoPercentile \/ DoPercentileVec \/ DoDivide
Spec == Init /\ [][Next]_vars

-----------------------------------------------------------------------------
WellFormed == WF(acc)
\* algebraic laws of the contract (checked on every reachable accumulator with integer data)
Laws == ~rat /\ Len(acc.d) >= 1 /\ Len(acc.d) <= 12 =>
  /\ Ravel(Reshape(acc, <<-1>>)) = Ravel(acc)
  /\ Transpose(Transpose(acc)) = acc
  /\ (Rank(acc) >= 1 => SumAll(SumAxis(acc, 1)) = SumAll(acc))
  /\ (Rank(acc) >= 1 /\ Len(acc.d) <= 6 /\ (\A p \in DOMAIN acc.d : Abs(acc.d[p]) <= 12) => ProdAll(ProdAxis(acc, Rank(acc))) = ProdAll(acc))
  /\ (Rank(acc) >= 1 => Concat(<<acc, acc>>, 1) = Tile(acc, <<2>> \o [k \in 1..(Rank(acc) - 1) |-> 1]))
  /\ Stack(<<acc, acc>>, 1).d = acc.d \o acc.d
  /\ (Rank(acc) >= 1 => SumAxis(Stack(<<acc, acc>>, 1), 1) = T(acc.sh, [p \in DOMAIN acc.d |-> 2 * acc.d[p]]))
  /\ (Rank(acc) = 2 => Einsum(<<<<1, 2>>>>, <<2, 1>>, <<acc>>) = Transpose(acc))
  /\ (Rank(acc) = 1 => Einsum(<<<<1>>, <<2>>>>, <<1, 2>>, <<acc, acc>>) = Outer(acc, acc))
  /\ (Rank(acc) = 2 => Einsum(<<<<1, 2>>, <<1, 2>>>>, <<>>, <<acc, acc>>) = SumAll(PowT(acc, 2)))
  /\ BooleanMask(acc, T(acc.sh, [p \in DOMAIN acc.d |-> 1])) = Ravel(acc)
  /\ (Rank(acc) >= 1 => Gather(acc, T(<<acc.sh[1]>>, [p \in 1..acc.sh[1] |-> p - 1])) = acc)
  /\ PctAll(acc, 0, "linear").d[1] = R(Sort(acc.d)[1])
  /\ PctAll(acc, 100, "lower").d[1] = R(Sort(acc.d)[Len(acc.d)])
  /\ RLe(PctAll(acc, 25, "linear").d[1], PctAll(acc, 75, "linear").d[1])
  /\ RLe(PctAll(acc, 50, "lower").d[1], PctAll(acc, 50, "midpoint").d[1]) /\ RLe(PctAll(acc, 50, "midpoint").d[1], PctAll(acc, 50, "higher").d[1])

Hash == (Len(prog) * 7 + SumI([p \in DOMAIN acc.d |-> IF ~rat THEN Abs(acc.d[p]) ELSE Abs(acc.d[p][1]) + acc.d[p][2]])
         + 13 * Len(acc.d) + 31 * SumI(acc.sh) + 3 * SumI(init.sh)) % EmitMod
Emit == (EmitCases /\ Len(prog) >= 1 /\ Hash = EmitRes) => PrintT(ToJson([init |-> init, prog |-> prog, result |-> acc]))
=============================================================================
