----------------------------- MODULE MC_Backend -----------------------------
(***************************************************************************)
(* Backend.tla with a history variable so that simulated behaviours can be *)
(* replayed into the real pyhf: every action appends the operation, its    *)
(* arguments and the projection of the post-state the harness compares     *)
(* (current backend, optimiser, default, ids still in the callback list,   *)
(* ids alive).  The exhaustive run (MC_Backend_exh.cfg semantics) hides     *)
(* hist with a VIEW.                                                        *)
(***************************************************************************)
EXTENDS Backend, Json, TLC

CONSTANTS Kinds, MaxHist, EmitCases, Defaults
VARIABLE hist
hvars == <<vars, hist>>

Post == [cur |-> cur', opt |-> opt', dflt |-> dflt', subs |-> subs',
         alive |-> {i \in DOMAIN objs' : objs'[i].alive}]
HInit == Init /\ hist = <<>>
Room == Len(hist) < MaxHist
HCreate(k) == Room /\ Create /\ hist' = Append(hist, [op |-> "create", kind |-> k, id |-> Len(objs) + 1, post |-> Post])
HDrop(i) == Room /\ Drop(i) /\ hist' = Append(hist, [op |-> "drop", id |-> i, post |-> Post])
HEval(i) == Room /\ Eval(i) /\ hist' = Append(hist, [op |-> "eval", id |-> i, post |-> Post])
HRefuse(w) == Room /\ Refuse /\ hist' = Append(hist, [op |-> "refuse", what |-> w, post |-> Post])
HSwap(n, p, o, d) == Room /\ Swap(n, p, o, d)
                     /\ hist' = Append(hist, [op |-> "set_backend", name |-> n, precision |-> p, optimizer |-> o, default |-> d,
                                              changed |-> (<<n, p>> # cur), post |-> Post])
\* Fire and Setup belong to the same library call: they update the projection of the last entry
HFire == Fire /\ hist' = [hist EXCEPT ![Len(hist)].post = Post]
HSetup == Setup /\ hist' = [hist EXCEPT ![Len(hist)].post = Post]

HNext ==
  \/ \E k \in Kinds : HCreate(k)
  \/ \E i \in Ids : HDrop(i) \/ HEval(i)
  \/ \E w \in {"name", "precision", "optimizer"} : HRefuse(w)
  \/ \E n \in BNames, p \in Precs, o \in Opts, d \in Defaults : HSwap(n, p, o, d)
  \/ HFire \/ HSetup
HSpec == HInit /\ [][HNext]_hvars

NoHist == vars          \* VIEW for the exhaustive run
\* one JSON behaviour per completed history (simulation mode)
Emit == (EmitCases /\ pc = "idle" /\ Len(hist) = MaxHist) => PrintT(ToJson([hist |-> hist]))
=============================================================================
