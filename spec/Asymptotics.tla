----------------------------- MODULE Asymptotics -----------------------------
(***************************************************************************)
(* C07 -- asymptotic p-values of arXiv:1007.1727 as exact Phi-ARGUMENTS.    *)
(*                                                                         *)
(* Everything is expressed in r = sqrt(q), rA = sqrt(q_A) (rA > 0), both    *)
(* rational on the perfect-square grid of the model-checking instance.      *)
(* Phi itself never appears: a p-value is represented by the exact rational *)
(* x with p = Phi(x); Phi is strictly increasing, so equalities and         *)
(* orderings of p-values are equalities and orderings of arguments.         *)
(*                                                                         *)
(* Two layers:                                                              *)
(*   Paper*   definition-shaped: the formulae as the property states them   *)
(*   TS, MkDists, PValueArg, ExpectedValue, ...   implementation-shaped:    *)
(*            one operator per step of pyhf/infer/calculators.py            *)
(***************************************************************************)
EXTENDS Rat

Kinds == {"q", "qtilde", "q0"}
Bases == {"normal", "clipped_normal"}
NSigmas == <<2, 1, 0, -1, -2>>          \* order used by expected_pvalues

RSq(x)   == RMul(x, x)
RTwo     == R(2)

-----------------------------------------------------------------------------
(* Definition layer (arXiv:1007.1727, Eqs. 59/57 for q_mu and q_0, 65/66    *)
(* for qtilde_mu), as stated in properties.jsonl:                           *)
(*   CLsb = 1 - Phi(r)             = Phi(-r)                                 *)
(*   CLb  = 1 - Phi(r - rA)        = Phi(rA - r)                             *)
(* and for qtilde with q > qA                                               *)
(*   CLsb = 1 - Phi((q+qA)/(2rA))  = Phi(-(r^2+rA^2)/(2rA))                  *)
(*   CLb  = 1 - Phi((q-qA)/(2rA))  = Phi(-(r^2-rA^2)/(2rA))                  *)
(***************************************************************************)
PaperSecondBranch(kind, r, rA) == kind = "qtilde" /\ RGt(r, rA)      \* q > qA  <=>  r > rA  (both >= 0)

PaperSB(kind, r, rA) ==
  IF PaperSecondBranch(kind, r, rA)
  THEN RNeg(RDiv(RAdd(RSq(r), RSq(rA)), RMul(RTwo, rA)))
  ELSE RNeg(r)
PaperB(kind, r, rA) ==
  IF PaperSecondBranch(kind, r, rA)
  THEN RNeg(RDiv(RSub(RSq(r), RSq(rA)), RMul(RTwo, rA)))
  ELSE RSub(rA, r)

\* N-sigma expected values: CLs_exp(N) = Phi(-N - rA) / Phi(-N); with the clipped base distribution an
\* expected value that would correspond to a negative test statistic (N < -rA, i.e. sqrt(q) = N + rA < 0)
\* is capped at the statistic 0 (sqrt(q) = 0), all others are unchanged
PaperE(base, n, rA)      == IF base = "clipped_normal" /\ RLt(R(n), RNeg(rA)) THEN RNeg(rA) ELSE R(n)
PaperBandSB(base, n, rA) == RNeg(RAdd(PaperE(base, n, rA), rA))
PaperBandB(base, n, rA)  == RNeg(PaperE(base, n, rA))

-----------------------------------------------------------------------------
(* Implementation layer -- transcribed from infer/calculators.py             *)
(***************************************************************************)
\* a cutoff is -infinity (normal) or a finite rational (clipped_normal)
MinusInf   == [fin |-> FALSE, v |-> RZero]
Fin(x)     == [fin |-> TRUE, v |-> x]
GeCut(x, c) == IF c.fin THEN RGe(x, c.v) ELSE TRUE        \* x >= cutoff
GtCut(x, c) == IF c.fin THEN RGt(x, c.v) ELSE TRUE        \* x >  cutoff

\* AsymptoticCalculator.teststatistic: the transform into -muhat/sigma space.
\*   q, q0  : sqrtqmu - sqrtqmuA
\*   qtilde : conditional(sqrtqmu <= sqrtqmuA, _true_case, _false_case)
TrueCase(r, rA)  == RSub(r, rA)
FalseCase(r, rA) == RDiv(RSub(RSq(r), RSq(rA)), RMul(RTwo, rA))
TS(kind, r, rA) ==
  IF kind \in {"q", "q0"} THEN RSub(r, rA)
  ELSE IF RLe(r, rA) THEN TrueCase(r, rA) ELSE FalseCase(r, rA)
\* the same with the seam attributed to the other branch ('<' instead of '<='; issue #1992)
TSAlt(kind, r, rA) ==
  IF kind \in {"q", "q0"} THEN RSub(r, rA)
  ELSE IF RLt(r, rA) THEN TrueCase(r, rA) ELSE FalseCase(r, rA)

\* AsymptoticCalculator.distributions (needs the cached sqrtqmuA_v)
MkDists(base, cachedRA) ==
  LET cut == IF base = "normal" THEN MinusInf ELSE Fin(RNeg(cachedRA)) IN
  [sb |-> [shift |-> RNeg(cachedRA), cutoff |-> cut],
   b  |-> [shift |-> RZero,          cutoff |-> cut]]

\* AsymptoticTestStatDistribution.pvalue: normal_cdf(-(value - shift)) where value >= cutoff, NaN elsewhere
PValueArg(d, value)   == RNeg(RSub(value, d.shift))
PValueValid(d, value) == GeCut(value, d.cutoff)
\* AsymptoticTestStatDistribution.expected_value: where(shift + nsigma > cutoff, shift + nsigma, cutoff)
ExpectedValue(d, n) ==
  LET x == RAdd(d.shift, R(n)) IN IF GtCut(x, d.cutoff) THEN x ELSE d.cutoff.v

\* AsymptoticCalculator.pvalues / expected_pvalues
PValues(dists, t) ==
  [sb |-> PValueArg(dists.sb, t), b |-> PValueArg(dists.b, t),
   valid |-> PValueValid(dists.sb, t) /\ PValueValid(dists.b, t)]
ExpectedPValues(dists) ==
  [i \in 1..Len(NSigmas) |->
     LET e == ExpectedValue(dists.b, NSigmas[i]) IN
     [n |-> NSigmas[i], e |-> e,
      sb |-> PValueArg(dists.sb, e), b |-> PValueArg(dists.b, e),
      valid |-> PValueValid(dists.sb, e) /\ PValueValid(dists.b, e)]]

-----------------------------------------------------------------------------
(* Facts that hold for ALL rationals, checked here on a witness grid at     *)
(* parse time (the model-checking instance re-checks them as invariants on  *)
(* its own grid).                                                           *)
(***************************************************************************)
WitnessR == {RN(k, 4) : k \in 0..12} \cup {RN(k, 3) : k \in 1..8}
\* the two qtilde branch formulas coincide at the seam r = rA, in both the teststat and the paper form
ASSUME SeamFormulasCoincide ==
  \A x \in WitnessR \ {RZero} :
     /\ TrueCase(x, x) = FalseCase(x, x) /\ TrueCase(x, x) = RZero
     /\ RNeg(x) = RNeg(RDiv(RAdd(RSq(x), RSq(x)), RMul(RTwo, x)))
     /\ RSub(x, x) = RNeg(RDiv(RSub(RSq(x), RSq(x)), RMul(RTwo, x)))
=============================================================================
